"""C04 — a mounted reactive view always settles to the render of current state."""
from . import common as C

PID = "C04"
PROPS_V = "theories/Props/Properties_C04.v"
MODEL_NAME = "Dom/ReactiveView.v"
HARNESS = "dom"
HARNESS_ARGS = ["c04"]
ALLOWED_AXIOMS = []
READY = True
RUN_IMPORT = "Dom.ReactiveRun"
IMPL_SHARDS = 8

RULE = ("(added by the anchor coverage audit, coverage/C04.md: every second case also yields a reactive-wide program — "
        "dynamic text and title / class / class:x / style:x / style values as closures, Arc<dyn Fn>, Arc<Mutex<dyn FnMut>> and "
        "the signal itself in nine types (RwSignal, ReadSignal, Memo, Signal, MaybeSignal, ArcRwSignal, ArcReadSignal, "
        "ArcMemo, ArcSignal), class = Option, class / style NAMES and Either-valued attributes chosen by the enclosing "
        "conditional's value (so that an in-place rebuild changes them), EitherOf3/4/5 conditionals, fragments of 0..3 views "
        "as branch roots, async leaves resolving to an element or a two-node fragment, add_any_attr on elements and on "
        "closures, for a third of them the first writes before any task was polled; judged by the oracle only; the "
        "leptos-level trees also contain fragments as branch roots, <Show> and boundaries without fallback, and "
        "ArcLocalResource) "
        "(a quarter of the cases are leptos-level component trees — the real <Show>, <For>/<ForEnumerate>, <Suspense>/"
        "<Transition> over LocalResources with oneshot-controlled fetchers read through Suspend and through .get(), "
        "<ErrorBoundary> switching between Ok and Err, nested, with dynamic text / property leaves — mounted with "
        "leptos::mount::mount_to_renderer; histories of signal writes, resource completions and, for half of them, "
        "dropping the mount handle at the end; judged by the oracle only) "
        "(a third of the cases additionally contain async leaves — closures returning Suspend over a fresh oneshot-"
        "controlled future per run that reads signals inside the async block — and enumerated keyed lists driven by a "
        "signal; their steps also complete outstanding futures in a chosen order, incl. older after newer, and all "
        "futures are completed at the end; async-only programs are run a second time with a reduced observation that "
        "is compared with the model) "
        "reactive view programs drawn from one PRNG (VERIF_SEED): static text | dynamic text (closure over signals) | "
        "element with dynamic title= / class= / class:on= / style:width= closures and 0..3 children | conditional "
        "(closure returning Either, plain or through a memo as <Show> does), nested to depth 3, over 1..3 signals; "
        "a history of 1..6 steps, each a list of signal writes (incl. same-value writes and writes to signals nobody "
        "reads) followed by an executor schedule (which ready task to poll next, until none is ready). "
        "Non-trivial: some step re-runs a closure and changes the DOM; distinct = distinct case hash.")
TRUSTED = [
    "Coq 8.16.1 kernel (coqc); no axioms: every theorem of Properties_C04.v is 'Closed under the global context'",
    "extraction to OCaml with ExtrOcamlBasic only, ocamlfind ocamlopt 4.13.1, extract/driver.ml sexp I/O",
    "harness/dom/src/c04.rs (Rust): builds the real tachys view (closures over RwSignal, AnyAttribute closures, Either, "
    "Memo), real build/mount/rebuild through real RenderEffects, its own executor (any_spawner custom executor with an "
    "exposed run queue; the case's schedule picks the task to poll)",
    "the native in-memory DOM of tachys under cfg(leptos_verif) (verif-hook 7e91a9c): node ids and per-node mutation counters",
    "modelled, not verified: the notification path signal -> subscriber -> channel -> task wake-up is abstracted to 'a "
    "write notifies exactly the live effects whose closure read the signal' (C02/C09 are about that machinery); a memo "
    "is abstracted to 'the effect re-runs only if the memoised value changed'; Owner cleanup is not modelled (effects "
    "are dropped with the state that holds them)",
    "every child is type-erased (AnyView) in the harness; the static typing of tuples/Either underneath is the real one",
    "compared, not proved (kind reactive-wide): the representations of reactive values (shared functions, signal types), "
    "Option / Either-valued attributes, EitherOfN, fragments, async leaves with element content, attribute spreading; "
    "a spread attribute is only put on views whose top-level elements are static (a type-erased view binds it to the "
    "elements present when it is built)",
]
ASSUMPTIONS = [
    "closures are pure functions of the signals they read and read all of them on every run (no untrack, no writes from effects)",
    "every view renders to exactly one DOM node (text or element); fragments / lists as branch roots are outside the model",
    "the leptos components (<Show>, <For>, <ForEnumerate>, <Suspense>, <Transition>, <ErrorBoundary>, LocalResource) "
    "and keyed lists are driven on the real code and judged by the model-independent oracle only: compared, not proved "
    "(<Show> corresponds to the memoised conditional of the Coq model); Resource (serialising) and Transition inside "
    "<For> rows are not generated",
    "leptos kind, idle points at which some resource is still loading: what a <Suspense> / a not yet established "
    "<Transition> shows there depends on whether its readers ran before or after the fetch task marked the resource as "
    "loading and on readers that were mounted only in the middle of the step (the schedule decides): for a boundary whose "
    "own subtree reads (under whatever Show / For conditions) a resource that is loading at that point the oracle demands "
    "'children or fallback, nothing else' (a boundary that reads no loading resource must show its children), 'children' for a Transition that had its children on screen at an "
    "idle point with nothing loading, and judges everything else (texts, attributes, <Show> branches, <For> rows, "
    "ErrorBoundary) strictly; with nothing loading every boundary must show its children and equal a fresh mount",
    "a boundary that is mounted by a step (a <Show> / <For> / ErrorBoundary switching to it) whose writes also re-trigger a "
    "resource it reads, and a Transition that was at a point where both children and fallback are accepted while the load "
    "continues, may show children or fallback until that load ends; "
    "a Transition created (by a re-running ErrorBoundary closure) in the step whose writes re-trigger a resource it reads "
    "may show its children or its fallback until that load ends: whether it was built before or after the refetch task "
    "marked the resource as loading is decided by the schedule",
    "while a resource is loading the oracle accepts, for a boundary whose mounted readers are not loading but whose "
    "unmounted readers' resource is, both the fallback and the children (readers unmounted during a load keep the "
    "boundary suspended until that load ends), and for Suspend(res.await) either of the last two values when a "
    "superseded load has just finished",
]


# ------------------------------------------------------------------ generation
def gen_expr(rng, nsig, depth=1):
    r = rng.random()
    if r < 0.6 or depth <= 0:
        return [0, rng.randrange(nsig)] if rng.random() < 0.85 else [1, rng.randint(0, 3)]
    return [2, gen_expr(rng, nsig, depth - 1), gen_expr(rng, nsig, depth - 1)]


class Lab:
    def __init__(self):
        self.n = 0

    def next(self):
        self.n += 1
        return self.n


def gen_view(rng, nsig, depth, lab):
    r = rng.random()
    if depth <= 0:
        r *= 0.45
    if r < 0.15:
        return [0, rng.randint(0, 9)]
    if r < 0.45:
        return [1, lab.next(), gen_expr(rng, nsig)]
    if r < 0.75:
        props = []
        kinds = [0, rng.choice([1, 2]), 3]
        for k in kinds:
            if rng.random() < 0.4:
                props.append([k, lab.next(), gen_expr(rng, nsig)])
        kids = [gen_view(rng, nsig, depth - 1, lab) for _ in range(rng.choice([0, 1, 1, 2, 3]))]
        return [2, props, kids]
    l = lab.next()
    c = gen_expr(rng, nsig)
    a = gen_view(rng, nsig, depth - 1, lab)
    b = gen_view(rng, nsig, depth - 1, lab)
    return [3, l, int(rng.random() < 0.4), c, a, b]


CLEANUP = 500


def gen_ext_view(rng, nsig, depth, lab, in_if=False):
    """views that also contain async leaves (4 l sync_expr async_expr) and keyed lists (5 l sig lists)"""
    r = rng.random()
    if depth <= 0:
        r *= 0.6
    if r < 0.08:
        return [0, rng.randint(0, 9)]
    if r < 0.22:
        return [1, lab.next(), gen_expr(rng, nsig)]
    if r < 0.45:
        es = gen_expr(rng, nsig) if rng.random() < 0.6 else [1, rng.randint(0, 2)]
        return [4, lab.next(), es, gen_expr(rng, nsig)]
    if r < 0.60:
        keys = rng.sample(range(1, 10), rng.randint(3, 5))
        lists = [list(keys)]
        for _ in range(rng.randint(2, 4)):
            m = rng.random()
            cur = list(rng.choice(lists))
            if m < 0.3 and cur:
                cur = cur[rng.randint(1, len(cur)):] if rng.random() < 0.5 else cur[:-1]
            elif m < 0.55:
                new = [k for k in range(1, 10) if k not in cur]
                if new:
                    cur.insert(rng.choice([0, 0, len(cur), rng.randint(0, len(cur))]), rng.choice(new))
            elif m < 0.8:
                rng.shuffle(cur)
            else:
                cur = []
            lists.append(cur)
        return [5, lab.next(), rng.randrange(nsig), lists]
    if r < 0.85:
        props = []
        for k in [0, rng.choice([1, 2]), 3]:
            if rng.random() < 0.25:
                props.append([k, lab.next(), gen_expr(rng, nsig)])
        kids = [gen_ext_view(rng, nsig, depth - 1, lab, in_if) for _ in range(rng.choice([1, 2, 2, 3]))]
        return [2, props, kids]
    l = lab.next()
    return [3, l, int(rng.random() < 0.4), gen_expr(rng, nsig),
            gen_ext_view(rng, nsig, depth - 1, lab, True), gen_ext_view(rng, nsig, depth - 1, lab, True)]


def async_labels(v):
    if v[0] == 4:
        return [v[1]]
    if v[0] == 2:
        return [l for k in v[2] for l in async_labels(k)]
    if v[0] == 3:
        return async_labels(v[4]) + async_labels(v[5])
    return []


def has_keyed(v):
    if v[0] == 5:
        return True
    if v[0] == 2:
        return any(has_keyed(k) for k in v[2])
    if v[0] == 3:
        return has_keyed(v[4]) or has_keyed(v[5])
    return False


def has_ext(v):
    if v[0] in (4, 5):
        return True
    if v[0] == 2:
        return any(has_ext(k) for k in v[2])
    if v[0] == 3:
        return has_ext(v[4]) or has_ext(v[5])
    return False


def gen_ext_case(rng):
    nsig = rng.choice([1, 2, 2, 3])
    while True:
        view = [2, [], [gen_ext_view(rng, nsig, rng.choice([1, 2, 2]), Lab()) for _ in range(rng.choice([1, 2]))]]
        labs = labels_all(view)
        if has_ext(view) and len(labs) == len(set(labs)):
            break
    sigs = [rng.randint(0, 2) for _ in range(nsig)]
    steps = []
    for _ in range(rng.randint(2, 7)):
        writes = [[rng.randrange(nsig), rng.choice([0, 1, 2, 3, 4])] for _ in range(rng.choice([0, 1, 1, 1, 2]))]
        picks = [rng.randint(0, 7) for _ in range(rng.choice([0, 0, 3, 6]))]
        r = rng.random()
        alabs = async_labels(view)
        if not alabs or r < 0.3:
            comps = []
        elif r < 0.6:
            comps = [[l, 0] for l in alabs]
        else:
            # (l 0): the future of the latest run of closure l; (l 1): the superseded futures of l
            comps = [[rng.choice(alabs), rng.choice([0, 0, 1])] for _ in range(rng.randint(1, 3))]
        steps.append([writes, picks, comps])
    return dict(case=[view, sigs, steps, [rng.randint(0, 1)]], kind="async-keyed", compare=False)


# ------------------------------------------------------------------ wide grammar (anchor coverage audit, coverage/C04.md)
# text (1 l e repr): repr 0 closure, 1 Arc<dyn Fn>, 2 Arc<Mutex<dyn FnMut>>, 3..11 the signal itself (e = one signal)
# props (k l e repr flag): k 0 title, 1 class, 2 class:NAME, 3 style:NAME, 4 style (whole), 5 class = Option,
#   6 Either-valued (title / class by the enclosing value); flag 1: NAME chosen by the enclosing conditional's value
# (4 l es ea ckind) async leaf with content kind 0 text, 1 <div>text</div>, 2 two texts
# (6 l e arms) EitherOf3/4/5, (7 kids) fragment, (8 l e kid) kid.add_any_attr(lang=e)
WPROPS = 7


def gen_wexpr(rng, nsig, single=False):
    if single:
        return [0, rng.randrange(nsig)]
    return gen_expr(rng, nsig)


def gen_wprops(rng, nsig, lab, in_plain_if):
    props = []
    used = set()
    for k in rng.sample([0, 1, 2, 3, 4, 5, 6], rng.choice([0, 1, 1, 2, 3])):
        # one owner per attribute: a whole `class=` rewrites the attribute a `class:x` toggles (last writer wins)
        slot = {0: "t", 1: "c", 2: "c", 3: "w", 4: "w", 5: "c", 6: "tc"}[k]
        if slot in used or (slot == "tc" and used & {"t", "c"}) or (slot in ("t", "c") and "tc" in used):
            continue
        used.add(slot)
        repr_ = rng.choice([0, 0, 1, 2] + list(range(3, 12))) if k <= 4 else 0
        flag = int(k in (2, 3) and in_plain_if and rng.random() < 0.6)
        e = gen_wexpr(rng, nsig, single=repr_ >= 3)
        props.append([k, lab.next(), e, repr_, flag])
    props.sort(key=lambda p: p[0])
    return props


def gen_wstatic(rng, nsig, depth, lab, in_plain_if):
    for _ in range(20):
        v = gen_wview(rng, nsig, depth, lab, in_plain_if)
        if static_top(v):
            return v
    return [0, 1]


def gen_wview(rng, nsig, depth, lab, in_plain_if=False, top=False):
    r = rng.random()
    if depth <= 0:
        r *= 0.4
    sub = lambda pif=in_plain_if: gen_wview(rng, nsig, depth - 1, lab, pif)
    if r < 0.06:
        return [0, rng.randint(0, 9)]
    if r < 0.24:
        repr_ = rng.choice([0, 0, 1, 2] + list(range(3, 12)))
        return [1, lab.next(), gen_wexpr(rng, nsig, single=repr_ >= 3), repr_]
    if r < 0.36:
        es = gen_expr(rng, nsig) if rng.random() < 0.6 else [1, rng.randint(0, 2)]
        return [4, lab.next(), es, gen_expr(rng, nsig), rng.choice([0, 1, 2])]
    if r < 0.58:
        return [2, gen_wprops(rng, nsig, lab, in_plain_if), [sub() for _ in range(rng.choice([0, 1, 1, 2, 3]))]]
    if r < 0.72:
        memo = int(rng.random() < 0.3)
        l = lab.next()
        return [3, l, memo, gen_expr(rng, nsig), gen_wview(rng, nsig, depth - 1, lab, not memo),
                gen_wview(rng, nsig, depth - 1, lab, not memo)]
    if r < 0.82:
        l = lab.next()
        n = rng.choice([3, 4, 5])
        return [6, l, gen_expr(rng, nsig), [gen_wview(rng, nsig, depth - 1, lab, True) for _ in range(n)]]
    if r < 0.90:
        return [7, [sub() for _ in range(rng.choice([0, 1, 2, 2, 3]))]]
    if r < 0.96:
        l = lab.next()
        e = gen_expr(rng, nsig)
        kid = rng.choice([
            lambda: [2, gen_wprops(rng, nsig, lab, in_plain_if), [sub() for _ in range(rng.choice([0, 1, 2]))]],
            lambda: [3, lab.next(), 0, gen_expr(rng, nsig), gen_wstatic(rng, nsig, depth - 1, lab, True), gen_wstatic(rng, nsig, depth - 1, lab, True)],
            lambda: [7, [[2, gen_wprops(rng, nsig, lab, in_plain_if), []] for _ in range(rng.randint(1, 2))]],
        ])()
        return [8, l, e, kid]
    keys = rng.sample(range(1, 10), rng.randint(2, 4))
    lists = [list(keys)]
    for _ in range(rng.randint(1, 3)):
        cur = list(rng.choice(lists))
        m = rng.random()
        if m < 0.35 and cur:
            cur.pop(rng.randrange(len(cur)))
        elif m < 0.65:
            new = [k for k in range(1, 10) if k not in cur]
            cur.insert(rng.randint(0, len(cur)), rng.choice(new))
        elif m < 0.85:
            rng.shuffle(cur)
        else:
            cur = []
        lists.append(cur)
    return [5, lab.next(), rng.randrange(nsig), lists]


def static_top(v):
    """the top-level nodes of v exist from the first render on and are never replaced by a closure of their own
    (a spread attribute on a type-erased view is bound to the elements present when it is built)"""
    if v[0] in (0, 1, 2):
        return True
    if v[0] == 7:
        return all(static_top(k) for k in v[1])
    return False


def wlabels(v):
    op = v[0]
    if op == 0:
        return []
    if op in (1, 4, 5):
        return [v[1]]
    if op == 2:
        return [p[1] for p in v[1]] + [l for k in v[2] for l in wlabels(k)]
    if op == 3:
        return [v[1]] + wlabels(v[4]) + wlabels(v[5])
    if op == 6:
        return [v[1]] + [l for a in v[3] for l in wlabels(a)]
    if op == 7:
        return [l for k in v[1] for l in wlabels(k)]
    if op == 8:
        return [v[1]] + wlabels(v[3])
    return []


def wasync_labels(v):
    op = v[0]
    if op == 4:
        return [v[1]]
    if op == 2:
        return [l for k in v[2] for l in wasync_labels(k)]
    if op == 3:
        return wasync_labels(v[4]) + wasync_labels(v[5])
    if op == 6:
        return [l for a in v[3] for l in wasync_labels(a)]
    if op == 7:
        return [l for k in v[1] for l in wasync_labels(k)]
    if op == 8:
        return wasync_labels(v[3])
    return []


def wfresh(v, s, env=0, wild=False):
    """the node list a from-scratch render shows (wide grammar); with wild, a pending async leaf is ["?", ckind]"""
    op = v[0]
    if op == 0:
        return [[0, v[1]]]
    if op == 1:
        return [[0, ev(v[2], s)]]
    if op == 2:
        p = [-1, -1, 0, -1, 0, -1, -1]
        for k, _l, e, _repr, flag in v[1]:
            x = ev(e, s)
            alt = bool(flag) and env % 2 == 1
            if k == 0:
                p[0] = x
            elif k == 1:
                p[1] = x
            elif k == 2:
                p[4 if alt else 2] = 1 if x != 0 else 0
            elif k == 3:
                p[5 if alt else 3] = x
            elif k == 4:
                p[3] = x
            elif k == 5:
                p[1] = x if x != 0 else -1
            else:
                p[0 if env % 2 == 0 else 1] = x
        return [[1, p, [n for k in v[2] for n in wfresh(k, s, env, wild)]]]
    if op == 3:
        n = ev(v[3], s)
        return wfresh(v[4] if n != 0 else v[5], s, 0 if v[2] else n, wild)
    if op == 4:
        if wild:
            return [["?", v[4]]]
        n = ev(v[2], s) + ev(v[3], s)
        return {0: [[0, n]], 1: [[1, [-1, -1, 0, -1, 0, -1, -1], [[0, n]]]], 2: [[0, n], [0, n + 1]]}[v[4]]
    if op == 5:
        lists = v[3]
        items = lists[s[v[2]] % len(lists)] if lists else []
        return [[0, i * 100 + k] for i, k in enumerate(items)]
    if op == 6:
        n = ev(v[2], s)
        return wfresh(v[3][n % len(v[3])], s, n, wild)
    if op == 7:
        return [n for k in v[1] for n in wfresh(k, s, env, wild)]
    if op == 8:
        out = []
        for n in wfresh(v[3], s, env, wild):
            if n[0] == 1:
                p = list(n[1])
                p[6] = ev(v[2], s)
                n = [1, p, n[2]]
            out.append(n)
        return out
    return []


def wmatch(want, got):
    """does the node list `got` equal `want`, where ["?", ckind] stands for nothing or for the content kind's nodes
    with any values (an async leaf that is pending shows nothing yet or what its previous run resolved to)"""
    if not want:
        return not got
    w = want[0]
    if w[0] == "?":
        if wmatch(want[1:], got):
            return True
        if w[1] == 0:
            return bool(got) and got[0][0] == 0 and wmatch(want[1:], got[1:])
        if w[1] == 1:
            return (bool(got) and got[0][0] == 1 and got[0][1] == [-1, -1, 0, -1, 0, -1, -1] and len(got[0][2]) == 1
                    and got[0][2][0][0] == 0 and wmatch(want[1:], got[1:]))
        return len(got) >= 2 and got[0][0] == 0 and got[1][0] == 0 and wmatch(want[1:], got[2:])
    if not got:
        return False
    g = got[0]
    if w[0] != g[0]:
        return False
    if w[0] == 0:
        return w[1] == g[1] and wmatch(want[1:], got[1:])
    return w[1] == g[1] and wmatch(w[2], g[2]) and wmatch(want[1:], got[1:])


def gen_wide_case(rng):
    nsig = rng.choice([1, 2, 2, 3])
    while True:
        lab = Lab()
        view = [2, [], [gen_wview(rng, nsig, rng.choice([1, 2, 2, 3]), lab) for _ in range(rng.choice([1, 2]))]]
        labs = wlabels(view)
        if len(labs) == len(set(labs)) and labs:
            break
    sigs = [rng.randint(0, 2) for _ in range(nsig)]
    steps = []
    alabs = wasync_labels(view)
    for _ in range(rng.randint(2, 6)):
        writes = [[rng.randrange(nsig), rng.choice([0, 1, 2, 3, 4, 5])] for _ in range(rng.choice([0, 1, 1, 1, 2]))]
        picks = [rng.randint(0, 7) for _ in range(rng.choice([0, 0, 3, 6]))]
        r = rng.random()
        if not alabs or r < 0.3:
            comps = []
        elif r < 0.6:
            comps = [[l, 0] for l in alabs]
        else:
            comps = [[rng.choice(alabs), rng.choice([0, 0, 1])] for _ in range(rng.randint(1, 3))]
        steps.append([writes, picks, comps])
    return dict(case=[view, sigs, steps, [rng.randint(0, 1)], [2, int(rng.random() < 0.3)]], kind="reactive-wide", compare=False)


def wtop_text_labels(v):
    """labels of closure-valued texts that are mounted for the whole run (no conditional above them)"""
    if v[0] == 1:
        return [v[1]] if v[3] < 3 else []
    if v[0] == 2:
        return [l for k in v[2] for l in wtop_text_labels(k)]
    if v[0] == 7:
        return [l for k in v[1] for l in wtop_text_labels(k)]
    return []


def oracle_wide(item, impl):
    view, sigs, steps, _drain, _mode = item["case"]
    s = list(sigs)
    if len(impl) != len(steps) + 2:
        return "malformed observation"
    for entry in impl:
        if not (isinstance(entry, list) and len(entry) == 3 and isinstance(entry[0], list) and isinstance(entry[1], list)):
            return "malformed observation"
    for k, (lg, nodes, fresh_eq) in enumerate(impl):
        if 0 < k <= len(steps):
            for i, x in steps[k - 1][0]:
                s[i] = x
        got = [plain(n) for n in nodes]
        if k == len(impl) - 1:
            if got != wfresh(view, s):
                return "all futures completed, executor idle: the DOM is not the render of the latest signal values"
            if fresh_eq != 1:
                return "all futures completed, executor idle: the DOM differs from a fresh mount"
        elif not wmatch(wfresh(view, s, 0, True), got):
            return "idle point %d: outside the pending async leaves the DOM is not the render of the current signal values" % k
    logs = [e[0] for e in impl]
    for l in wtop_text_labels(view):
        seq = [x for lg in logs for x in lg if x in (l, l + CLEANUP)]
        for i, x in enumerate(seq):
            if x != (l if i % 2 == 0 else l + CLEANUP):
                return ("closure %d: its on_cleanup callback did not run between two of its runs (or ran without one): %r"
                        % (l, seq[:12]))
    return None


def _wshape_ok(v, n, in_plain_if=False):
    op = v[0]
    if op == 0:
        return len(v) == 2 and v[1] >= 0
    if op == 1:
        return len(v) == 4 and 0 <= v[3] < 12 and _expr_ok(v[2], n) and (v[3] < 3 or v[2][0] == 0)
    if op == 2:
        slots = []
        for p in v[1]:
            if not (len(p) == 5 and 0 <= p[0] <= 6 and 0 <= p[3] < 12 and p[4] in (0, 1) and _expr_ok(p[2], n)):
                return False
            if p[3] >= 3 and (p[2][0] != 0 or p[0] > 4):
                return False
            if p[4] and not (p[0] in (2, 3) and in_plain_if):
                return False
            slots.append({0: "t", 1: "c", 2: "c", 3: "w", 4: "w", 5: "c", 6: "tc"}[p[0]])
        if len(set(slots)) != len(slots) or ("tc" in slots and ("t" in slots or "c" in slots)):
            return False
        if [p[0] for p in v[1]] != sorted(p[0] for p in v[1]):
            return False
        return len(v) == 3 and all(_wshape_ok(k, n, in_plain_if) for k in v[2])
    if op == 3:
        return (len(v) == 6 and v[2] in (0, 1) and _expr_ok(v[3], n) and _wshape_ok(v[4], n, not v[2])
                and _wshape_ok(v[5], n, not v[2]))
    if op == 4:
        return len(v) == 5 and v[4] in (0, 1, 2) and _expr_ok(v[2], n) and _expr_ok(v[3], n)
    if op == 5:
        return (len(v) == 4 and 0 <= v[2] < n and len(v[3]) >= 1
                and all(len(set(l)) == len(l) and all(0 < k < 100 for k in l) for l in v[3]))
    if op == 6:
        return len(v) == 4 and len(v[3]) in (3, 4, 5) and _expr_ok(v[2], n) and all(_wshape_ok(a, n, True) for a in v[3])
    if op == 7:
        return len(v) == 2 and len(v[1]) <= 3 and all(_wshape_ok(k, n, in_plain_if) for k in v[1])
    if op == 8:
        if not (len(v) == 4 and _expr_ok(v[2], n) and _wshape_ok(v[3], n, in_plain_if)):
            return False
        k = v[3]
        return (k[0] == 2 or (k[0] == 3 and k[2] == 0 and static_top(k[4]) and static_top(k[5]))
                or (k[0] == 7 and len(k[1]) >= 1 and all(x[0] == 2 and not x[2] for x in k[1])))
    return False


# ------------------------------------------------------------------ leptos-level component trees
def gen_ltree(rng, nsig, nres, depth, lab, in_susp=False, in_row=False):
    r = rng.random()
    if depth <= 0:
        r *= 0.42
    if r < 0.08:
        return [0, rng.randint(0, 9)]
    if r < 0.26:
        return [1, lab.next(), gen_expr(rng, nsig)]
    if r < 0.42 and in_susp and nres:
        return [rng.choice([6, 7]), lab.next(), rng.randrange(nres)]
    if r < 0.55:
        props = []
        for k in [0, rng.choice([1, 2]), 3]:
            if rng.random() < 0.2:
                props.append([k, lab.next(), gen_expr(rng, nsig)])
        return [2, props, [gen_ltree(rng, nsig, nres, depth - 1, lab, in_susp, in_row) for _ in range(rng.choice([1, 2, 2, 3]))]]
    if r < 0.62:
        return [3, lab.next(), gen_expr(rng, nsig), gen_ltree(rng, nsig, nres, depth - 1, lab, in_susp, in_row),
                gen_ltree(rng, nsig, nres, depth - 1, lab, in_susp, in_row) if rng.random() < 0.8 else [10]]
    if r < 0.68:
        # a fragment (as the root of a Show branch / ErrorBoundary child / For row, too)
        return [9, [gen_ltree(rng, nsig, nres, depth - 1, lab, in_susp, in_row) for _ in range(rng.choice([0, 1, 2, 2, 3]))]]
    if r < 0.78 and not in_row:
        keys = rng.sample(range(1, 10), rng.randint(2, 4))
        lists = [list(keys)]
        for _ in range(rng.randint(1, 3)):
            cur = list(rng.choice(lists))
            m = rng.random()
            if m < 0.35 and cur:
                cur.pop(rng.randrange(len(cur)))
            elif m < 0.65:
                new = [k for k in range(1, 10) if k not in cur]
                cur.insert(rng.randint(0, len(cur)), rng.choice(new))
            elif m < 0.85:
                rng.shuffle(cur)
            else:
                cur = []
            lists.append(cur)
        return [4, lab.next(), rng.randint(0, 1), rng.randrange(nsig), lists,
                gen_ltree(rng, nsig, nres, min(depth - 1, 1), lab, in_susp, True)]
    if r < 0.92 and nres and not in_row:
        kids = [gen_ltree(rng, nsig, nres, depth - 1, lab, True, in_row) for _ in range(rng.choice([1, 2, 2]))]
        if not any(readers(k) for k in kids):
            kids.append([rng.choice([6, 7]), lab.next(), rng.randrange(nres)])
        return [5, lab.next(), int(rng.random() < 0.35) | (2 if rng.random() < 0.15 else 0), kids]
    if rng.random() < 0.4:
        # an ErrorBoundary whose dynamic child BRANCHES between a plain text and a Result
        return [11, lab.next(), gen_expr(rng, nsig), gen_expr(rng, nsig), gen_ltree(rng, nsig, nres, depth - 1, lab, in_susp, in_row)]
    return [8, lab.next(), gen_expr(rng, nsig), gen_ltree(rng, nsig, nres, depth - 1, lab, in_susp, in_row)]


def readers(t, s=None):
    """resources read (through Suspend or .get()) in the part of t that is mounted with the signal values s
    (all branches if s is None), not looking into nested Suspense / Transition boundaries"""
    op = t[0]
    if op in (6, 7):
        return {t[2]}
    if op == 2:
        return set().union(*[readers(k, s) for k in t[2]]) if t[2] else set()
    if op == 10:
        return set()
    if op == 3:
        if s is None:
            return readers(t[3], s) | readers(t[4], s)
        return readers(t[3] if ev(t[2], s) != 0 else t[4], s)
    if op == 4:
        if s is not None and not _for_items(t, s):
            return set()
        return readers(t[5], s)
    if op == 8:
        if s is not None and ev(t[2], s) == 0:
            return set()
        return readers(t[3], s)
    if op == 9:
        return set().union(*[readers(k, s) for k in t[1]]) if t[1] else set()
    if op == 11:
        if s is not None and (ev(t[2], s) == 0 or ev(t[3], s) == 0):
            return set()
        return readers(t[4], s)
    return set()


def _for_items(t, s):
    lists = t[4]
    return lists[s[t[3]] % len(lists)] if lists else []


def active_transitions(t, s, out):
    """labels of the Transition boundaries mounted with the signal values s, with their reader sets"""
    op = t[0]
    if op == 2:
        for k in t[2]:
            active_transitions(k, s, out)
    elif op == 3:
        active_transitions(t[3] if ev(t[2], s) != 0 else t[4], s, out)
    elif op == 4:
        if _for_items(t, s):
            active_transitions(t[5], s, out)
    elif op == 5:
        out[t[1]] = (t[2] & 1, set().union(*[readers(k, s) for k in t[3]]) if t[3] else set())
        for k in t[3]:
            active_transitions(k, s, out)
    elif op == 8:
        if ev(t[2], s) != 0:
            active_transitions(t[3], s, out)
    elif op == 9:
        for k in t[1]:
            active_transitions(k, s, out)
    elif op == 11:
        if ev(t[2], s) != 0 and ev(t[3], s) != 0:
            active_transitions(t[4], s, out)


def _prod(alts_list):
    """all concatenations of one alternative per part. The bound only guards against a blow-up (several lists of
    rows with three pending-state alternatives each); 64 was too small: four rows with three alternatives each are
    81 combinations and the truncation cut the legitimate "nothing shown yet in any row" off"""
    out = [[]]
    for alts in alts_list:
        out = [a + b for a in out for b in alts]
        if len(out) > 50000:
            out = out[:50000]
    return out


def lnodes(t, s, res, shown=frozenset(), touched=frozenset()):
    """the node lists the mounted tree may show: res[r] = (value or None, loading); shown = labels of the
    mounted Transition boundaries that have already shown their children with nothing pending.  A boundary
    MUST show its fallback while a resource read by its mounted children is loading (a Transition only
    before it has shown its children), MUST show its children when no resource its children can ever read
    is loading; in between (readers that were unmounted while their resource was loading keep the boundary
    suspended until that fetch ends) both are accepted."""
    op = t[0]
    if op == 0:
        return [[[0, t[1]]]]
    if op == 1:
        return [[[0, ev(t[2], s)]]]
    if op == 2:
        p = [-1, -1, 0, -1]
        for k, _l, e in t[1]:
            x = ev(e, s)
            p[k] = (1 if x != 0 else 0) if k == 2 else x
        return [[[1, p, kids]] for kids in _prod([lnodes(k, s, res, shown, touched) for k in t[2]])]
    if op == 3:
        return lnodes(t[3] if ev(t[2], s) != 0 else t[4], s, res, shown, touched)
    if op == 4:
        rows = []
        for i, k in enumerate(_for_items(t, s)):
            rows.append([[[1, [-1, -1, 0, -1], [[0, i * 100 + k if t[2] else k]] + inner]]
                         for inner in lnodes(t[5], s, res, shown, touched)])
        return _prod(rows)
    if op == 9:
        return _prod([lnodes(k, s, res, shown, touched) for k in t[1]])
    if op == 10:
        return [[]]
    if op == 11:
        if ev(t[2], s) == 0:
            return [[[0, 900 + t[1]]]]
        return lnodes(t[4], s, res, shown, touched) if ev(t[3], s) != 0 else [[[0, -t[1]]]]
    if op == 5:
        active = set().union(*[readers(k, s) for k in t[3]]) if t[3] else set()
        fallback = [[]] if t[2] & 2 else [[[0, -t[1]]]]
        children = _prod([lnodes(k, s, res, shown, touched) for k in t[3]])
        if t[1] in _MAYBE_SHOWN:
            # a Transition created in the very step that re-triggers a resource it reads: built before the
            # refetch task started it saw a loaded resource (children shown, kept during the load), built after
            # it it is a first load (fallback): both are the components' behaviour, the schedule decides
            return children + [f for f in fallback if f not in children]
        if t[2] & 1 and t[1] in shown:
            return children
        static_readers = set().union(*[readers(k) for k in t[3]]) if t[3] else set()
        if _PENDING_POINT[0] and any(res[r][1] for r in static_readers):
            # (only for a boundary whose own subtree — under whatever <Show> / <For> conditions, nested boundaries
            # aside — reads a resource that is loading now: a boundary that reads no loading resource shows its
            # children, strictly)
            # while some resource is loading, what a boundary shows depends on whether its readers ran before or
            # after the fetch task marked the resource as loading, and on readers that were mounted only in the
            # middle of the step: the schedule decides. Demanded here: children or fallback, nothing else (and an
            # established Transition keeps its children, above); the strict rules apply when nothing is loading
            return children + [f for f in fallback if f not in children]
        if any(res[r][1] for r in active):
            return fallback
        if any(res[r][1] and (t[1], r) in touched for r in range(len(res))):
            # readers that registered during the load still running have been unmounted since
            if t[2] & 1:
                # a Transition that did show its children at such a point keeps them for the rest of the load
                _AMBIG.add(t[1])
            return children + fallback
        return children
    if op == 6:
        # Suspend(res.await): shows the value of the last load it saw finish; while the resource is loading
        # again right after a superseded load finished, that may be that load's value or the one before
        # (a reader mounted while the resource is loading shows nothing yet)
        vals = [res[t[2]][0]] + ([res[t[2]][2], None] if res[t[2]][1] else [])
        out = []
        for v in vals:
            alt = [[0, v]] if v is not None else []
            if alt not in out:
                out.append(alt)
        return out
    if op == 7:
        v = res[t[2]][0]
        return [[[0, v if v is not None else -1]]]
    if op == 8:
        return lnodes(t[3], s, res, shown, touched) if ev(t[2], s) != 0 else [[[0, -t[1]]]]
    return [[]]


_MAYBE_SHOWN = set()
_AMBIG = set()
_PENDING_POINT = [False]


def boundary_readers(t, out):
    """label -> resources read anywhere below each boundary (all branches)"""
    op = t[0]
    if op == 2:
        for k in t[2]:
            boundary_readers(k, out)
    elif op == 3:
        boundary_readers(t[3], out)
        boundary_readers(t[4], out)
    elif op == 4:
        boundary_readers(t[5], out)
    elif op == 5:
        out[t[1]] = set().union(*[readers(k) for k in t[3]]) if t[3] else set()
        for k in t[3]:
            boundary_readers(k, out)
    elif op == 8:
        boundary_readers(t[3], out)
    elif op == 9:
        for k in t[1]:
            boundary_readers(k, out)
    elif op == 11:
        boundary_readers(t[4], out)


def llabels(t):
    op = t[0]
    out = []
    if op in (1, 3, 4, 5, 6, 7, 8, 11):
        out.append(t[1])
    if op == 2:
        out += [p[1] for p in t[1]]
        for k in t[2]:
            out += llabels(k)
    elif op == 3:
        out += llabels(t[3]) + llabels(t[4])
    elif op == 4:
        out += llabels(t[5])
    elif op == 5:
        for k in t[3]:
            out += llabels(k)
    elif op == 8:
        out += llabels(t[3])
    elif op == 9:
        for k in t[1]:
            out += llabels(k)
    elif op == 11:
        out += llabels(t[4])
    return out


def gen_leptos_case(rng):
    nsig = rng.choice([1, 2, 2, 3])
    nres = rng.choice([0, 1, 1, 2])
    lab = Lab()
    tree = [2, [], [gen_ltree(rng, nsig, nres, rng.choice([1, 2, 2, 3]), lab) for _ in range(rng.choice([1, 2]))]]
    sources = [gen_expr(rng, nsig) for _ in range(nres)]
    sigs = [rng.randint(0, 2) for _ in range(nsig)]
    steps = []
    for _ in range(rng.randint(1, 6)):
        writes = [[rng.randrange(nsig), rng.choice([0, 1, 2, 3])] for _ in range(rng.choice([0, 1, 1, 1, 2]))]
        picks = [rng.randint(0, 7) for _ in range(rng.choice([0, 0, 3, 6]))]
        comps = []
        if nres:
            r = rng.random()
            if r < 0.45:
                comps = [[x, 0] for x in range(nres)]
            elif r < 0.75:
                comps = [[rng.randrange(nres), rng.choice([0, 0, 1])] for _ in range(rng.randint(1, 2))]
        steps.append([writes, picks, comps])
    # resource kind: 0 LocalResource, 2 ArcLocalResource (1 = leptos_server Resource is accepted by the harness and
    # the oracle, but its memoised source makes fetch starts depend on lazily evaluated values: driven through
    # hydration by C05's kind hydrate-leptos instead, where a client-built twin is the reference)
    return dict(case=[7, tree, sources, sigs, steps, [int(rng.random() < 0.5), rng.randint(0, 1), rng.choice([0, 0, 2, 2])]],
                kind="leptos-components", compare=False)


def recreated_transitions(t, written, under, out):
    """Transition boundaries below an ErrorBoundary whose closure re-runs (it read a written signal): the
    closure builds its content anew, so they are new boundaries"""
    op = t[0]
    if op == 2:
        for k in t[2]:
            recreated_transitions(k, written, under, out)
    elif op == 3:
        recreated_transitions(t[3], written, under, out)
        recreated_transitions(t[4], written, under, out)
    elif op == 4:
        recreated_transitions(t[5], written, under, out)
    elif op == 5:
        if t[2] & 1 and under:
            out.add(t[1])
        for k in t[3]:
            recreated_transitions(k, written, under, out)
    elif op == 8:
        recreated_transitions(t[3], written, under or bool(rd(t[2]) & written), out)
    elif op == 9:
        for k in t[1]:
            recreated_transitions(k, written, under, out)
    elif op == 11:
        recreated_transitions(t[4], written, under or bool((rd(t[2]) | rd(t[3])) & written), out)


def lsignals(t):
    op = t[0]
    if op == 1:
        return rd(t[2])
    if op == 2:
        out = set()
        for _k, _l, e in t[1]:
            out |= rd(e)
        for k in t[2]:
            out |= lsignals(k)
        return out
    if op == 3:
        return rd(t[2]) | lsignals(t[3]) | lsignals(t[4])
    if op == 4:
        return {t[3]} | lsignals(t[5])
    if op == 5:
        return set().union(*[lsignals(k) for k in t[3]]) if t[3] else set()
    if op == 8:
        return rd(t[2]) | lsignals(t[3])
    if op == 9:
        return set().union(*[lsignals(k) for k in t[1]]) if t[1] else set()
    if op == 11:
        return rd(t[2]) | rd(t[3]) | lsignals(t[4])
    return set()


def luntouched(t, nodes, written, out, s0=None, s1=None):
    """static texts, dynamic texts and elements that are not inside any control-flow component — and, through a
    <Show> whose `when` kept its truth value over the step (its memo did not change, so neither children() nor the
    fallback ran again), the nodes of the branch on screen: the same node object, unmutated, unless one of the
    signals they read was written (an element also when one of its control-flow children may have changed its
    child list). Returns the number of nodes of `nodes` the view accounts for, None where that is not known."""
    if t[0] in (0, 1):
        if len(nodes) >= 1 and not ((rd(t[2]) if t[0] == 1 else set()) & written) and nodes[0][2] != 0:
            out.append("node showing %r has status %d although nothing it reads was written" % (nodes[0][1], nodes[0][2]))
        return 1
    if t[0] == 10:
        return 0
    if t[0] == 9:
        pos = 0
        for k in t[1]:
            n = luntouched(k, nodes[pos:], written, out, s0, s1)
            if n is None:
                return None
            pos += n
        return pos
    if t[0] == 3 and s0 is not None:
        on0, on1 = ev(t[2], s0) != 0, ev(t[2], s1) != 0
        if on0 != on1:
            return None
        bad = []
        n = luntouched(t[3] if on1 else t[4], nodes, written, bad, s0, s1)
        for m in bad:
            out.append("inside <Show#%d>, whose `when` kept its truth value: %s" % (t[1], m))
        return n
    if t[0] == 2:
        if not nodes or nodes[0][0] != 1:
            return None
        g = set()
        for _k, _l, e in t[1]:
            g |= rd(e)
        for k in t[2]:
            if k[0] not in (0, 1, 2):
                g |= lsignals(k) | {"*"}
        node = nodes[0]
        if "*" not in g and not (g & written) and node[2] != 0:
            out.append("element has status %d although nothing it reads was written" % node[2])
        pos = 0
        for k in t[2]:
            n = luntouched(k, node[3][pos:], written, out, s0, s1)
            if n is None:
                break
            pos += n
        return 1
    return None


def oracle_leptos(item, impl):
    _seven, tree, sources, sigs, steps, fin = item["case"]
    unmount, _drain = fin[0], fin[1]
    s = list(sigs)
    # an async derived value fetches sequentially: a source change during a fetch is picked up when that
    # fetch has completed.  per resource: value, source value of the fetch in flight (None: idle), dirty
    res = [[None, ev(e, s), False] for e in sources]
    settled_value = [None for _ in sources]      # value when the resource was last not loading
    shown = set()

    # a reader that tracks a loading resource registers its boundary with the resource; the registrations
    # made during one load keep the boundary suspended during the NEXT load of that resource (the fetch
    # takes them when it starts), whether or not the reader is still mounted
    touched = set()      # (boundary, resource) held during the running load
    reg_next = set()     # (boundary, resource) registered during the running load
    reskind = fin[2] if len(fin) > 2 else 0
    last_src = [ev(e, s) for e in sources]
    _MAYBE_SHOWN.clear()
    breaders = {}
    boundary_readers(tree, breaders)
    prev_active = {}
    active_transitions(tree, s, prev_active)

    def start_fetch(r, chained=False):
        # (a fetch that restarts at once because its source changed meanwhile keeps the resource loading without a
        # gap: the boundaries suspended by the previous load stay suspended)
        for (l, r2) in list(touched):
            if r2 == r and not chained:
                touched.discard((l, r2))
        for (l, r2) in list(reg_next):
            if r2 == r:
                touched.add((l, r2))
                reg_next.discard((l, r2))
        res[r][1] = ev(sources[r], s)

    def settle_transitions():
        act = {}
        active_transitions(tree, s, act)
        for l in list(shown):
            if l not in act:
                shown.discard(l)          # unmounted: a later mount is a new boundary
        for reg in (touched, reg_next):
            for (l, r) in list(reg):
                if l not in act:
                    reg.discard((l, r))
        for l, (is_transition, rs) in act.items():
            for r in rs:
                if res[r][1] is not None:
                    reg_next.add((l, r))
                    touched.add((l, r))
            # established only when NOTHING is loading: then a mounted Transition has its children on screen for sure
            if is_transition and not any(res[r][1] is not None for r in range(len(res))):
                shown.add(l)

    def finish(r):
        if res[r][1] is None:
            return
        res[r][0] = 10 * res[r][1] + r
        res[r][1] = None
        held = {(l, r2) for (l, r2) in touched if r2 == r}
        for (l, r2) in list(touched):
            if r2 == r:
                touched.discard((l, r2))
        if res[r][2]:
            res[r][2] = False
            start_fetch(r, chained=True)
            touched.update(held)
        else:
            settled_value[r] = res[r][0]
        settle_transitions()

    n = len(steps) + 2 + (1 if unmount else 0)
    if len(impl) != n:
        return "malformed observation"
    for k in range(len(steps) + 2):
        entry = impl[k]
        if not (isinstance(entry, list) and len(entry) == 3 and isinstance(entry[1], list)):
            return "malformed observation"
        s_before = list(s)
        if 0 < k <= len(steps):
            writes, _picks, comps = steps[k - 1]
            written = set()
            for i, x in writes:
                s[i] = x
                written.add(i)
            for r, e in enumerate(sources):
                if rd(e) & written:
                    if reskind == 1:
                        # leptos_server::Resource memoises its source: only another VALUE starts a fetch
                        if ev(e, s) == last_src[r]:
                            continue
                        last_src[r] = ev(e, s)
                    if res[r][1] is None:
                        start_fetch(r)
                    else:
                        res[r][2] = True
            gone = set()
            recreated_transitions(tree, written, False, gone)
            shown.difference_update(gone)
            for l in gone:
                if any(rd(sources[r]) & written for r in breaders.get(l, ())):
                    _MAYBE_SHOWN.add(l)
            # likewise a boundary (of either kind) that is MOUNTED by this step (a <Show> / <For> / ErrorBoundary
            # switching to it) while the same writes re-trigger a resource it reads
            act_now = {}
            active_transitions(tree, s, act_now)
            for l in act_now:
                if l not in prev_active and any(rd(sources[r]) & written for r in breaders.get(l, ())):
                    _MAYBE_SHOWN.add(l)
            for reg in (touched, reg_next):
                for (l, r) in list(reg):
                    if l in gone:
                        reg.discard((l, r))
            settle_transitions()
            for r, stale in comps:
                if not stale:
                    finish(r)
        if k == len(steps) + 1:
            for _ in range(50):
                busy = [r for r in range(len(res)) if res[r][1] is not None]
                if not busy:
                    break
                finish(busy[0] if not _drain else busy[-1])
        settle_transitions()
        for l in list(_MAYBE_SHOWN):
            if not any(res[r][1] is not None for r in breaders.get(l, ())):
                _MAYBE_SHOWN.discard(l)      # the racing load is over: the children are on screen either way
                shown.add(l)
        prev_active = {}
        active_transitions(tree, s, prev_active)
        got = [plain(x) for x in entry[1]]
        state = [(v, fl is not None, settled_value[r]) for r, (v, fl, _) in enumerate(res)]
        pend = any(x[1] for x in state)
        _PENDING_POINT[0] = pend
        _AMBIG.clear()
        want = lnodes(tree, s, state, frozenset(shown), frozenset(touched))
        _MAYBE_SHOWN.update(_AMBIG)
        if got not in want:
            return ("idle point %d (%s): the mounted DOM is not what the components show for the current signal "
                    "values and resource states" % (k, "a resource is pending" if pend else "no resource pending"))
        if not pend and entry[2] != 1:
            return "idle point %d, no resource pending: the mounted DOM differs from a fresh mount" % k
        if 0 < k <= len(steps):
            bad = []
            luntouched(tree, entry[1], {i for i, _ in steps[k - 1][0]}, bad, s_before, s)
            if bad:
                return "idle point %d: %s" % (k, bad[0])
    if unmount:
        post = impl[-1]
        if not (isinstance(post, list) and len(post) == 3):
            return "malformed observation"
        if post[0]:
            return "after the mount handle was dropped closure %d still ran" % post[0][0]
        if post[1] != 0:
            return "after the mount handle was dropped the parent still has %d children" % post[1]
        if post[2] != 0:
            return "after the mount handle was dropped the DOM was mutated %d times" % post[2]
    return None


def generate(rng, tier):
    n = 4000 if tier == "quick" else 60000
    for i in range(n):
        if i % 4 == 1:
            yield gen_leptos_case(rng)
        if i % 2 == 0:
            yield gen_wide_case(rng)
        if i % 3 == 0:
            it = gen_ext_case(rng)
            yield it
            if not has_keyed(it["case"][0]):
                # the same program with the reduced observation (nodes on screen at every idle point),
                # compared with the model, which has async leaves but no keyed lists
                yield dict(case=it["case"] + [[1]], kind="async-model", compare=True)
        nsig = rng.choice([1, 2, 2, 3])
        view = gen_view(rng, nsig, rng.choice([1, 2, 2, 3, 3]), Lab())
        if rng.random() < 0.5:
            view = [2, [], [view] + ([gen_view(rng, nsig, 1, Lab0(view))] if rng.random() < 0.3 else [])]
        sigs = [rng.randint(0, 2) for _ in range(nsig)]
        steps = []
        for _ in range(rng.randint(1, 6)):
            writes = []
            for _ in range(rng.choice([0, 1, 1, 2, 3])):
                i = rng.randrange(nsig)
                writes.append([i, rng.choice([0, 0, 1, 2, 3])])
            picks = [rng.randint(0, 7) for _ in range(rng.choice([0, 0, 2, 5, 9]))]
            steps.append([writes, picks])
        yield dict(case=[view, sigs, steps], kind="reactive-view", compare=True)


def Lab0(view):
    lab = Lab()
    lab.n = max([0] + labels_all(view))
    return lab


# ------------------------------------------------------------------ independent reference
def ev(e, s):
    if e[0] == 0:
        return s[e[1]] if e[1] < len(s) else 0
    if e[0] == 1:
        return e[1]
    return ev(e[1], s) + ev(e[2], s)


def rd(e):
    if e[0] == 0:
        return {e[1]}
    if e[0] == 1:
        return set()
    return rd(e[1]) | rd(e[2])


def labels_all(v):
    if v[0] == 0:
        return []
    if v[0] in (1, 4, 5):
        return [v[1]]
    if v[0] == 2:
        out = [p[1] for p in v[1]]
        for k in v[2]:
            out += labels_all(k)
        return out
    return [v[1]] + labels_all(v[4]) + labels_all(v[5])


def live_labels(v, s):
    if v[0] == 0:
        return set()
    if v[0] == 1:
        return {v[1]}
    if v[0] == 2:
        out = {p[1] for p in v[1]}
        for k in v[2]:
            out |= live_labels(k, s)
        return out
    return {v[1]} | live_labels(v[4] if ev(v[3], s) != 0 else v[5], s)


def may_run(v, s0, s1):
    """labels of closures that can be mounted at some moment of a step that changes the signals from s0
    to s1: every conditional on the way selected its branch with the old or the new values"""
    if v[0] == 0:
        return set()
    if v[0] in (1, 4, 5):
        return {v[1]}
    if v[0] == 2:
        out = {p[1] for p in v[1]}
        for k in v[2]:
            out |= may_run(k, s0, s1)
        return out
    out = {v[1]}
    for s in (s0, s1):
        out |= may_run(v[4] if ev(v[3], s) != 0 else v[5], s0, s1)
    return out


def fresh_list(v, s, wild=False):
    """nodes of a from-scratch render of an extended view; with wild, an async leaf is ["?"]"""
    if v[0] == 4:
        return [["?"]] if wild else [[0, ev(v[2], s) + ev(v[3], s)]]
    if v[0] == 5:
        lists = v[3]
        items = lists[s[v[2]] % len(lists)] if lists else []
        return [[0, i * 100 + k] for i, k in enumerate(items)]
    if v[0] == 2:
        p = [-1, -1, 0, -1]
        for k, _l, e in v[1]:
            x = ev(e, s)
            p[k] = (1 if x != 0 else 0) if k == 2 else x
        return [[1, p, [n for k in v[2] for n in fresh_list(k, s, wild)]]]
    if v[0] == 3:
        return fresh_list(v[4] if ev(v[3], s) != 0 else v[5], s, wild)
    return [fresh(v, s)]


def match_wild(want, got):
    """does the node list `got` equal `want` where a ["?"] stands for no node or one text node"""
    if not want:
        return not got
    w = want[0]
    if w == ["?"]:
        return match_wild(want[1:], got) or (bool(got) and got[0][0] == 0 and match_wild(want[1:], got[1:]))
    if not got:
        return False
    g = got[0]
    if w[0] != g[0]:
        return False
    if w[0] == 0:
        return w[1] == g[1] and match_wild(want[1:], got[1:])
    return w[1] == g[1] and match_wild(w[2], g[2]) and match_wild(want[1:], got[1:])


def top_level_text_labels(v):
    """labels of the text closures that are not inside a conditional (one instance for the whole run)"""
    if v[0] == 1:
        return [v[1]]
    if v[0] == 2:
        return [l for k in v[2] for l in top_level_text_labels(k)]
    return []


def cleanup_violation(view, logs):
    for l in top_level_text_labels(view):
        seq = [x for lg in logs for x in lg if x in (l, l + CLEANUP)]
        for i, x in enumerate(seq):
            if x != (l if i % 2 == 0 else l + CLEANUP):
                return ("closure %d: its on_cleanup callback did not run between two of its runs (or ran without one): %r"
                        % (l, seq[:12]))
    return None


def fresh(v, s):
    """the DOM a from-scratch render shows: (0 n) | (1 (title class on width) kids)"""
    if v[0] == 0:
        return [0, v[1]]
    if v[0] == 1:
        return [0, ev(v[2], s)]
    if v[0] == 2:
        p = [-1, -1, 0, -1]
        for k, _l, e in v[1]:
            x = ev(e, s)
            p[k] = (1 if x != 0 else 0) if k == 2 else x
        return [1, p, [fresh(k, s) for k in v[2]]]
    return fresh(v[4] if ev(v[3], s) != 0 else v[5], s)


def plain(n):
    if n[0] == 0:
        return [0, n[1]]
    if n[0] == 1:
        return [1, n[1], [plain(k) for k in n[3]]]
    return n


def chain_conds(v):
    if v[0] == 3:
        return rd(v[3]) | chain_conds(v[4]) | chain_conds(v[5])
    return set()


def untouched_violations(v, node, s, ganc, written, out):
    """nodes none of whose governing signals were written must be the same object, unmutated"""
    if v[0] == 3:
        return untouched_violations(v[4] if ev(v[3], s) != 0 else v[5], node, s, ganc | rd(v[3]), written, out)
    if v[0] == 0:
        g = ganc
    elif v[0] == 1:
        g = ganc | rd(v[2])
    else:
        g = set(ganc)
        for _k, _l, e in v[1]:
            g |= rd(e)
        for k in v[2]:
            g |= chain_conds(k)
    if not (g & written) and node[2] != 0:
        out.append("node showing %r has status %d although none of the signals %s that govern it was written (%s)"
                   % (node[1], node[2], sorted(g), sorted(written)))
    if v[0] == 2 and node[0] == 1:
        for k, kn in zip(v[2], node[3]):
            untouched_violations(k, kn, s, ganc, written, out)


def oracle_ext(item, impl):
    view, sigs, steps, _drain = item["case"]
    s = list(sigs)
    if len(impl) != len(steps) + 2:
        return "malformed observation"
    for entry in impl:
        if not (isinstance(entry, list) and len(entry) == 3 and isinstance(entry[0], list) and isinstance(entry[1], list)):
            return "malformed observation"
    for k, (lg, nodes, fresh_eq) in enumerate(impl):
        if 0 < k <= len(steps):
            for i, x in steps[k - 1][0]:
                s[i] = x
        got = [plain(n) for n in nodes]
        if k == len(impl) - 1:
            if got != fresh_list(view, s):
                return "all futures completed, executor idle: the DOM is not the render of the latest signal values"
            if fresh_eq != 1:
                return "all futures completed, executor idle: the DOM differs from a fresh mount"
        elif not match_wild(fresh_list(view, s, wild=True), got):
            return "idle point %d: outside the pending async leaves the DOM is not the render of the current signal values" % k
    return cleanup_violation(view, [e[0] for e in impl])


def oracle(item, impl):
    if isinstance(impl, str):
        return "harness error / panic: " + impl[:200]
    if not isinstance(impl, list):
        return "malformed observation"
    if item.get("kind") == "reactive-wide":
        return oracle_wide(item, impl)
    if item.get("kind") == "async-keyed":
        return oracle_ext(item, impl)
    if item.get("kind") == "leptos-components":
        return oracle_leptos(item, impl)
    if item.get("kind") == "async-model":
        return None          # judged on its async-keyed twin; this copy only feeds the model comparison
    view, sigs, steps = item["case"]
    s = list(sigs)
    if len(impl) != len(steps) + 1:
        return "malformed observation"
    for entry in impl:
        if not (isinstance(entry, list) and len(entry) == 3 and isinstance(entry[0], list)
                and isinstance(entry[1], list) and isinstance(entry[2], int)):
            return "malformed observation"
    for k, entry in enumerate(impl):
        lg, shot, fresh_eq = entry
        before = list(s)
        written = set()
        if k > 0:
            for i, x in steps[k - 1][0]:
                if i < len(s):
                    s[i] = x
                    written.add(i)
        if fresh_eq != 1:
            return "idle point %d: the DOM differs from a fresh mount with the current signal values" % k
        if plain(shot) != fresh(view, s):
            return "idle point %d: the DOM is not the render of the current signal values" % k
        if k > 0:
            bad = []
            untouched_violations(view, shot, s, set(), written, bad)
            if bad:
                return "idle point %d: %s" % (k, bad[0])
            ok = may_run(view, before, s)
            stray = [l for l in lg if l < CLEANUP and l not in ok]
            if stray:
                return "idle point %d: closure %d ran although its branch cannot be mounted during this step" % (k, stray[0])
    return cleanup_violation(view, [e[0] for e in impl])


def nontrivial(item, model):
    if item.get("kind") in ("async-keyed", "leptos-components", "reactive-wide"):
        return True
    if isinstance(model, str) or item.get("kind") == "async-model":
        return False
    for k in range(1, len(model)):
        if model[k][0] and plain(model[k][1]) != plain(model[k - 1][1]):
            return True
    return False


def _has_boundary(t):
    op = t[0]
    if op == 5:
        return True
    if op == 2:
        return any(_has_boundary(k) for k in t[2])
    if op == 3:
        return _has_boundary(t[3]) or _has_boundary(t[4])
    if op in (4, 8):
        return _has_boundary(t[5] if op == 4 else t[3])
    if op == 9:
        return any(_has_boundary(k) for k in t[1])
    if op == 11:
        return _has_boundary(t[4])
    return False


def _lshape_ok(t, nsig, nres, in_susp=False):
    op = t[0]
    if op == 0:
        return len(t) == 2 and t[1] >= 0
    if op == 1:
        return len(t) == 3 and _expr_ok(t[2], nsig)
    if op == 2:
        kinds = [p[0] for p in t[1]]
        return (len(t) == 3 and kinds == sorted(set(kinds)) and not (1 in kinds and 2 in kinds)
                and all(len(p) == 3 and p[0] in (0, 1, 2, 3) and _expr_ok(p[2], nsig) for p in t[1])
                and all(_lshape_ok(k, nsig, nres, in_susp) for k in t[2]))
    if op == 3:
        return (len(t) == 5 and _expr_ok(t[2], nsig) and _lshape_ok(t[3], nsig, nres, in_susp)
                and (t[4] == [10] or _lshape_ok(t[4], nsig, nres, in_susp)))
    if op == 9:
        return len(t) == 2 and len(t[1]) <= 3 and all(_lshape_ok(k, nsig, nres, in_susp) for k in t[1])
    if op == 11:
        return len(t) == 5 and _expr_ok(t[2], nsig) and _expr_ok(t[3], nsig) and _lshape_ok(t[4], nsig, nres, in_susp)
    if op == 4:
        return (len(t) == 6 and t[2] in (0, 1) and 0 <= t[3] < nsig and len(t[4]) >= 1
                and all(len(set(l)) == len(l) and all(0 < k < 100 for k in l) for l in t[4])
                and _lshape_ok(t[5], nsig, nres, in_susp) and not _has_boundary(t[5]))
    if op == 5:
        return (len(t) == 4 and t[2] in (0, 1, 2, 3) and len(t[3]) >= 1 and all(_lshape_ok(k, nsig, nres, True) for k in t[3])
                and bool(set().union(*[readers(k) for k in t[3]])))
    if op in (6, 7):
        return len(t) == 3 and in_susp and 0 <= t[2] < nres
    if op == 8:
        return len(t) == 4 and _expr_ok(t[2], nsig) and _lshape_ok(t[3], nsig, nres, in_susp)
    return False


def valid_case(item):
    c = item["case"]
    if item.get("kind") == "leptos-components":
        try:
            seven, tree, sources, sigs, steps, fin = c
            labs = llabels(tree)
            return (seven == 7 and len(labs) == len(set(labs)) and all(0 < l < CLEANUP for l in labs) and bool(sigs)
                    and all(x >= 0 for x in sigs) and all(_expr_ok(e, len(sigs)) for e in sources)
                    and _lshape_ok(tree, len(sigs), len(sources)) and len(fin) in (2, 3) and all(f in (0, 1) for f in fin[:2])
                    and (len(fin) == 2 or fin[2] in (0, 1, 2))
                    and all(len(st) == 3 and all(0 <= i < len(sigs) and x >= 0 for i, x in st[0])
                            and all(isinstance(k, int) and k >= 0 for k in st[1])
                            and all(isinstance(k, list) and len(k) == 2 and 0 <= k[0] < len(sources) and k[1] in (0, 1)
                                    for k in st[2]) for st in steps))
        except Exception:
            return False
    if item.get("kind") == "reactive-wide":
        try:
            view, sigs, steps, drain, mode = c
            labs = wlabels(view)
            alabs = wasync_labels(view)
            return (len(labs) == len(set(labs)) and all(0 < l < CLEANUP for l in labs) and bool(sigs)
                    and all(x >= 0 for x in sigs) and _wshape_ok(view, len(sigs)) and drain in ([0], [1])
                    and mode in ([2, 0], [2, 1])
                    and all(len(st) == 3 and all(0 <= i < len(sigs) and x >= 0 for i, x in st[0])
                            and all(isinstance(k, int) and k >= 0 for k in st[1])
                            and all(isinstance(k, list) and len(k) == 2 and k[0] in alabs and k[1] in (0, 1)
                                    for k in st[2]) for st in steps))
        except Exception:
            return False
    if item.get("kind") == "async-model":
        return (isinstance(c, list) and len(c) == 5 and c[4] == [1] and not has_keyed(c[0])
                and valid_case(dict(case=c[:4], kind="async-keyed")))
    if item.get("kind") == "async-keyed":
        try:
            view, sigs, steps, drain = c
            labs = labels_all(view)
            return (len(labs) == len(set(labs)) and all(0 < l < CLEANUP for l in labs) and bool(sigs)
                    and all(x >= 0 for x in sigs) and _shape_ok(view, len(sigs)) and drain in ([0], [1])
                    and all(len(st) == 3 and all(0 <= i < len(sigs) and x >= 0 for i, x in st[0])
                            and all(isinstance(k, int) and k >= 0 for k in st[1])
                            and all(isinstance(k, list) and len(k) == 2 and k[0] in labs and k[1] in (0, 1)
                                    for k in st[2]) for st in steps))
        except Exception:
            return False
    try:
        view, sigs, steps = c
        labs = labels_all(view)
        if len(labs) != len(set(labs)) or not sigs or any(x < 0 for x in sigs):
            return False
        if not _shape_ok(view, len(sigs)):
            return False
        for w, p in steps:
            if any(not (0 <= i < len(sigs)) or x < 0 for i, x in w) or any(k < 0 for k in p):
                return False
        return True
    except Exception:
        return False


def _expr_ok(e, n):
    if e[0] == 0:
        return len(e) == 2 and 0 <= e[1] < n
    if e[0] == 1:
        return len(e) == 2 and e[1] >= 0
    return e[0] == 2 and len(e) == 3 and _expr_ok(e[1], n) and _expr_ok(e[2], n)


def _shape_ok(v, n):
    if v[0] == 0:
        return len(v) == 2 and v[1] >= 0
    if v[0] == 1:
        return len(v) == 3 and _expr_ok(v[2], n)
    if v[0] == 2:
        kinds = [p[0] for p in v[1]]
        if kinds != sorted(set(kinds)) or (1 in kinds and 2 in kinds) or any(k not in (0, 1, 2, 3) for k in kinds):
            return False
        return len(v) == 3 and all(len(p) == 3 and _expr_ok(p[2], n) for p in v[1]) and all(_shape_ok(k, n) for k in v[2])
    if v[0] == 4:
        return len(v) == 4 and _expr_ok(v[2], n) and _expr_ok(v[3], n)
    if v[0] == 5:
        return (len(v) == 4 and 0 <= v[2] < n and len(v[3]) >= 1
                and all(len(set(l)) == len(l) and all(0 < k < 100 for k in l) for l in v[3]))
    return v[0] == 3 and len(v) == 6 and v[2] in (0, 1) and _expr_ok(v[3], n) and _shape_ok(v[4], n) and _shape_ok(v[5], n)


def _either_paths(v, s, env, path, out):
    """(path of branch choices, env parity) of every mounted Either-valued attribute (prop kind 6)"""
    op = v[0]
    if op == 2:
        for p in v[1]:
            if p[0] == 6:
                out[(tuple(path), p[1])] = env % 2
        for i, k in enumerate(v[2]):
            _either_paths(k, s, env, path + [("k", i)], out)
    elif op == 3:
        n = ev(v[3], s)
        _either_paths(v[4] if n != 0 else v[5], s, 0 if v[2] else n, path + [("if", v[1], n != 0)], out)
    elif op == 6:
        n = ev(v[2], s)
        _either_paths(v[3][n % len(v[3])], s, n, path + [("n", v[1], n % len(v[3]))], out)
    elif op == 7:
        for i, k in enumerate(v[1]):
            _either_paths(k, s, env, path + [("f", i)], out)
    elif op == 8:
        _either_paths(v[3], s, env, path + [("s", v[1])], out)


def either_attr_flips(item):
    """some Either-valued attribute stays mounted (same branch choices above it) across a step that changes the
    parity of the enclosing value, i.e. is rebuilt in place with its other side: the open finding F-C04-c"""
    view, sigs, steps = item["case"][:3]
    s = list(sigs)
    prev = {}
    _either_paths(view, s, 0, [], prev)
    for writes, _p, _c in steps:
        for i, x in writes:
            s[i] = x
        cur = {}
        _either_paths(view, s, 0, [], cur)
        if any(k in prev and prev[k] != par for k, par in cur.items()):
            return True
        prev = cur
    return False


def classify(item, impl, model):
    if item.get("kind") == "reactive-wide" and isinstance(impl, list) and either_attr_flips(item):
        return "F-C04-c"
    return None


def _se(e):
    if e[0] == 0:
        return "s%d" % e[1]
    if e[0] == 1:
        return str(e[1])
    return "(%s+%s)" % (_se(e[1]), _se(e[2]))


def _sv(v):
    if v[0] == 0:
        return '"%d"' % v[1]
    if v[0] == 1:
        return "{#%d %s}" % (v[1], _se(v[2]))
    if v[0] == 2:
        names = ["title", "class", "class:on", "style:width"]
        ps = "".join(" %s={#%d %s}" % (names[k], l, _se(e)) for k, l, e in v[1])
        return "<div%s>%s</div>" % (ps, " ".join(_sv(k) for k in v[2]))
    if v[0] == 4:
        return "{#%d let a=%s; Suspend(async a+%s)}" % (v[1], _se(v[2]), _se(v[3]))
    if v[0] == 5:
        return "{#%d keyed-enumerate %r[s%d]}" % (v[1], v[3], v[2])
    return "{#%d %sif %s {%s} else {%s}}" % (v[1], "memo " if v[2] else "", _se(v[3]), _sv(v[4]), _sv(v[5]))


def _lt(t):
    op = t[0]
    if op == 0:
        return '"%d"' % t[1]
    if op == 1:
        return "{#%d %s}" % (t[1], _se(t[2]))
    if op == 2:
        names = ["title", "class", "class:on", "style:width"]
        return "<div%s>%s</div>" % ("".join(" %s={#%d %s}" % (names[k], l, _se(e)) for k, l, e in t[1]), " ".join(_lt(k) for k in t[2]))
    if op == 3:
        if t[4] == [10]:
            return "<Show#%d when=%s>%s</Show>" % (t[1], _se(t[2]), _lt(t[3]))
        return "<Show#%d when=%s fallback=%s>%s</Show>" % (t[1], _se(t[2]), _lt(t[4]), _lt(t[3]))
    if op == 9:
        return "<>%s</>" % " ".join(_lt(k) for k in t[1])
    if op == 10:
        return "()"
    if op == 11:
        return "<ErrorBoundary#%d>{if %s == 0 {Left(\"%d\")} else {Right(if %s {Ok(%s)} else {Err})}}</>" % (
            t[1], _se(t[2]), 900 + t[1], _se(t[3]), _lt(t[4]))
    if op == 4:
        return "<%s#%d each=%r[s%d]>%s</>" % ("ForEnumerate" if t[2] else "For", t[1], t[4], t[3], _lt(t[5]))
    if op == 5:
        return "<%s#%d%s>%s</>" % ("Transition" if t[2] & 1 else "Suspense", t[1], " (no fallback)" if t[2] & 2 else "",
                                   " ".join(_lt(k) for k in t[3]))
    if op == 6:
        return "{#%d Suspend(res%d.await)}" % (t[1], t[2])
    if op == 7:
        return "{#%d res%d.get()}" % (t[1], t[2])
    return "<ErrorBoundary#%d>{if %s {Ok(%s)} else {Err}}</>" % (t[1], _se(t[2]), _lt(t[3]))


def describe(it):
    if it.get("kind") == "leptos-components":
        _7, tree, sources, sigs, steps, fin = it["case"]
        return "mount %s ; resources %s ; s=%r ; steps %s ; %s" % (
            _lt(tree), [_se(e) for e in sources], sigs,
            "; ".join("set %s, poll %r, complete %r" % (",".join("s%d=%d" % (i, x) for i, x in w), p, c) for w, p, c in steps),
            "complete all, then drop the mount handle" if fin[0] else "complete all")
    if it.get("kind") in ("async-keyed", "async-model"):
        view, sigs, steps, drain = it["case"][:4]
        return "mount %s with s=%r; steps %s; then complete all (%s first)" % (_sv(view), sigs, "; ".join(
            "set %s, poll order %r, complete futures %r" % (",".join("s%d=%d" % (i, x) for i, x in w), p, c)
            for w, p, c in steps), "newest" if drain[0] else "oldest")
    view, sigs, steps = it["case"]
    return "mount %s with s=%r; steps %s" % (_sv(view), sigs, "; ".join(
        "set %s, poll order %r" % (",".join("s%d=%d" % (i, x) for i, x in w), p) for w, p in steps))


def coverage_extra(results):
    runs = 0
    switches = 0
    for r in results:
        m = r["model"]
        if isinstance(m, str) or r["item"].get("kind") in ("async-keyed", "async-model", "leptos-components"):
            continue
        for k in range(1, len(m)):
            runs += len(m[k][0])
    return {"closure_reruns_observed": runs}


LEVEL_TEXT = ("Coq proofs, for all reactive view programs of the grammar (dynamic text, dynamic attribute / class / class "
              "toggle / style, Either/Show conditionals with nested dynamic children), all histories of signal writes and "
              "all executor polling orders, that whenever no task is ready the DOM is the from-scratch render of the current "
              "signal values, that a step changes only nodes governed by the effect it polls, and that effects of a "
              "disposed branch never run again — about an executable Gallina model of RenderEffect-driven build/rebuild "
              "with node ids and mutation counters; tied to /repo every run by executing that model (extracted) and the "
              "real tachys/reactive_graph code on the same generated programs, histories and schedules, comparing closure "
              "run logs and the DOM with per-node identity/mutation status at every idle point, plus a fresh-mount oracle.")
LEVEL_NOTE = ("Trusted: Coq kernel, extraction + OCaml driver, the Rust harness and its executor, the native DOM hook; "
              "modelled not verified: signal->effect notification and memo change-detection (properties C02/C09), Owner "
              "cleanup. Compared, not proved (oracle = from-scratch render / component semantics): the leptos components "
              "<Show>, <For>, <ForEnumerate>, <Suspense>, <Transition>, <ErrorBoundary> over (Arc)LocalResource, keyed lists, "
              "and the wide grammar of the anchor coverage audit (coverage/C04.md: signal types and shared functions as "
              "children and attribute values, style=, class=Option, renamed class:/style: names, EitherOfN, fragments, "
              "async element content, attribute spreading). Open finding F-C04-c (Either-valued attribute rebuilt with its "
              "other side) lies on that oracle-only ground. Not driven: reactive_impl! for store fields, Suspend-valued "
              "attributes, paused owners (C02). No axioms.")
TECHNIQUE = ("Coq proof (invariant over all event sequences: every un-notified live effect's cache is current) + "
             "differential correspondence of the extracted model with the Rust code")
