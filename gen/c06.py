"""C06 \u2014 server-rendered HTML cannot be altered by the data it contains."""
from . import common as C
from . import htmlparse as H

PID = "C06"
PROPS_V = "theories/Props/Properties_C06.v"
MODEL_NAME = "Html/Ssr.v"
HARNESS = "ssr"
HARNESS_ARGS = ["c06"]
ALLOWED_AXIOMS = []
RUN_IMPORT = "Html.SsrRun"
READY = True

TAGS = ["div", "span", "section", "input", "br", "img", "textarea", "title", "script", "style"]
VOID = {3, 4, 5}
RCDATA = {6, 7}
RAW = {8, 9}
ATTR_NAMES = ["title", "href", "value", "alt", "placeholder", "data-x", "name", "content", "lang", "aria-label"]
BOOL_NAMES = ["hidden", "disabled", "checked", "data-flag"]
STYLE_PROPS = ["color", "width", "background", "--custom"]

RULE = ("cases drawn from one PRNG (VERIF_SEED). view: a random tree (depth <= 3) of div/span/section/input/br/img/"
        "textarea/title/script/style built with the tachys builder API, with generated strings as String children, "
        "char children, integer children, unit placeholders, string / boolean / typed-id attributes, class strings, "
        "class toggles, style strings and style properties — each string carried by String or by any other Rust type "
        "and representation that implements the position's trait (&'static str, &String, Arc<str>, Cow::Owned / "
        "Cow::Borrowed, Oco::Owned / Oco::Borrowed / Oco::Counted, Option<..> of these, closures returning these, "
        "ArcRwSignal, ArcMemo; style property keys as String / &str / Arc<str>) — rendered by RenderHtml::to_html(); "
        "stream: the same views with Suspend-wrapped children, streamed in order / out of order (also with the branch "
        "markers of the islands router) under oneshot-controlled schedules; document: <Title>, "
        "<Meta name content>, <Link href>, <Html attr:lang>, <Body attr:class> of leptos_meta plus a body view, "
        "rendered under a real ServerMetaContext and passed through the real inject_meta_context over a shell that varies "
        "(with / without the <!--HEAD--> marker, with a literal <title> of its own before / after it, the first chunk ending "
        "anywhere inside the body); "
        "metadoc: a whole view!-built document (<html><head><meta charset/><MetaTags/></head><body>) whose body is a random "
        "view with leptos_meta components anywhere in it — Title, Meta (5 prop sets), Link (3 prop sets up to all 16 "
        "props), Stylesheet, Script / Style (attributes and raw-text children), Html, Body, and eight components with "
        "hostile literal props — every prop in each representation of Oco / TextProp, also below Suspend boundaries "
        "that resolve before or after the first chunk, streamed in order / out of order through inject_meta_context; "
        "svg: subtrees of tachys::svg elements (svg g style script title text a desc) anywhere in these views, with "
        "hostile text children and attributes - inside <svg> style / script / title are ordinary elements to the HTML "
        "parser (foreign content); "
        "keyed: keyed lists (String key, structured key, leptos <For/>) rendered with branch markers; "
        "island: tachys' Island with serde_json-serialised props holding the string and IslandChildren; "
        "static: eighteen fixed view! invocations whose hostile strings are literals (top-level builder path and nested, "
        "macro-inlined inert path, unquoted text, literal text below <svg> at the root and inside inlined subtrees); "
        "static-grid: every syntactic form of a text-like child the macro accepts (bare literal, {\"lit\"}, {{\"lit\"}}, "
        "{(\"lit\")}, {'c'}, {1}, const, concat!, String / to_string expressions, closure, Option, adjacent mixtures: 23 "
        "forms) in each of 12 positions (root of the view!, nested static subtrees, next to a dynamic attribute / "
        "sibling, inside textarea / script / style, between elements), all 276 combinations every run, and every form "
        "of a literal attribute value (attr=\"lit\", {\"lit\"}, (\"lit\"), const, concat!, String expression; title / "
        "class / style / id / data-*: 15 forms) in 7 positions (root, nested static, next to a dynamic child / "
        "attribute, on input and textarea), all 105 combinations; "
        "template: twenty-three view! templates (text child, attribute, class, style, href, input value, Option child, "
        "list item, textarea, class: toggle, custom element, title, closure child, scope class `class = expr,`, style:prop, "
        "style / class (name, value) tuples and class arrays, attr: on a component, spread {..attrs}, fragment root, dynamic children of svg style / script / title / text / a / desc) "
        "with the generated string in the dynamic slot. Strings come from an adversarial alphabet (< > & \" ' / = ` NUL, <!--, -->, ]]>, </script, "
        "</title, </textarea, </style, <script, <body, </head>, <!--HEAD-->, character-reference look-alikes such as "
        "&lt; &amp; &#60; &notit;, CR/LF, Unicode whitespace, astral characters) plus random scalar values. "
        "Non-trivial = some string of the "
        "case contains a character that needs escaping in its position; distinct = distinct case hash.")
TRUSTED = [
    "Coq 8.16.1 kernel (coqc); no axioms: every theorem of Properties_C06.v is 'Closed under the global context'",
    "extraction to OCaml with ExtrOcamlBasic only, ocamlfind ocamlopt 4.13.1, extract/driver.ml sexp I/O",
    "harness/ssr/src/c06.rs (Rust) building the views with tachys' public builder API (AnyView / AnyAttribute erasure), "
    "leptos' view! macro and leptos_meta's components; for streamed leptos_meta documents it also renders the case "
    "with every data string replaced by a word (equal strings by equal words) for the oracle's non-interference "
    "comparison; tachys is compiled with its `islands` feature (keys of keyed lists in branch comments)",
    "modelled, not verified: html_escape::{encode_text, encode_double_quoted_attribute} (Html/Escape.v, byte-level "
    "transcription of html-escape 0.2.13, compared with the real crate on every case) and str::trim's White_Space set",
    "the HTML parser of the theorems (Html/Tokenizer.v) is a partial transcription of the WHATWG algorithm: it "
    "answers None outside the subset (ordinary/void/RCDATA/raw-text elements of the view grammar, double-quoted and "
    "boolean attributes, the four named references + numeric ones, <!> bogus comments); the theorems prove it total on "
    "everything the SSR model emits. The oracle's parser (gen/htmlparse.py) is an independent, wider transcription "
    "(full named-reference table, all comment and script-data states, insertion modes, scopes, implied end tags)",
]
ASSUMPTIONS = [
    "strings are Rust Strings (valid UTF-8); the document is served as UTF-8",
    "three normalisations are properties of HTML itself, not of leptos, and are applied to the expected strings: a NUL "
    "is dropped from body text and becomes U+FFFD in attribute values and title/textarea/script/style text; CR and CR LF "
    "become LF; an empty text is rendered as one space so that the browser creates a text node (hydration resets it)",
    "class and style values are assembled from their sources as documented (' '-joined classes, ';'-terminated styles) "
    "and trimmed with Rust's str::trim; attribute and tag names are program text, not data; the generator uses "
    "distinct attribute names per element, at most one child in <title> and no leading newline in <textarea>",
    "inner_html is raw by contract and <noscript> is outside the property text; both are not generated",
    "streamed leptos_meta documents: components that sit below a Suspend boundary are registered only if the boundary "
    "resolves before the first chunk is taken (documented behaviour of inject_meta_context): the oracle demands the "
    "synchronous components in order and accepts each asynchronous one present or absent, exactly as written; "
    "scripts the framework itself adds to the body (out-of-order replacement) are not part of the view, but the "
    "number and place of all elements must not depend on the data (comparison with the neutral rendering); at most "
    "one <Html/> and one <Body/> per document; the nonce of out-of-order scripts is server-generated, not data",
    "svg subtrees: asynchronous children below <svg> are streamed in order only (an out-of-order chunk arrives in a "
    "<template>, whose content is parsed as HTML, so svg elements delivered that way lose their namespace whatever the "
    "data); text leaves there are non-empty and compared with adjacent texts merged (placeholders and <!> separators "
    "are C05 / C07's concern); element names are compared in lower case (viewBox -> viewbox)",
    "branch markers (islands router): views with textarea / title / script / style are streamed without them (a "
    "marker comment of a type-erased child is text there, whatever the data)",
]

PIECES = ["<", ">", "&", '"', "'", "/", "=", "`", "\0", "<!--", "-->", "--!>", "]]>", "<![CDATA[", "</script", "</script>",
          "</SCRIPT >", "</title", "</title>", "</textarea", "</textarea>", "</style", "</style>", "<script", "<script>",
          "</div>", "</span>", "<img src=x onerror=alert(1)>", "<!>", "<!", "<?", "</", "</>", "\\", "&lt;", "&gt;", "&amp;",
          "&quot;", "&#60;", "&#x3c;", "&#0;", "&notit;", "&amp", "&lt", "&#", "&#x", "&;", " onload=alert(1) x=\"",
          "javascript:alert(1)", "\r", "\n", "\r\n", "\t", "\x0c", " ", "  ", "a", "b", "Z", "0", ";", ":", "x:y", "\u00e9",
          "CHR_00A0", "CHR_2028", "CHR_2029", "CHR_FEFF", "CHR_3000", "CHR_0085", "CHR_1F600", "CHR_10FFFF", "CHR_FFFD",
          "CHR_0301", "CHR_200D", "<body", "</head>", "<!--HEAD-->", "<html", "</body>", "</script><script>alert(1)//"]
PIECES = [("".join(chr(int(p[4:], 16))) if p.startswith("CHR_") else p) for p in PIECES]


def text(rng, maxlen=6):
    n = rng.choice([0, 1, 1, 2, 3, rng.randint(0, maxlen)])
    out = []
    for _ in range(n):
        r = rng.random()
        if r < 0.78:
            out.append(rng.choice(PIECES))
        elif r < 0.88:
            out.append(chr(rng.randint(0, 0x7F)))
        else:
            cp = rng.choice([rng.randint(0x80, 0x7FF), rng.randint(0x800, 0xD7FF), rng.randint(0xE000, 0xFFFF),
                             rng.randint(0x10000, 0x10FFFF), rng.randint(0x2000, 0x206F)])
            out.append(chr(cp))
    return "".join(out)


def b(s):
    return list(s.encode("utf-8"))


def s_of(v):
    return bytes(v).decode("utf-8")


# ----------------------------------------------------------------------------- generator
# how many Rust types the harness can carry a string in, per position (harness/ssr/src/c06.rs)
N_ATTR_TYPES, N_CLASS_TYPES, N_STYLE_TYPES, N_PROP_TYPES, N_PROP_KEY_TYPES, N_TEXT_TYPES = 31, 29, 26, 21, 3, 27
N_BOOL_TYPES, N_TOGGLE_TYPES = 2, 8


# ---- primitives (render_primitive! in view/primitives.rs and html/attribute/value.rs): (k n) -> Display
FLOATS = ["0.5", "1", "-2.25", "NaN", "inf", "-inf", "1000000000000000000000", "-0"]
N_PRIMS = 20


def _wrap(n, bits, signed):
    n &= (1 << bits) - 1
    return n - (1 << bits) if signed and n >> (bits - 1) else n


def prim_text(k, n):
    if k in (0, 1, 2, 3):
        return str(_wrap(n, [8, 16, 32, 64][k], False))
    if k == 4:
        return str((_wrap(n, 64, False) << 64) | 7)
    if k == 5:
        return str(_wrap(n, 64, False))
    if k in (6, 7, 8):
        return str(_wrap(n, [8, 16, 32][k - 6], True))
    if k == 9:
        return str(n << 64)
    if k == 10:
        return str(n)
    if k in (11, 12):
        return FLOATS[_wrap(n, 64, False) % 8]
    if k == 13:
        return "127.0.0.1" if n % 2 == 0 else "::1"
    if k == 14:
        return "[::1]:%d" % _wrap(n, 16, False)
    if k == 15:
        return str(_wrap(n, 32, False) | 1)
    if k == 16:
        return str(n | 1)
    if k == 17:
        return "10.0.0.%d" % _wrap(n, 8, False)
    if k == 18:
        return "true" if n else "false"
    return chr(n)


def gen_prim(rng):
    k = rng.randrange(N_PRIMS)
    if k == 19:
        return [k, ord(rng.choice(['"', "<", ">", "&", "'", "\0", "a", "\u00e9", "\U0001F600", "\r", " ", "/", "="]))]
    # (the model's driver reads 63-bit integers: the whole case must stay below 2^62)
    return [k, rng.choice([0, 1, -1, 7, 255, 256, 65535, 2 ** 31, 2 ** 62 - 1, -(2 ** 62), rng.randint(-1000, 1000)])]


# inner_html is raw by contract: fixed well-formed snippets (harness: SNIPPETS) and what they parse to
SNIPPET_TREES = [
    [("el", "b", [], [("text", "x")])],
    [("text", "a & b")],
    [("el", "i", [("title", 'q"')], [("text", "y")]), ("el", "br", [], [])],
    [],
    [("el", "ul", [], [("el", "li", [], [("text", "1")]), ("el", "li", [], [("text", "2")])])],
    [("text", "<not a tag>")],
]
N_INNER_TYPES = 6
OUTER_NAMES = ["data-o1", "data-o2", "data-o3"]


def ty(rng, n):
    """String half of the time, else any of the other types that implement the trait"""
    return 0 if rng.random() < 0.5 else rng.randrange(n)


def gen_attrs(rng, tag, inner=False):
    out = []
    if inner and rng.random() < 0.5:
        out.append([8, rng.randrange(len(SNIPPET_TREES)), rng.randrange(N_INNER_TYPES)])
    names = list(ATTR_NAMES)
    bools = list(BOOL_NAMES)
    rng.shuffle(names)
    rng.shuffle(bools)
    have_id = False
    for _ in range(rng.choice([0, 0, 1, 1, 2, 3, 4])):
        r = rng.random()
        if r < 0.05 and names:
            out.append([7, b(names.pop())] + gen_prim(rng))
        elif r < 0.40 and names:
            out.append([0, b(names.pop()), b(text(rng)), ty(rng, N_ATTR_TYPES)])
        elif r < 0.48 and bools:
            out.append([1, b(bools.pop()), rng.randint(0, 1), ty(rng, N_BOOL_TYPES)])
        elif r < 0.62:
            out.append([2, b(text(rng)), ty(rng, N_CLASS_TYPES)])
        elif r < 0.70:
            out.append([3, b(text(rng, 3)), rng.randint(0, 1), ty(rng, N_TOGGLE_TYPES)])
        elif r < 0.82:
            out.append([4, b(text(rng)), ty(rng, N_STYLE_TYPES)])
        elif r < 0.92:
            out.append([5, b(rng.choice(STYLE_PROPS)), b(text(rng)), ty(rng, N_PROP_TYPES), ty(rng, N_PROP_KEY_TYPES)])
        elif not have_id:
            have_id = True
            out.append([6, b(text(rng)), ty(rng, N_ATTR_TYPES)])
    return out


def gen_leaf(rng):
    r = rng.random()
    if r < 0.70:
        return [0, b(text(rng)), ty(rng, N_TEXT_TYPES)]
    if r < 0.82:
        c = rng.choice(["<", ">", "&", '"', "'", "\0", "a", "\u00e9", "\U0001F600", "\r", " ", "/"])
        return [1, ord(c)]
    if r < 0.88:
        return [3, rng.choice([0, 1, -1, 42, -7, 2 ** 40, -(2 ** 62)])]
    if r < 0.94:
        return [7] + gen_prim(rng)
    return [4]


def gen_view(rng, depth=0, tags=None, deep_tags=None):
    if depth >= 3 or rng.random() < 0.35:
        return gen_leaf(rng)
    tag = rng.choice(tags or deep_tags or [0, 0, 1, 1, 2, 3, 4, 5, 6, 7, 8, 9])
    attrs = gen_attrs(rng, tag)
    kids = []
    if tag in VOID:
        pass
    elif tag == 7:
        if rng.random() < 0.8:
            kids = [[0, b(text(rng)), ty(rng, N_TEXT_TYPES)]]
    elif tag in RCDATA or tag in RAW:
        for _ in range(rng.choice([0, 1, 1, 1, 2, 3])):
            kids.append(rng.choice([[0, b(text(rng)), ty(rng, N_TEXT_TYPES)], [0, b(text(rng)), ty(rng, N_TEXT_TYPES)], gen_leaf(rng)]))
        kids = [k for k in kids if k[0] != 4]
        if tag == 6:
            first = "".join(leaf_text(k) for k in kids)
            if first[:1] in ("\n", "\r"):
                kids = [[0, b("x")]] + kids
    else:
        for _ in range(rng.choice([0, 1, 1, 2, 2, 3, 4])):
            kids.append(gen_svg(rng) if deep_tags is None and rng.random() < 0.06 else gen_view(rng, depth + 1, deep_tags=deep_tags))
        if not kids and rng.random() < 0.4:
            attrs = gen_attrs(rng, tag, inner=True)
    v = [2, tag, attrs, kids]
    if rng.random() < 0.04:
        # attributes handed to the (type-erased) element from outside
        names = list(OUTER_NAMES)
        rng.shuffle(names)
        outer = [[0, b(names.pop()), b(text(rng)), ty(rng, N_ATTR_TYPES)] for _ in range(rng.randint(1, 2))]
        if not any(a[0] == 6 for a in attrs) and rng.random() < 0.4:
            outer.append([6, b(text(rng)), ty(rng, N_ATTR_TYPES)])
        v = [8, outer, v]
    return v


# ---- svg subtrees: (9 svgtag attrs kids); inside <svg> every element is an ordinary element (foreign content)
SVG_TAGS = ["svg", "g", "style", "script", "title", "text", "a", "desc"]
SVG_TEXT_ONLY = {2, 3, 4, 5, 7}        # their children are text-like leaves
SVG_HTML_TEXT = {4, 7}                 # title, desc: HTML integration points (their text follows HTML rules)


def gen_svg(rng, depth=0, root=True):
    tag = 0 if root else rng.choice([1, 2, 2, 3, 3, 4, 5, 5, 6, 7])
    attrs = [a for a in gen_attrs(rng, 0) if a[0] != 8]
    kids = []
    if tag in SVG_TEXT_ONLY:
        for _ in range(rng.choice([0, 1, 1, 1, 2, 3])):
            k = rng.choice([[0, b(text(rng)), ty(rng, N_TEXT_TYPES)], [0, b(text(rng)), ty(rng, N_TEXT_TYPES)], gen_leaf(rng)])
            if k[0] != 4 and not (k[0] == 0 and not k[1]):
                kids.append(k)
    else:
        for _ in range(rng.choice([1, 1, 2, 3, 4]) if root else rng.choice([0, 1, 2, 3])):
            if depth < 2 and rng.random() < 0.85:
                kids.append(gen_svg(rng, depth + 1, False))
            else:
                k = gen_leaf(rng)
                if k[0] != 4 and not (k[0] == 0 and not k[1]):
                    kids.append(k)
    return [9, tag, attrs, kids]


def oracle_only(v):
    """constructs the Coq model does not have: primitives other than char / i64, inner_html, outer attributes"""
    if v[0] in (7, 8, 9):
        return True
    if v[0] == 5:
        return oracle_only(v[2])
    if v[0] != 2:
        return False
    return any(a[0] in (7, 8) for a in v[2]) or any(oracle_only(k) for k in v[3])


def gen_top(rng):
    v = gen_svg(rng) if rng.random() < 0.04 else gen_view(rng)
    if v[0] not in (2, 8, 9):
        v = [2, rng.choice([0, 1, 2]), gen_attrs(rng, 0), [v] + [gen_view(rng, 1) for _ in range(rng.randint(0, 3))]]
    return v


def add_suspends(rng, v, counter, text_only=False):
    """wrap random children (any kind; inside text-only elements: the text-like ones) in Suspend"""
    if v[0] == 8:
        return [8, v[1], add_suspends(rng, v[2], counter)]
    if v[0] == 9:
        kids = []
        for k in v[3]:
            k = add_suspends(rng, k, counter)
            if counter[0] < 6 and rng.random() < 0.3:
                k = [5, counter[0], k]
                counter[0] += 1
            kids.append(k)
        return [9, v[1], v[2], kids]
    if v[0] != 2:
        return v
    kids = []
    t_only = v[1] in RCDATA or v[1] in RAW
    for k in v[3]:
        k = add_suspends(rng, k, counter)
        if counter[0] < 6 and rng.random() < (0.5 if t_only else 0.3) and not (v[1] == 7):
            k = [5, counter[0], k]
            counter[0] += 1
        kids.append(k)
    return [2, v[1], v[2], kids]


def gen_stream(rng):
    counter = [0]
    v = add_suspends(rng, gen_top(rng), counter)
    if counter[0] == 0:
        v = [2, 0, [], [[0, b(text(rng))], [5, 0, v], [0, b(text(rng))]]]
        counter[0] = 1
    n = counter[0]
    mode = rng.choice([0, 1, 0, 1, 2, 3])        # 2, 3: the same with branch markers (islands router)
    if mode & 1 and suspend_in_raw(v):
        # an out-of-order placeholder inside script / style / textarea is a comment that is not a
        # comment there, whatever the data (C07's domain): asynchronous children of text-only
        # elements are streamed in order only
        mode -= 1
    if mode & 2 and has_tag(v, (6, 7, 8, 9)):
        # the branch markers of type-erased children are comments: inside textarea / title / script /
        # style they are text, whatever the data (not this property's concern)
        mode -= 2
    sched = []
    order = list(range(n))
    rng.shuffle(order)
    for k in order[:rng.randint(0, n)]:
        if rng.random() < 0.5:
            sched.append(-1)
        sched.append(k)
    if rng.random() < 0.3:
        sched = [k for k in sched if k >= 0]      # everything (in sched) ready before the first poll
    return [5, mode, v, sched]


def gen_document(rng):
    title = [b(text(rng, 8))] if rng.random() < 0.8 else []
    metas = [[b(rng.choice(["description", "keywords", "author", text(rng, 3)])), b(text(rng, 8))]
             for _ in range(rng.choice([0, 1, 1, 2]))]
    link = [b(text(rng))] if rng.random() < 0.4 else []
    lang = [b(text(rng, 3))] if rng.random() < 0.4 else []
    cls = [b(text(rng, 4))] if rng.random() < 0.4 else []
    body = gen_view(rng, 1, tags=[0, 1, 2, 3, 6, 7])
    # the shell: without <!--HEAD--> marker?, a literal <title> of its own (before / after the
    # marker's place)?, the first chunk ending inside the body (per mille; 0: one chunk)
    shell = [int(rng.random() < 0.3), rng.choice([0, 0, 1, 2]), rng.choice([0, 0, 1, 500, 999, rng.randint(1, 999)])]
    return [3, title, metas, link, lang, cls, body, shell]


# ---- leptos_meta components anywhere in a streamed document: (6 kind variant strings rep)
META_ATTRS = {
    (1, 0): ("meta", ["name", "content"]), (1, 1): ("meta", ["property", "content"]),
    (1, 2): ("meta", ["http-equiv", "content"]), (1, 3): ("meta", ["charset"]),
    (1, 4): ("meta", ["itemprop", "content", "name"]),
    (2, 0): ("link", ["rel", "href"]), (2, 1): ("link", ["id", "rel", "href", "title"]),
    (2, 2): ("link", ["id", "as", "crossorigin", "fetchpriority", "href", "hreflang", "imagesizes", "imagesrcset",
                      "integrity", "media", "referrerpolicy", "rel", "sizes", "title", "type", "blocking"]),
    (3, 0): ("link", ["href"]), (3, 1): ("link", ["href", "id"]),
    (4, 0): ("script", ["src", "id"]), (4, 1): ("script", ["id"]),
    (4, 2): ("script", ["id", "async", "crossorigin", "defer", "fetchpriority", "integrity", "nomodule", "nonce",
                        "referrerpolicy", "src", "type", "blocking"]),
    (5, 0): ("style", []), (5, 1): ("style", ["id", "media", "nonce", "title", "blocking"]),
    (6, 0): ("html", ["lang"]), (6, 1): ("html", ["lang", "dir"]),
    (7, 0): ("body", ["class"]), (7, 1): ("body", ["class", "id"]),
}
META_CHILD = {(4, 1): 1, (5, 0): 0, (5, 1): 5}      # index of the string that is the raw-text child
# hostile literal props (harness: meta_node, kind 8)
LIT_META = [
    ("el", "link", [("rel", "canonical"), ("href", '/s?q=1&lt=2"><img src=x onerror=alert(1)>')], []),
    ("el", "meta", [("name", 'desc"ription'), ("content", 'a"><script>alert(1)</script>&amp;')], []),
    ("el", "link", [("rel", "stylesheet"), ("href", '/a.css?x="&quot;<'), ("id", 's"id')], []),
    ("el", "script", [("src", '/a.js?"><b>'), ("id", "&lt;")], []),
    ("title", "</title><script>alert(1)</script>&amp;"),
    ("el", "link", [("id", 'l"1'), ("rel", 'pre"load'), ("href", "&#x3c;x"), ("title", "<t>&gt;'")], []),
    ("el", "style", [("id", 'st"yle'), ("media", 'screen" onload="alert(1)')], [("text", "b{color:red}")]),
    ("el", "meta", [("property", "og:title"), ("content", '&quot; onclick=&quot;" x="')], []),
]
META_BODY_TAGS = [0, 0, 1, 1, 2, 3, 4, 5, 6]
CODE_PIECES = ["var x = 1 < 2;", "a && b", "'</b>'", "\"<body>\"", "<body", "/* <html> */", "b{color:red}", "x", "\n",
               "</head>", "<!--HEAD-->", "</script", "</style", "<!--", "&amp;", "</title>"]


def gen_meta_node(rng, only=None):
    kind = only if only is not None else rng.choice([0, 0, 0, 1, 1, 2, 2, 3, 4, 4, 5, 8, 8])
    if kind == 8:
        return [6, 8, rng.randrange(len(LIT_META)), [], 0]
    if kind == 0:
        var = rng.choice([0, 0, 0, 1, 1, 2])
        return [6, 0, var, [b(text(rng, 8))] + ([b(text(rng, 3))] if var else []), rng.randrange(6)]
    var = rng.choice([k[1] for k in META_ATTRS if k[0] == kind])
    n = len(META_ATTRS[(kind, var)][1]) + (1 if (kind, var) in META_CHILD else 0)
    strs = [b(text(rng)) for _ in range(rng.randint(1, max(1, n)))]
    if (kind, var) in META_CHILD and rng.random() < 0.8:
        # the raw-text child of <Script> / <Style>: mostly code-like
        while len(strs) <= META_CHILD[(kind, var)]:
            strs.append(b(text(rng)))
        strs[META_CHILD[(kind, var)]] = b("".join(rng.choice(CODE_PIECES[:9] if rng.random() < 0.85 else CODE_PIECES)
                                                  for _ in range(rng.randint(0, 3))))
    return [6, kind, var, strs, rng.randrange(6)]


def sprinkle_meta(rng, v, nodes):
    """insert the meta nodes as children of random ordinary elements of v"""
    spots = []

    def walk(x):
        if x[0] == 8:
            return walk(x[2])
        if x[0] == 2 and x[1] in (0, 1, 2) and not any(a[0] == 8 for a in x[2]):
            spots.append(x)
            for k in x[3]:
                walk(k)
    walk(v)
    for m in nodes:
        el = rng.choice(spots)
        el[3].insert(rng.randint(0, len(el[3])), m)
    return v


def gen_meta_doc(rng):
    v = gen_view(rng, 1, deep_tags=META_BODY_TAGS)
    if v[0] != 2 or v[1] not in (0, 1, 2) or any(a[0] == 8 for a in v[2]):
        v = [2, 0, [], [v]]
    early = [gen_meta_node(rng) for _ in range(rng.choice([0, 1, 1, 2, 3]))]
    if rng.random() < 0.35:
        early.append(gen_meta_node(rng, 6))
    if rng.random() < 0.35:
        early.append(gen_meta_node(rng, 7))
    sprinkle_meta(rng, v, early)
    counter = [0]
    v = add_suspends(rng, v, counter)
    if rng.random() < 0.75 and counter[0] < 6:
        # components that are constructed / rendered only when their Suspend resolves
        late = [gen_meta_node(rng, rng.choice([0, 0, 0, 1, 2, 4, 8])) for _ in range(rng.choice([1, 1, 2, 3]))]
        if not any(m[1] in (6, 7) for m in early) and rng.random() < 0.2:
            late.append(gen_meta_node(rng, rng.choice([6, 7])))
        inner = [2, rng.choice([0, 1, 2]), gen_attrs(rng, 0), [gen_leaf(rng) for _ in range(rng.randint(0, 2))]]
        sprinkle_meta(rng, inner, late)
        v[3].insert(rng.randint(0, len(v[3])), [5, counter[0], inner])
        counter[0] += 1
    n = counter[0]
    mode = rng.randint(0, 1)
    if mode == 1 and suspend_in_raw(v):
        mode = 0
    sched = []
    order = list(range(n))
    rng.shuffle(order)
    for k in order[:rng.randint(0, n)]:
        if rng.random() < 0.6:
            sched.append(-1)
        sched.append(k)
    if rng.random() < 0.25:
        sched = [k for k in sched if k >= 0]
    return [6, mode, v, sched]


N_STATIC = 18
N_TEMPLATES = 24


def gen_keyed(rng):
    rows = [b(text(rng)) for _ in range(rng.choice([0, 1, 2, 2, 3, 4]))]
    if rows and rng.random() < 0.5:
        rows[rng.randrange(len(rows))] = b(rng.choice(["-->", "--!>", "->", ">", "--"]).join(
            text(rng, 3) for _ in range(rng.randint(2, 3))))
    return [9, rng.randrange(3), rng.randrange(3), rows]


def gen_island(rng):
    return [11, rng.randrange(6), b(text(rng, 8)), gen_view(rng, 1, deep_tags=META_BODY_TAGS)]


def island_problem(case, got):
    """<leptos-island data-component="Counter" data-props=JSON><span>label</span><leptos-children>view.."""
    import json
    label = s_of(case[2])
    want_kids = [("el", "span", [], [("text", norm_body(label) if label else " ")]),
                 ("el", "leptos-children", [], exp_nodes([case[3]]))]
    if len(got) != 2 or got[0][0] != "el" or got[0][1] != "leptos-island":
        return "expected <leptos-island> and <p>, parsed " + H.serialize(got).strip()[:200]
    isl = got[0]
    at = dict(isl[2])
    if case[1] >= 3:
        if isl[2] != [("data-component", "Counter")]:
            return "island attributes differ: parsed %r" % (isl[2],)
        return first_diff(canon(want_kids) + [("el", "p", [], [("text", "after")])], canon(isl[3]) + got[1:])
    if sorted(at) != ["data-component", "data-props"] or len(isl[2]) != 2 or at["data-component"] != "Counter":
        return "island attributes differ: parsed %r" % (isl[2],)
    try:
        props = json.loads(at["data-props"])
    except ValueError:
        return "data-props is not the JSON that was serialised: %r" % at["data-props"][:200]
    if props != {"label": label}:
        return "data-props differs: expected label %r, parsed %r" % (label, props)
    return first_diff(canon(want_kids) + [("el", "p", [], [("text", "after")])], canon(isl[3]) + got[1:])


def keyed_expect(rows):
    T = lambda x: ("text", x)
    return [("el", "ul", [], [("el", "li", [], [T(norm_body(s_of(r)) if r else " ")]) for r in rows]),
            ("el", "p", [], [T("after")])]


# ---- view! child forms x positions (harness: static_grid / grid_positions)
_L0 = "<b>x</b>&amp;\"'"
_L1 = "</textarea></style><img src=x onerror=alert(1)>"
_L2 = "<!-- --> ]]> &lt;"
_L3 = "</span></div><script>alert(1)</script>"
# (source form, the texts it stands for)
GRID_CHILDREN = [
    ('"L0"', [_L0]), ('{"L0"}', [_L0]), ('{{"L0"}}', [_L0]), ('{("L0")}', [_L0]), ('{String::from("L0")}', [_L0]),
    ("{CONST_L0}", [_L0]), ('"L1"', [_L1]), ('{"L1"}', [_L1]), ('{{"L1"}}', [_L1]), ('{"L1".to_string()}', [_L1]),
    ('"L3"', [_L3]), ('{"L3"}', [_L3]), ("{'<'}", ["<"]), ("{'&'}", ["&"]), ("{1}", ["1"]), ('{"L2"}', [_L2]),
    ('"L2"', [_L2]), ('{concat!("<i>", "&lt;")}', ["<i>&lt;"]), ('"a<" {"<b>"}', ["a<", "<b>"]),
    ('{"<b>"} {"</b>"}', ["<b>", "</b>"]), ('{move || "L0"}', [_L0]), ('{Some("L0")}', [_L0]),
    ('"L0" {"L1"} "L2"', [_L0, _L1, _L2]),
]
GRID_POSITIONS = ["<div>C</div>", "<div><span>C</span></div>", "<section><div><p>C</p></div><br/></section>",
                  '<div><span class="c" title="t">C</span></div>', "<div><span title=s>C</span></div>",
                  "<div><span>C{s}</span></div>", "<div><textarea>C</textarea></div>", "<textarea>C</textarea>",
                  "<div><script>C</script></div>", "<div><style>C</style></div>", '<div><b>"x"</b>C<i>"y"</i></div>',
                  '<ul><li>C</li><li>"two"</li></ul>']


def grid_expect(c, p, s):
    texts = GRID_CHILDREN[c][1]
    T = lambda x: ("text", x)
    E = lambda name, attrs, kids: ("el", name, attrs, kids)
    body = [T(norm_body(t)) for t in texts]
    raw = "".join(texts)
    rawk = [T(norm_attr(raw))]
    if p == 0:
        return [E("div", [], body)]
    if p == 1:
        return [E("div", [], [E("span", [], body)])]
    if p == 2:
        return [E("section", [], [E("div", [], [E("p", [], body)]), E("br", [], [])])]
    if p == 3:
        return [E("div", [], [E("span", [("class", "c"), ("title", "t")], body)])]
    if p == 4:
        return [E("div", [], [E("span", [("title", norm_attr(s))], body)])]
    if p == 5:
        return [E("div", [], [E("span", [], body + [T(norm_body(s) if s else " ")])])]
    if p == 6:
        return [E("div", [], [E("textarea", [], rawk)])]
    if p == 7:
        return [E("textarea", [], rawk)]
    if p == 8:
        return [E("div", [], [E("script", [], rawk)])]
    if p == 9:
        return [E("div", [], [E("style", [], rawk)])]
    if p == 10:
        return [E("div", [], [E("b", [], [T("x")])] + body + [E("i", [], [T("y")])])]
    return [E("ul", [], [E("li", [], body), E("li", [], [T("two")])])]


_A0 = "a\"b<c>&amp;'"
_A1 = "\"><img src=x onerror=alert(1)>"
# (source form, the attributes it stands for)
ATTR_FORMS = [
    ('title="A0"', [("title", _A0)]), ('title={"A0"}', [("title", _A0)]), ('title=("A0")', [("title", _A0)]),
    ("title=CONST_A0", [("title", _A0)]), ('title={String::from("A0")}', [("title", _A0)]),
    ('title=concat!(..A0..)', [("title", _A0)]), ('class="A1"', [("class", _A1)]), ('class={"A1"}', [("class", _A1)]),
    ('style="A1"', [("style", _A1)]), ('style={"A1"}', [("style", _A1)]), ('id="A1"', [("id", _A1)]),
    ('id={"A1"}', [("id", _A1)]), ('data-x="A0"', [("data-x", _A0)]), ('data-x={"A0"}', [("data-x", _A0)]),
    ('title="A0" class="A1" id={"A1"}', [("title", _A0), ("class", _A1), ("id", _A1)]),
]
ATTR_POSITIONS = ['<div A>"x"</div>', '<div><span A>"x"</span></div>', '<section><div><p A>"x"</p></div><br/></section>',
                  "<div><span A>{s}</span></div>", "<div><input A/></div>", '<div><textarea A>"x"</textarea></div>',
                  '<div><span A lang=s>"x"</span></div>']


def attr_grid_expect(f, p, s):
    at = list(ATTR_FORMS[f][1])
    T = lambda x: ("text", x)
    E = lambda name, attrs, kids: ("el", name, attrs, kids)
    if p == 0:
        return [E("div", at, [T("x")])]
    if p == 1:
        return [E("div", [], [E("span", at, [T("x")])])]
    if p == 2:
        return [E("section", [], [E("div", [], [E("p", at, [T("x")])]), E("br", [], [])])]
    if p == 3:
        return [E("div", [], [E("span", at, [T(norm_body(s) if s else " ")])])]
    if p == 4:
        return [E("div", [], [E("input", at, [])])]
    if p == 5:
        return [E("div", [], [E("textarea", at, [T("x")])])]
    return [E("div", [], [E("span", at + [("lang", norm_attr(s))], [T("x")])])]


def style_unterminated(nodes):
    """a style value with or without its last ';' is the same declaration list"""
    out = []
    for n in nodes:
        if n[0] == "el":
            at = [(a, v[:-1] if a == "style" and v.endswith(";") else v) for a, v in n[2]]
            n = ("el", n[1], sorted(at), style_unterminated(n[3]))
        out.append(n)
    return out


def grid_breakout(c, p):
    """a literal child of script / style that contains the element's own end tag (F-C06-b)"""
    raw = "".join(GRID_CHILDREN[c][1]).lower()
    return (p == 8 and ("</script" in raw or "<!--" in raw)) or (p == 9 and "</style" in raw)


def generate(rng, tier):
    n = 5000 if tier == "quick" else 100000
    for k in range(N_STATIC):
        yield dict(case=[2, k], kind="static", compare=False)
    for c in range(len(GRID_CHILDREN)):
        for p in range(len(GRID_POSITIONS)):
            s = [b('"><img src=x onerror=alert(1)>&amp;'), b(text(rng, 8))] if p in (4, 5) else [[]]
            for x in s:
                yield dict(case=[8, c, p, x], kind="static-grid", compare=False)
    for f in range(len(ATTR_FORMS)):
        for p in range(len(ATTR_POSITIONS)):
            x = b(rng.choice(['"><img src=x onerror=alert(1)>&amp;', text(rng, 8)])) if p in (3, 6) else []
            yield dict(case=[10, f, p, x], kind="static-grid", compare=False)
    for i in range(n):
        r = rng.random()
        if r < 0.55:
            v = gen_top(rng)
            yield dict(case=[1, v], kind="view", compare=not oracle_only(v))
        elif r < 0.66:
            c = gen_document(rng)
            yield dict(case=c, kind="document", compare=not oracle_only(c[6]))
        elif r < 0.74:
            yield dict(case=gen_meta_doc(rng), kind="metadoc", compare=False)
        elif r < 0.77:
            yield dict(case=gen_keyed(rng), kind="keyed", compare=False)
        elif r < 0.79:
            yield dict(case=gen_island(rng), kind="island", compare=False)
        elif r < 0.84:
            yield dict(case=gen_stream(rng), kind="stream", compare=False)
        else:
            yield dict(case=[4, rng.randrange(N_TEMPLATES), b(text(rng, 8))], kind="template", compare=False)


# ----------------------------------------------------------------------------- expected trees
RUST_WS = set(map(chr, [9, 10, 11, 12, 13, 32, 0x85, 0xA0, 0x1680, 0x2028, 0x2029, 0x202F, 0x205F, 0x3000]
                  + list(range(0x2000, 0x200B))))


def rust_trim(s):
    i, j = 0, len(s)
    while i < j and s[i] in RUST_WS:
        i += 1
    while j > i and s[j - 1] in RUST_WS:
        j -= 1
    return s[i:j]


def norm_nl(s):
    return s.replace("\r\n", "\n").replace("\r", "\n")


def norm_body(s):
    return norm_nl(s).replace("\0", "")


def norm_attr(s):
    return norm_nl(s).replace("\0", "\ufffd")


def leaf_text(v):
    if v[0] == 0:
        return s_of(v[1])
    if v[0] == 1:
        return chr(v[1])
    if v[0] == 3:
        return str(v[1])
    if v[0] == 7:
        return prim_text(v[1], v[2])
    return ""


def raw_content(kids):
    """what the children of a text-only element (textarea, title, script, style) say, in order"""
    out = []
    for k in kids:
        if k[0] == 5:
            r = raw_content([k[2]])
            if r is None:
                return None
            out.append(r)
            continue
        if k[0] == 2:
            return None
        out.append(leaf_text(k))
    return "".join(out)


def exp_attrs(attrs):
    out = []
    classes = None
    styles = None
    for a in attrs:
        k = a[0]
        if k == 0:
            out.append((s_of(a[1]), norm_attr(s_of(a[2]))))
        elif k == 1:
            if a[2]:
                out.append((s_of(a[1]), ""))
        elif k == 2:
            classes = (classes or "") + " " + s_of(a[1])
        elif k == 3:
            classes = (classes or "") + " " + (s_of(a[1]) if a[2] else "")
        elif k == 4:
            styles = (styles or "") + s_of(a[1]) + ";"
        elif k == 5:
            styles = (styles or "") + s_of(a[1]) + ":" + s_of(a[2]) + ";"
        elif k == 7:
            out.append((s_of(a[1]), norm_attr(prim_text(a[2], a[3]))))
        elif k == 8:
            continue
        else:
            out.append(("id", norm_attr(s_of(a[1]))))
    if classes:
        out.append(("class", norm_attr(rust_trim(classes))))
    if styles:
        out.append(("style", norm_attr(rust_trim(styles))))
    return out


def exp_nodes(kids):
    """expected children of an ordinary element, comments left out"""
    out = []
    for k in kids:
        if k[0] == 5:
            out += exp_nodes([k[2]])       # a Suspend renders what it resolves to
        elif k[0] == 2:
            out.append(exp_el(k))
        elif k[0] in (4, 6):
            continue
        elif k[0] == 9:
            out.append(exp_svg(k))
        elif k[0] == 8:
            # the outer attributes go to the element; a text takes none
            inner = exp_nodes([k[2]])
            out += [("el", n[1], n[2] + exp_attrs(k[1]), n[3]) if n[0] == "el" else n for n in inner]
        else:
            t = leaf_text(k)
            t = norm_body(t) if t else " "
            out.append(("text", t))
    return out


def exp_svg(v, html_text=False):
    """an element in SVG content: its text is ordinary text (no raw-text / RCDATA element there); a NUL
    becomes U+FFFD in foreign content and is dropped inside the HTML integration points title / desc"""
    kids = []
    for k in v[3]:
        if k[0] == 9:
            kids.append(exp_svg(k))
        elif k[0] == 5:
            kids += [exp_svg(k[2])] if k[2][0] == 9 else exp_svg([9, v[1], [], [k[2]]])[3]
        elif k[0] != 4:
            t = leaf_text(k)
            t = (norm_body(t) if v[1] in SVG_HTML_TEXT else norm_attr(t)) if t else " "
            kids.append(("text", t))
    return ("el", SVG_TAGS[v[1]], exp_attrs(v[2]), kids)


def exp_el(v):
    tag = TAGS[v[1]]
    attrs = exp_attrs(v[2])
    if v[1] in VOID:
        return ("el", tag, attrs, [])
    inner = [a for a in v[2] if a[0] == 8]
    if inner:
        return ("el", tag, attrs, list(SNIPPET_TREES[inner[0][1]]))
    if v[1] in RCDATA or v[1] in RAW:
        raw = raw_content(v[3])
        if v[1] == 7 and v[3]:
            # tachys' <title> escapes its children like an ordinary element (placeholder space)
            raw = raw if raw else " "
        t = norm_attr(raw or "")
        return ("el", tag, attrs, [("text", t)] if t else [])
    return ("el", tag, attrs, exp_nodes(v[3]))


def strip_comments(nodes):
    """drop comment nodes; text nodes that a comment separated stay separate. Text nodes that
    the parser produced adjacent to each other cannot occur (it merges them)."""
    out = []
    for n in nodes:
        if n[0] == "comment":
            continue
        if n[0] == "el":
            out.append(("el", n[1], sorted(n[2]), strip_comments(n[3])))
        else:
            out.append(n)
    return out


def canon(nodes):
    out = []
    for n in nodes:
        if n[0] == "el":
            out.append(("el", n[1], sorted(n[2]), canon(n[3])))
        elif n[0] == "text":
            # an expected empty body text (only NULs) yields no node at all
            if n[1] != "":
                out.append(n)
        else:
            out.append(n)
    return out


def merge_texts(nodes):
    """adjacent text nodes as one (the separators between text siblings belong to C05/C07)"""
    out = []
    for n in nodes:
        if n[0] == "el":
            n = ("el", n[1], n[2], merge_texts(n[3]))
        if n[0] == "text" and out and out[-1][0] == "text":
            out[-1] = ("text", out[-1][1] + n[1])
        else:
            out.append(n)
    return out


def drop_dropped_texts(nodes):
    """expected text nodes that consist of NULs only vanish in the browser; the comment that
    separated them stays, so the neighbours do not merge \u2014 nothing else to do"""
    return canon(nodes)


STATIC_EXPECT = [
    [("el", "div", [("id", 'a"b'), ("title", "<x>&amp;'")], [("text", "x<y&z>\"'")])],
    [("el", "span", [("class", 'c1 "c2" <c3>'), ("data-x", "</span><img src=x onerror=alert(1)>")],
      [("text", "</span><script>alert(1)</script>")])],
    [("el", "div", [], [("el", "span", [], [("text", "a")]), ("text", "<!--"), ("el", "span", [], [("text", "-->")]),
                        ("text", "]]>")])],
    [("el", "textarea", [("placeholder", '"><script>')], [("text", "</textarea><img src=x>")])],
    [("el", "title", [], [("text", "</title><script>alert(1)</script>")])],
    [("el", "div", [("style", 'color:red;"onmouseover=alert(1);')], [("text", "&lt;&amp;&#60;")])],
    [("el", "input", [("value", 'a"b<c>&d'), ("placeholder", "'x'")], [])],
    [("el", "section", [], [("el", "div", [("id", "`=`")], [("text", "`<`")]), ("el", "br", [], []),
                            ("el", "span", [], [("text", "\u2028\U0001F600")])])],
    [("el", "div", [], [("el", "p", [], [("text", "</p><img src=x onerror=alert(1)>")]),
                        ("el", "span", [("title", '"><script>alert(1)</script>')], [("text", "</span><script>alert(2)</script>")])])],
    [("el", "section", [], [("el", "div", [("class", 'a" onclick="alert(1)'), ("data-x", "&quot;&amp;")],
                                 [("text", "&lt;b&gt;&amp;amp;<b>x</b>")]),
                            ("el", "textarea", [], [("text", "</textarea><img src=x>")])])],
    [("el", "div", [], [("el", "span", [], [("text", "<!--")]), ("el", "span", [], [("text", "--><script>alert(1)</script>")]),
                        ("el", "input", [("value", "'\"><svg onload=alert(1)>")], [])])],
    [("el", "ul", [], [("el", "li", [], [("el", "a", [("href", "javascript:alert('x')\"<>")], [("text", "<a href=x>")])]),
                       ("el", "li", [("id", "</li></ul><p>")], [("text", "</li></ul>")])])],
    [("el", "div", [("class", 'g" onclick="alert(1)')],
      [("el", "p", [("class", 'g" onclick="alert(1)')], [("text", "static child")]),
       ("el", "span", [("class", 'g" onclick="alert(1) own')], [("text", "x")]), ("text", "1")])],
    # unquoted text: compared without white space (the macro sees tokens, not the spacing between them)
    [("el", "div", [], [("text", "a&b&amp;c")])],
    [("el", "div", [], [("el", "p", [], [("text", "a&b&amp;cq'r'd")]), ("el", "span", [], [("text", "&lt;b&gt;&#60;x")])])],
    # literal text in svg subtrees (static 15: root; 16, 17: inside macro-inlined static subtrees)
    [("el", "svg", [], [("el", "style", [], [("text", "a<b{}</style><c>&lt;")]), ("el", "script", [], [("text", "1<2&amp;")]),
                        ("el", "title", [], [("text", "</title><b>")]), ("el", "text", [], [("text", "<tspan>&gt;")])])],
    [("el", "section", [], [("el", "div", [("class", "w")], [("el", "svg", [], [
        ("el", "style", [], [("text", "a<b{}</style><c>&lt;")]), ("el", "script", [], [("text", "1<2&amp;")]),
        ("el", "title", [], [("text", "</title><b>")]), ("el", "text", [], [("text", "<tspan>&gt;")])])]),
        ("el", "p", [], [("text", "x")])])],
    [("el", "div", [], [("el", "p", [], [("el", "svg", [], [
        ("el", "g", [], [("el", "style", [], [("text", "x</g><img src=x onerror=alert(1)>")])]),
        ("el", "desc", [], [("text", "<![CDATA[<b>]]>")])])])])],
]
STATIC_UNSPACED = (13, 14)


def unspaced(nodes):
    out = []
    for n in nodes:
        if n[0] == "el":
            out.append(("el", n[1], n[2], unspaced(n[3])))
        elif n[0] == "text":
            out.append(("text", "".join(n[1].split())))
        else:
            out.append(n)
    return out



def template_expect(k, s):
    tb = norm_body(s) if s else " "
    ta = norm_attr(s)
    T = lambda x: ("text", x)
    if k == 0:
        return [("el", "div", [], [T(tb)])]
    if k == 1:
        return [("el", "div", [("title", ta)], [T("lit"), T(tb), T("lit")])]
    if k == 2:
        return [("el", "span", [("class", norm_attr(rust_trim(" " + s)))], [T("x")])]
    if k == 3:
        return [("el", "span", [("style", norm_attr(rust_trim(s + ";")))], [T("x")])]
    if k == 4:
        return [("el", "a", [("href", ta)], [("el", "b", [], [T(tb)])])]
    if k == 5:
        return [("el", "input", [("value", ta)], [])]
    if k == 6:
        return [("el", "p", [], [T(tb)])]
    if k == 7:
        return [("el", "ul", [], [("el", "li", [("id", ta)], [T(tb)]), ("el", "li", [], [T("two")])])]
    if k == 8:
        t = norm_attr(s)
        if t.startswith("\n"):
            return None         # a leading newline in <textarea> is dropped by every HTML parser: not judged
        return [("el", "textarea", [], [T(t)] if t else [])]
    if k == 9:
        return [("el", "div", [("class", norm_attr(rust_trim(" " + s + " active")))], [])]
    if k == 10:
        return [("el", "my-element", [("data-payload", ta)], [T("slot")])]
    if k == 11:
        t = norm_attr(s) if s else " "
        return [("el", "title", [], [T(t)])]
    if k == 12:
        return [("el", "p", [], [T(tb)])]
    if k == 14:
        return [("el", "span", [("style", norm_attr(rust_trim("color:" + s + ";")))], [T("x")])]
    if k == 15:
        return [("el", "span", [("style", norm_attr(rust_trim("background:" + s + ";")))], [T("x")])]
    if k == 16:
        # the order in which the macro applies class attributes is not this property's concern: class tokens
        toks = sorted(norm_attr(s).split() + ["plain", 't"<x', "a&b", 'c"d'])
        return [("el", "div", [("class", " ".join(toks))], [])]
    if k == 17:
        return [("el", "section", [("lang", "en"), ("title", ta), ("data-w", ta), ("class", norm_attr(rust_trim(" " + s)))],
                 [T("x")])]
    if k == 18:
        return [("el", "div", [("title", ta), ("data-k", ta)], [T("x")])]
    if k == 19:
        return [T("a<b"), T(tb), ("el", "p", [], [T("x")])]
    # svg subtrees: style / script / text are foreign elements (NUL -> U+FFFD), title / desc HTML integration points
    tf = norm_attr(s) if s else " "
    if k == 20:
        return [("el", "svg", [], [("el", "style", [], [T(tf)])])]
    if k == 21:
        return [("el", "div", [], [("el", "svg", [("viewbox", "0 0 1 1")],
                [("el", "script", [], [T(tf)]), ("el", "title", [], [T(tb)]), ("el", "text", [("x", "1")], [T(tf)]),
                 ("el", "style", [], [T("a{}"), T(tf)])])])]
    if k == 23:
        return [("el", "math", [], [("el", "style", [], [T(tf)]), ("el", "mi", [], [T(tb)])])]
    if k == 22:
        return [("el", "svg", [], [("el", "a", [("href", ta)], [("el", "text", [], [T(tf)])]), ("el", "desc", [], [T(tb)]),
                                   ("el", "g", [("class", "c")], [("el", "text", [], [T("k")])])])]
    # k == 13: scope class; the top-level element goes through the builder (trimmed), the nested
    # ones are inlined by the macro (scope class, then the element's own class)
    return [("el", "div", [("class", norm_attr(rust_trim(" " + s)))],
             [("el", "p", [("class", ta)], [T("static child")]),
              ("el", "span", [("class", norm_attr(s + " own"))], [T("x")]), T("1")])]


def document_expect(case):
    title, metas, link, lang, cls, body = case[1:7]
    shell = case[7] if len(case) > 7 else [0, 0, 0]
    head = [("el", "meta", [("charset", "utf-8")], [])]
    static = ("el", "title", [], [("text", "My App")])
    # the shell's own title stays what it is; the <Title/> text becomes a title element where
    # <MetaTags/> put its marker, else at the end of <head> before the other tags
    if shell[1] == 1 or (shell[1] == 2 and shell[0]):
        head.append(static)
    if title:
        t = norm_attr(s_of(title[0]))
        head.append(("el", "title", [], [("text", t)] if t else []))
    if shell[1] == 2 and not shell[0]:
        head.append(static)
    for n, c in metas:
        head.append(("el", "meta", [("name", norm_attr(s_of(n))), ("content", norm_attr(s_of(c)))], []))
    if link:
        head.append(("el", "link", [("href", norm_attr(s_of(link[0]))), ("rel", "canonical")], []))
    html_attrs = [("lang", norm_attr(s_of(lang[0])))] if lang else []
    body_attrs = [("class", norm_attr(rust_trim(" " + s_of(cls[0]))))] if cls else []
    body_nodes = exp_nodes([body])
    return [("doctype", "html"),
            ("el", "html", html_attrs, [("el", "head", [], head), ("el", "body", body_attrs, body_nodes)])]


# ----------------------------------------------------------------------------- known finding F-C06-b
def rawtext_breakouts(v):
    """script/style elements of the view whose text children contain something that ends or
    derails the raw-text context"""
    out = []
    if v[0] in (5, 8):
        return rawtext_breakouts(v[2])
    if v[0] != 2:
        return out                      # (nothing is raw text inside an svg subtree)
    if v[1] in RAW:
        raw = (raw_content(v[3]) or "").lower()
        tag = TAGS[v[1]]
        if "</" + tag in raw or (tag == "script" and "<!--" in raw):
            out.append(tag)
    for k in v[3]:
        out += rawtext_breakouts(k)
    return out


def views_of(case):
    if case[0] == 1:
        return [case[1]]
    if case[0] == 3:
        return [case[6]]
    if case[0] in (5, 6):
        return [case[2]]
    if case[0] == 11:
        return [case[3]]
    return []


def has_element_in_text_only(v):
    if v[0] == 8:
        return has_element_in_text_only(v[2])
    if v[0] != 2:
        return False
    if (v[1] in RCDATA or v[1] in RAW) and any(k[0] == 2 for k in v[3]):
        return True
    return any(has_element_in_text_only(k) for k in v[3])


# ----------------------------------------------------------------------------- streamed documents with leptos_meta
def meta_nodes(v, late=False, out=None):
    """the leptos_meta components of a view in tree order, with whether they sit below a Suspend"""
    out = [] if out is None else out
    if v[0] == 6:
        out.append((late, v))
    elif v[0] == 8:
        meta_nodes(v[2], late, out)
    elif v[0] == 5:
        meta_nodes(v[2], True, out)
    elif v[0] == 2:
        for k in v[3]:
            meta_nodes(k, late, out)
    return out


def meta_expect(m):
    """("title", text) or the element the component stands for"""
    kind, var, strs = m[1], m[2], [s_of(x) for x in m[3]]
    if kind == 8:
        return LIT_META[var]
    st = lambda i: strs[i % len(strs)] if strs else ""
    if kind == 0:
        return ("title", st(0))
    name, names = META_ATTRS[(kind, var)]
    attrs = [(n, norm_attr(st(i))) for i, n in enumerate(names)]
    if kind == 3:
        attrs.append(("rel", "stylesheet"))
    if kind == 7:
        attrs[0] = ("class", norm_attr(rust_trim(st(0))))
    kids = []
    if (kind, var) in META_CHILD:
        t = norm_attr(st(META_CHILD[(kind, var)]))
        kids = [("text", t)] if t else []
    return ("el", name, attrs, kids)


def meta_breakouts(v):
    """<Script> / <Style> components whose raw-text child contains its own end tag (F-C06-b)"""
    out = []
    for _, m in meta_nodes(v):
        if (m[1], m[2]) in META_CHILD and m[3]:
            code = s_of(m[3][META_CHILD[(m[1], m[2])] % len(m[3])]).lower()
            tag = "script" if m[1] == 4 else "style"
            if "</" + tag in code or (tag == "script" and "<!--" in code):
                out.append(tag)
    return out


def drop_scripts(nodes):
    out = []
    for n in nodes:
        if n[0] == "el":
            if n[1] == "script":
                continue
            n = ("el", n[1], n[2], drop_scripts(n[3]))
        out.append(n)
    return out


def skeleton(nodes):
    """elements and attribute names only: what no data string may change"""
    return [("el", n[1], sorted(set(a for a, _ in n[2])), skeleton(n[3])) for n in nodes if n[0] == "el"]


def skeleton_diff(a, b, path="document"):
    for i in range(max(len(a), len(b))):
        if i >= len(a):
            return "%s: the data adds <%s>" % (path, b[i][1])
        if i >= len(b):
            return "%s: the data removes <%s>" % (path, a[i][1])
        x, y = a[i], b[i]
        if x[1] != y[1]:
            return "%s[%d]: <%s> becomes <%s>" % (path, i, x[1], y[1])
        if x[2] != y[2]:
            return "%s[%d] <%s>: attribute names %r become %r" % (path, i, x[1], x[2], y[2])
        d = skeleton_diff(x[3], y[3], "%s > %s[%d]" % (path, x[1], i))
        if d:
            return d
    return None


def oracle_metadoc(case, impl):
    try:
        html, neutral = (bytes(x).decode("utf-8") for x in impl)
    except Exception:
        return "harness output is not two UTF-8 documents"
    mode, view = case[1], case[2]
    doc, _ = H.parse_document(html)
    doc_skeleton = skeleton(doc[1])       # (the out-of-order emulation below works in place)
    top = [n for n in doc[1] if n[0] != "comment"]
    if len(top) != 2 or top[0] != ("doctype", "html") or top[1][0] != "el" or top[1][1] != "html":
        return "document does not parse to doctype + html"
    root = top[1]
    kids = [n for n in root[3] if n[0] != "comment"]
    if [n[1] for n in kids if n[0] == "el"] != ["head", "body"] or len(kids) != 2:
        return "html element does not consist of head and body: " + H.serialize(kids)[:200]
    head, body = kids
    metas = meta_nodes(view)
    exp = [(late, meta_expect(m), m) for late, m in metas]
    # <html> and <body> attributes: those of the component, if it was rendered with the first chunk
    for el, kind in ((root, 6), (body, 7)):
        comps = [(late, e) for late, e, m in exp if m[1] == kind]
        want = sorted(comps[0][1][2]) if comps else []
        got = sorted(el[2])
        if got != want and not (comps and comps[0][0] and got == []):
            return "<%s> attributes differ: expected %r, parsed %r" % (el[1], want, got)
    # <head>: the shell's meta charset, the title, then what the components registered
    hk = canon(strip_comments(head[3]))
    if not hk or hk[0] != ("el", "meta", [("charset", "utf-8")], []):
        return "head does not start with the shell's <meta charset>: " + H.serialize(hk[:1])[:200]
    hk = hk[1:]
    # the text of the last <Title text/> registered in time, through the last formatter registered in time
    titles = [(late, e[1]) for late, e, m in exp if e[0] == "title" and not (m[1] == 0 and m[2] == 2)]
    formats = [""] + [s_of(m[3][1 % len(m[3])]) for late, e, m in exp if m[1] == 0 and m[2] in (1, 2)]
    sync_titles = [t for late, t in titles if not late]
    allowed = set(t for late, t in titles if late) | set(sync_titles[-1:])
    allowed = set(f + t for t in allowed for f in formats)
    if hk and hk[0][0] == "el" and hk[0][1] == "title":
        t = hk[0]
        hk = hk[1:]
        txt = "".join(n[1] for n in t[3] if n[0] == "text")
        if t[2] or any(n[0] != "text" for n in t[3]) or txt not in set(norm_attr(x) for x in allowed):
            return "document title differs: parsed %s, <Title> texts %r" % (H.serialize(t).strip()[:200], sorted(allowed))
    elif sync_titles:
        return "document title missing: expected %r" % sync_titles[-1]
    sync = [canon([e])[0] for late, e, m in exp if e[0] == "el" and not late and m[1] not in (6, 7)]
    late = [canon([e])[0] for late, e, m in exp if e[0] == "el" and late and m[1] not in (6, 7)]
    for n in hk:
        if sync and n == sync[0]:
            sync.pop(0)
        elif n in late:
            late.remove(n)
        else:
            return "head: parsed node %s is not what the next component registered (%s)" % (
                H.serialize(n).strip()[:200], H.serialize(sync[0]).strip()[:200] if sync else "nothing left")
    if sync:
        return "head: missing %s" % H.serialize(sync[0]).strip()[:200]
    # <body>: exactly the view (scripts are the framework's: the view grammar here has none)
    nodes = body[3]
    if mode == 1:
        nodes, probs = H.apply_leptos_ooo(nodes)
        if probs:
            return "out-of-order stream: " + probs[0]
    got = merge_texts(canon(drop_scripts(strip_comments(nodes))))
    want = merge_texts(canon(exp_nodes([view])))
    d = first_diff(want, got)
    if d:
        return "parsed document body differs from the view: " + d
    # non-interference: the same case with letters for data has the same elements and attribute names
    ndoc, _ = H.parse_document(neutral)
    d = skeleton_diff(skeleton(ndoc[1]), doc_skeleton)
    if d:
        return "element structure depends on the data: " + d
    return None


# ----------------------------------------------------------------------------- oracle
def first_diff(a, b, path="body"):
    """human-readable first difference between two canonical node lists"""
    for i in range(max(len(a), len(b))):
        if i >= len(a):
            return "%s: unexpected extra node %s" % (path, H.serialize(b[i]).strip()[:160])
        if i >= len(b):
            return "%s: missing node %s" % (path, H.serialize(a[i]).strip()[:160])
        x, y = a[i], b[i]
        if x[0] != y[0]:
            return "%s[%d]: expected %s, parsed %s" % (path, i, H.serialize(x).strip()[:120], H.serialize(y).strip()[:120])
        if x[0] == "el":
            if x[1] != y[1]:
                return "%s[%d]: expected <%s>, parsed <%s>" % (path, i, x[1], y[1])
            if x[2] != y[2]:
                return "%s[%d] <%s>: attributes differ: expected %r, parsed %r" % (path, i, x[1], x[2], y[2])
            d = first_diff(x[3], y[3], "%s > %s[%d]" % (path, x[1], i))
            if d:
                return d
        elif x != y:
            return "%s[%d]: expected %r, parsed %r" % (path, i, x[1][:120], y[1][:120])
    return None


def oracle(item, impl):
    case = item["case"]
    if isinstance(impl, str):
        return "harness error / panic: " + impl
    if case[0] == 6:
        return oracle_metadoc(case, impl)
    try:
        html = bytes(impl).decode("utf-8")
    except UnicodeDecodeError:
        return "output is not valid UTF-8"
    op = case[0]
    if op == 3:
        doc, notes = H.parse_document(html)
        got = canon(strip_comments(doc[1]))
        want = canon(document_expect(case))
        d = first_diff(want, got, "document")
        return ("parsed document differs from the view: " + d) if d else None
    nodes, notes = H.parse_fragment(html)
    if op == 5:
        if case[1] & 1:
            nodes, probs = H.apply_leptos_ooo(nodes)
            if probs:
                return "out-of-order stream: " + probs[0]
        got = merge_texts(canon(strip_comments(nodes)))
        want = merge_texts(canon(exp_nodes([case[2]])))
        d = first_diff(want, got)
        return ("parsed stream differs from the view: " + d) if d else None
    got = canon(strip_comments(nodes))
    if op == 1:
        want = canon(exp_nodes([case[1]]))
        if has_svg(case[1]):
            # (the <!> between text siblings is C05 / C07's concern)
            want, got = merge_texts(want), merge_texts(got)
    elif op == 2:
        want = canon(STATIC_EXPECT[case[1]])
        if case[1] in STATIC_UNSPACED:
            got = unspaced(merge_texts(got))
    elif op == 4:
        want = template_expect(case[1], s_of(case[2]))
        if want is None:
            return None
        want = canon(want)
        if case[1] == 23:
            # (the placeholder for an empty text is not this property's concern)
            def noblank(ns):
                return [("el", n[1], n[2], noblank(n[3])) if n[0] == "el" else n for n in ns if n != ("text", " ")]
            want, got = noblank(want), noblank(got)
        if case[1] == 16:
            got = [("el", n[1], [(a, " ".join(sorted(v.split())) if a == "class" else v) for a, v in n[2]], n[3])
                   if n[0] == "el" else n for n in got]
    elif op == 9:
        want = canon(keyed_expect(case[3]))
    elif op == 11:
        d = island_problem(case, got)
        return ("parsed HTML differs from the view: " + d) if d else None
    elif op == 10:
        want = style_unterminated(canon(attr_grid_expect(case[1], case[2], s_of(case[3]))))
        got = style_unterminated(got)
    elif op == 8:
        # text siblings: separated by <!> on the builder path, one text when inlined (C05/C07's concern)
        want = merge_texts(canon(grid_expect(case[1], case[2], s_of(case[3]))))
        got = merge_texts(got)
    else:
        return None
    d = first_diff(want, got)
    return ("parsed HTML differs from the view: " + d) if d else None


def classify(item, impl, model):
    case = item["case"]
    for v in views_of(case):
        if rawtext_breakouts(v) or meta_breakouts(v):
            return "F-C06-b"
    if case[0] == 8 and grid_breakout(case[1], case[2]):
        return "F-C06-b"
    if case[0] == 4 and case[1] == 23 and any(c in s_of(case[2]) for c in "<&"):
        return "F-C06-j"
    return None


class _Strict:
    """the strings of a case are lists of bytes: `bytes(3)` is three NULs, not an error, so a
    shrinking candidate with a number in a string's place must not pass for a string"""
    def __call__(self, x):
        if not isinstance(x, list) or any(not isinstance(c, int) or not 0 <= c < 256 for c in x):
            raise ValueError("not a string")
        return _py_bytes(x)


_py_bytes = bytes


def valid_case(item):
    case = item["case"]
    bytes = _Strict()
    try:
        op = case[0]
        if op == 2:
            return len(case) == 2 and 0 <= case[1] < N_STATIC
        if op == 4:
            bytes(case[2]).decode("utf-8")
            return len(case) == 3 and 0 <= case[1] < N_TEMPLATES
        if op == 9:
            for r in case[3]:
                bytes(r).decode("utf-8")
            return len(case) == 4 and case[1] in (0, 1, 2) and case[2] in (0, 1, 2)
        if op == 11:
            bytes(case[2]).decode("utf-8")
            return (len(case) == 4 and case[1] in range(6) and valid_view(case[3]) and not has_suspend(case[3])
                    and not meta_nodes(case[3]))
        if op == 10:
            bytes(case[3]).decode("utf-8")
            return (len(case) == 4 and all(isinstance(x, int) for x in case[1:3])
                    and 0 <= case[1] < len(ATTR_FORMS) and 0 <= case[2] < len(ATTR_POSITIONS))
        if op == 8:
            bytes(case[3]).decode("utf-8")
            return (len(case) == 4 and all(isinstance(x, int) for x in case[1:3])
                    and 0 <= case[1] < len(GRID_CHILDREN) and 0 <= case[2] < len(GRID_POSITIONS))
        if op == 3:
            if len(case) not in (7, 8):
                return False
            if len(case) == 8:
                sh = case[7]
                if not (isinstance(sh, list) and len(sh) == 3 and sh[0] in (0, 1) and sh[1] in (0, 1, 2)
                        and isinstance(sh[2], int) and 0 <= sh[2] <= 1000):
                    return False
            for o in (case[1], case[3], case[4], case[5]):
                if len(o) > 1:
                    return False
                for s in o:
                    bytes(s).decode("utf-8")
            for m in case[2]:
                if len(m) != 2:
                    return False
                bytes(m[0]).decode("utf-8")
                bytes(m[1]).decode("utf-8")
            return valid_view(case[6]) and not has_suspend(case[6]) and not meta_nodes(case[6])
        if op == 1:
            return len(case) == 2 and valid_view(case[1]) and not has_suspend(case[1]) and not meta_nodes(case[1])
        if op == 6:
            ms = [m for _, m in meta_nodes(case[2])] if valid_view(case[2]) else None
            return (ms is not None and len(case) == 4 and case[1] in (0, 1)
                    and not has_meta_in_text_only(case[2])
                    and sum(1 for m in ms if m[1] == 6) <= 1 and sum(1 for m in ms if m[1] == 7) <= 1
                    and not has_tag(case[2], (7, 8, 9)) and not has_svg(case[2])
                    and not (case[1] == 1 and suspend_in_raw(case[2]))
                    and all(isinstance(k, int) and -1 <= k < 16 for k in case[3]))
        if op == 5:
            return (len(case) == 4 and case[1] in (0, 1, 2, 3) and valid_view(case[2]) and not meta_nodes(case[2])
                    and not (case[1] & 1 and suspend_in_raw(case[2]))
                    and not (case[1] & 2 and has_tag(case[2], (6, 7, 8, 9)))
                    and all(isinstance(k, int) and -1 <= k < 16 for k in case[3]))
        return False
    except Exception:
        return False


def valid_view(v, in_text_only=False):
    bytes = _Strict()
    k = v[0]
    if k == 5:
        return len(v) == 3 and isinstance(v[1], int) and 0 <= v[1] < 16 and valid_view(v[2])
    if k == 0:
        bytes(v[1]).decode("utf-8")
        return len(v) == 2 or (len(v) == 3 and isinstance(v[2], int) and 0 <= v[2] < N_TEXT_TYPES)
    if k == 1:
        return len(v) == 2 and (0 <= v[1] < 0xD800 or 0xE000 <= v[1] <= 0x10FFFF)
    if k == 3:
        return len(v) == 2 and -(2 ** 63) <= v[1] < 2 ** 63
    if k == 4:
        return len(v) == 1
    if k == 9:
        if len(v) != 4 or not isinstance(v[1], int) or not 0 <= v[1] < len(SVG_TAGS) or not isinstance(v[3], list):
            return False
        if (not in_text_only) != (v[1] == 0):
            return False                # the root is <svg>, and only the root (in_text_only: "inside svg")
        if not valid_view([2, 0, v[2], []]) or any(a[0] == 8 for a in v[2]):
            return False
        for c in v[3]:
            inner = c[2] if c[0] == 5 else c
            if c[0] == 5 and not (len(c) == 3 and isinstance(c[1], int) and 0 <= c[1] < 16):
                return False
            if inner[0] == 9:
                if v[1] in SVG_TEXT_ONLY or not valid_view(inner, True):
                    return False
            elif inner[0] not in (0, 1, 3, 7) or not valid_view(inner):
                return False
            elif inner[0] == 0 and not inner[1]:
                return False            # (the placeholder for an empty text is not this property's concern)
        return True
    if k == 7:
        return (len(v) == 3 and isinstance(v[1], int) and 0 <= v[1] < N_PRIMS and isinstance(v[2], int)
                and -(2 ** 62) <= v[2] < 2 ** 62
                and (v[1] != 19 or 0 <= v[2] < 0xD800 or 0xE000 <= v[2] <= 0x10FFFF))
    if k == 8:
        if len(v) != 3 or not isinstance(v[1], list) or not v[1] or v[2][0] != 2 or not valid_view(v[2]):
            return False
        seen = ["id"] if any(a[0] == 6 for a in v[2][2]) else []
        for a in v[1]:
            if a[0] == 0 and len(a) in (3, 4):
                n = s_of(a[1])
                bytes(a[2]).decode("utf-8")
                if n not in OUTER_NAMES or n in seen or (len(a) == 4 and not (isinstance(a[3], int) and 0 <= a[3] < N_ATTR_TYPES)):
                    return False
                seen.append(n)
            elif a[0] == 6 and len(a) in (2, 3):
                bytes(a[1]).decode("utf-8")
                if "id" in seen or (len(a) == 3 and not (isinstance(a[2], int) and 0 <= a[2] < N_ATTR_TYPES)):
                    return False
                seen.append("id")
            else:
                return False
        return True
    if k == 6:
        if len(v) != 5 or not isinstance(v[3], list) or not isinstance(v[4], int) or not 0 <= v[4] < 6:
            return False
        for x in v[3]:
            bytes(x).decode("utf-8")
        if v[1] == 8:
            return isinstance(v[2], int) and 0 <= v[2] < len(LIT_META) and v[3] == []
        return (v[1] == 0 and v[2] in (0, 1, 2) or (v[1], v[2]) in META_ATTRS) and len(v[3]) >= 1
    if k != 2 or len(v) != 4 or not (0 <= v[1] < len(TAGS)):
        return False
    names = []
    limits = {0: (3, [N_ATTR_TYPES]), 1: (3, [N_BOOL_TYPES]), 2: (2, [N_CLASS_TYPES]), 3: (3, [N_TOGGLE_TYPES]),
              4: (2, [N_STYLE_TYPES]), 5: (3, [N_PROP_TYPES, N_PROP_KEY_TYPES]), 6: (2, [N_ATTR_TYPES])}
    for a in v[2]:
        if a[0] == 7:
            n = s_of(a[1])
            if (len(a) != 4 or n in names or n in ("class", "style", "id") or not n or n != n.lower()
                    or any(c in n for c in " \t\n\r\f\"'>/=<&\0") or not valid_view([7, a[2], a[3]])):
                return False
            names.append(n)
            continue
        if a[0] == 8:
            if (len(a) != 3 or not all(isinstance(x, int) for x in a[1:]) or not 0 <= a[1] < len(SNIPPET_TREES)
                    or not 0 <= a[2] < N_INNER_TYPES or v[3] or v[1] not in (0, 1, 2)
                    or sum(1 for x in v[2] if x[0] == 8) != 1):
                return False
            continue
        if a[0] not in limits:
            return False
        base, lims = limits[a[0]]
        extra = a[base:]
        if len(a) < base or len(extra) > len(lims) or any(not isinstance(x, int) or not 0 <= x < l for x, l in zip(extra, lims)):
            return False
        if a[0] in (0, 1):
            n = s_of(a[1])
            if n in names or n in ("class", "style", "id") or not n or any(c in n for c in " \t\n\r\f\"'>/=<&\0") or n != n.lower():
                return False
            names.append(n)
            if a[0] == 0:
                bytes(a[2]).decode("utf-8")
            elif a[2] not in (0, 1):
                return False
        elif a[0] in (2, 4, 6):
            bytes(a[1]).decode("utf-8")
            if a[0] == 6:
                if "id" in names:
                    return False
                names.append("id")
        elif a[0] == 3:
            bytes(a[1]).decode("utf-8")
            if a[2] not in (0, 1):
                return False
        elif a[0] == 5:
            bytes(a[1]).decode("utf-8")
            bytes(a[2]).decode("utf-8")
        else:
            return False
    if v[1] in VOID and v[3]:
        return False
    if v[1] == 7 and len(v[3]) > 1:
        return False
    if v[1] in RCDATA or v[1] in RAW:
        if any(k[0] in (2, 4, 6, 8) or (k[0] == 5 and k[2][0] in (2, 4, 5, 6, 8)) for k in v[3]):
            return False
        if v[1] == 6 and (raw_content(v[3]) or "")[:1] in ("\n", "\r"):
            return False
    return all(valid_view(k) for k in v[3])


SPECIAL_BYTES = set(b"<>&\"'\0\r")


def nontrivial(item, model):
    case = item["case"]
    flat = _flat(case)
    return any(x in SPECIAL_BYTES for x in flat[1:])


def _flat(v):
    if isinstance(v, int):
        return [v]
    out = []
    for x in v:
        out += _flat(x)
    return out


def suspend_in_raw(v):
    if v[0] in (5, 8):
        return suspend_in_raw(v[2])
    if v[0] == 9:
        # an out-of-order chunk arrives in a <template>, whose content is parsed as HTML: svg elements
        # delivered that way are HTML elements (script / style raw text again), whatever the data — asynchronous
        # children of svg subtrees are streamed in order only
        return any(k[0] == 5 or suspend_in_raw(k) for k in v[3])
    if v[0] != 2:
        return False
    if (v[1] in RAW or v[1] in RCDATA) and any(k[0] == 5 for k in v[3]):
        return True
    return any(suspend_in_raw(k) for k in v[3])


def has_suspend(v):
    if v[0] == 5:
        return True
    if v[0] == 8:
        return has_suspend(v[2])
    return v[0] in (2, 9) and any(has_suspend(k) for k in v[3])


def has_svg(v):
    if v[0] == 9:
        return True
    if v[0] in (5, 8):
        return has_svg(v[2])
    return v[0] == 2 and any(has_svg(k) for k in v[3])


def has_tag(v, tags):
    if v[0] in (5, 8):
        return has_tag(v[2], tags)
    return v[0] == 2 and (v[1] in tags or any(has_tag(k, tags) for k in v[3]))


def has_meta_in_text_only(v, inside=False):
    if v[0] == 6:
        return inside
    if v[0] in (5, 8):
        return has_meta_in_text_only(v[2], inside)
    if v[0] != 2:
        return False
    t = v[1] in RCDATA or v[1] in RAW or v[1] in VOID
    return any(has_meta_in_text_only(k, inside or t) for k in v[3])


META_KINDS = ["Title", "Meta", "Link", "Stylesheet", "Script", "Style", "Html", "Body", "literal"]


def show_view(v):
    if v[0] == 5:
        return "Suspend#%d(%s)" % (v[1], show_view(v[2]))
    if v[0] == 0:
        return repr(s_of(v[1]))
    if v[0] == 1:
        return "char(%r)" % chr(v[1])
    if v[0] == 3:
        return str(v[1])
    if v[0] == 4:
        return "()"
    if v[0] == 9:
        d = show_view([2, 0, v[2], v[3]])
        return "<svg::%s%s" % (SVG_TAGS[v[1]], d[len("<div"):])
    if v[0] == 7:
        return "prim#%d(%r)" % (v[1], prim_text(v[1], v[2]))
    if v[0] == 8:
        return "add_any_attr[%s](%s)" % (" ".join(("id=%r" % s_of(a[1])) if a[0] == 6 else "%s=%r" % (s_of(a[1]), s_of(a[2]))
                                                    for a in v[1]), show_view(v[2]))
    if v[0] == 6:
        if v[1] == 8:
            return "<literal #%d %s>" % (v[2], H.serialize(LIT_META[v[2]]).strip() if LIT_META[v[2]][0] == "el" else LIT_META[v[2]])
        if v[1] == 0:
            return "<Title%s%s rep %d/>" % ("" if v[2] == 2 else " text=%r" % s_of(v[3][0]),
                                           " formatter=|t| %r+t" % s_of(v[3][1 % len(v[3])]) if v[2] else "", v[4])
        name, names = META_ATTRS[(v[1], v[2])]
        strs = [s_of(x) for x in v[3]]
        props = " ".join("%s=%r" % (n, strs[i % len(strs)]) for i, n in enumerate(names))
        kid = (" child %r" % strs[META_CHILD[(v[1], v[2])] % len(strs)]) if (v[1], v[2]) in META_CHILD else ""
        return "<%s %s%s rep %d/>" % (META_KINDS[v[1]], props, kid, v[4])
    at = []
    for a in v[2]:
        if a[0] == 0:
            at.append("%s=%r" % (s_of(a[1]), s_of(a[2])))
        elif a[0] == 1:
            at.append("%s=%s" % (s_of(a[1]), bool(a[2])))
        elif a[0] == 2:
            at.append("class=%r" % s_of(a[1]))
        elif a[0] == 3:
            at.append("class:%r=%s" % (s_of(a[1]), bool(a[2])))
        elif a[0] == 4:
            at.append("style=%r" % s_of(a[1]))
        elif a[0] == 5:
            at.append("style:%s=%r" % (s_of(a[1]), s_of(a[2])))
        elif a[0] == 7:
            at.append("%s=prim#%d(%r)" % (s_of(a[1]), a[2], prim_text(a[2], a[3])))
        elif a[0] == 8:
            at.append("inner_html=snippet#%d" % a[1])
        else:
            at.append("id=%r" % s_of(a[1]))
    return "<%s %s>[%s]" % (TAGS[v[1]], " ".join(at), ", ".join(show_view(k) for k in v[3]))


def describe(it):
    case = it["case"]
    try:
        if case[0] == 1:
            return "to_html of " + show_view(case[1])
        if case[0] == 2:
            return "static view! #%d" % case[1]
        if case[0] == 4:
            return "view! template #%d with %r" % (case[1], s_of(case[2]))
        if case[0] == 11:
            return "%s of an island with the props {label: %r} and the children %s" % (
                ["to_html", "in-order stream", "out-of-order stream"][case[1] % 3],
                s_of(case[2]) if case[1] < 3 else "(none; the span shows %r)" % s_of(case[2]), show_view(case[3]))
        if case[0] == 10:
            return "view! { %s } with A = %s%s" % (ATTR_POSITIONS[case[2]], ATTR_FORMS[case[1]][0].replace("A0", _A0).replace("A1", _A1),
                                                  (", s = %r" % s_of(case[3])) if case[2] in (3, 6) else "")
        if case[0] == 8:
            src = GRID_CHILDREN[case[1]][0].replace("L0", _L0).replace("L1", _L1).replace("L2", _L2).replace("L3", _L3)
            return "view! { %s } with C = %s%s" % (GRID_POSITIONS[case[2]], src,
                                                  (", s = %r" % s_of(case[3])) if case[2] in (4, 5) else "")
        if case[0] == 5:
            return "%s stream%s, schedule %r, of %s" % ("out-of-order" if case[1] & 1 else "in-order",
                                                        " with branch markers" if case[1] & 2 else "", case[3], show_view(case[2]))
        if case[0] == 9:
            return "%s of a keyed list (%s) with the rows %r" % (
                ["to_html_branching", "in-order branching stream", "out-of-order branching stream"][case[1]],
                ["String key", "(String, usize) key", "leptos <For/>"][case[2]], [s_of(x) for x in case[3]])
        if case[0] == 6:
            return "document with leptos_meta through inject_meta_context, %s stream, schedule %r (k: future k completes, -1: poll), body %s" % (
                "out-of-order" if case[1] else "in-order", case[3], show_view(case[2]))
        if case[0] == 3:
            return "document title=%r metas=%r link=%r lang=%r body-class=%r body=%s" % (
                [s_of(x) for x in case[1]], [(s_of(n), s_of(c)) for n, c in case[2]], [s_of(x) for x in case[3]],
                [s_of(x) for x in case[4]], [s_of(x) for x in case[5]], show_view(case[6])) + (" shell(no-marker, own-title, split)=%r" % (case[7],) if len(case) > 7 else "")
    except Exception:
        pass
    return None


def coverage_extra(results):
    pos = {}
    for r in results:
        case = r["item"]["case"]
        for v in views_of(case):
            _count(v, pos)
        if case[0] == 6:
            for late, m in meta_nodes(case[2]):
                key = "%s%s component" % ("late " if late else "", META_KINDS[m[1]])
                pos[key] = pos.get(key, 0) + 1
        if case[0] == 11:
            pos["island props"] = pos.get("island props", 0) + 1
        if case[0] == 9:
            pos["keyed list key"] = pos.get("keyed list key", 0) + len(case[3])
        if case[0] == 8:
            pos["view! child form x position"] = pos.get("view! child form x position", 0) + 1
        if case[0] == 10:
            pos["view! literal attribute form x position"] = pos.get("view! literal attribute form x position", 0) + 1
        if case[0] == 3:
            pos["document title"] = pos.get("document title", 0) + len(case[1])
            pos["meta content"] = pos.get("meta content", 0) + len(case[2])
            pos["link href"] = pos.get("link href", 0) + len(case[3])
            pos["html lang"] = pos.get("html lang", 0) + len(case[4])
            pos["body class"] = pos.get("body class", 0) + len(case[5])
    return {"string_positions_exercised": pos, "coq_parser_vs_reference_parser": parser_agreement(results)}


def _py_nodes(ns):
    out = []
    for n in ns:
        if n[0] == "text":
            out.append([0, list(n[1].encode("utf-8"))])
        elif n[0] == "comment":
            out.append([1, list(n[1].encode("utf-8"))])
        elif n[0] == "el":
            out.append([2, list(n[1].encode("utf-8")),
                        [[list(a.encode("utf-8")), list(v.encode("utf-8"))] for a, v in n[2]], _py_nodes(n[3])])
    return out


def parser_agreement(results, limit=4000):
    """cross-check of the two parsers on the real outputs: the partial parser of the theorems
    (Html/Tokenizer.v, run through the extracted model, op 5) against gen/htmlparse.py. Where
    the Coq parser answers (it declines what is outside its subset) the trees must be equal."""
    import os
    exe = os.path.join(C.BUILD, "extract", "model_C06")
    outs = [r["impl"] for r in results if r["item"]["case"][0] == 1 and isinstance(r["impl"], list)][:limit]
    if not outs or not os.path.exists(exe):
        return {"compared": 0}
    lines, _, _ = C.run_sharded([exe], [[5, o] for o in outs])
    agree = declined = disagree = 0
    first = None
    for o, l in zip(outs, lines):
        r = C.parse_sx(l)
        if isinstance(r, str) or r == []:
            declined += 1
            continue
        py, _ = H.parse_fragment(bytes(o).decode("utf-8"))
        if r[0] == _py_nodes(py):
            agree += 1
        else:
            disagree += 1
            first = first or bytes(o).decode("utf-8")[:300]
    out = {"compared": len(outs), "equal_trees": agree, "coq_parser_declined": declined, "different_trees": disagree}
    if first:
        out["first_difference_on"] = first
    return out


def _count(v, pos, parent="ordinary"):
    if v[0] == 8:
        pos["attribute added from outside (add_any_attr)"] = pos.get("attribute added from outside (add_any_attr)", 0) + len(v[1])
        return _count(v[2], pos, parent)
    if v[0] == 9:
        for a in v[2]:
            pos["attribute of an svg element"] = pos.get("attribute of an svg element", 0) + 1
        for k in v[3]:
            _count(k[2] if k[0] == 5 else k, pos, "svg " + SVG_TAGS[v[1]])
        return
    names = {0: "text child", 1: "char child", 3: "number child", 7: "primitive child"}
    if v[0] in names:
        key = "%s in %s element" % (names[v[0]], parent)
        pos[key] = pos.get(key, 0) + 1
        return
    if v[0] != 2:
        return
    an = {0: "attribute value", 2: "class", 3: "class toggle name", 4: "style", 5: "style property value", 6: "id",
          7: "primitive attribute value", 8: "inner_html (fixed snippets)"}
    for a in v[2]:
        if a[0] in an:
            pos[an[a[0]]] = pos.get(an[a[0]], 0) + 1
    kind = TAGS[v[1]] if (v[1] in RCDATA or v[1] in RAW) else "ordinary"
    for k in v[3]:
        _count(k, pos, kind)


LEVEL_TEXT = ("Coq proofs, for all byte strings, that text escaped by encode_text and attribute values escaped by "
              "encode_double_quoted_attribute are read back by the HTML tokenizer as exactly the string (modulo HTML's own "
              "NUL / CR rules), contain no markup character, and that for every view of the grammar (ordinary, void, "
              "RCDATA and raw-text elements; text, char, number and unit children; string / boolean / id attributes, "
              "class, class toggles, style, style properties; document title and meta content) the rendered HTML parses "
              "to exactly the tree of the view \u2014 except for script/style children that contain their own end tag "
              "(open finding F-C06-b, refuted with a witness) \u2014 about an executable Gallina transcription of tachys' "
              "to_html and leptos_meta's injection; tied to /repo by running that model (extracted) and the real renderer "
              "on the same thousands of generated views and documents every run, plus an independent Python WHATWG "
              "tokenizer/tree builder as oracle, which also judges macro-inlined literals and view! templates.")
LEVEL_NOTE = ("Trusted: Coq kernel, extraction + OCaml driver, the Rust harness. Modelled, not verified: html_escape, "
              "str::trim's whitespace set, the subset of the WHATWG parsing algorithm transcribed in Html/Tokenizer.v "
              "(partial: answers None outside the subset; proved total on rendered views). Not modelled (oracle only): the "
              "view! macro's inert and builder code paths. No axioms.")
TECHNIQUE = "Coq proof (induction over strings and views) + differential correspondence of the extracted model with the Rust code"
