"""C02 — effects converge to the current state under every task schedule."""
import itertools
from . import common as C
from . import rxlib as X

PID = "C02"
PROPS_V = "theories/Props/Properties_C02.v"
MODEL_NAME = "Reactive/Effects.v"
HARNESS = "rx"
HARNESS_ARGS = ["c02"]
ALLOWED_AXIOMS = []
RUN_IMPORT = "Reactive.GraphRun"
READY = True
SHRINK_PREFIX = 1
IMPL_TIMEOUT = 1200
describe = X.describe

RULE = ("programs of 3-11 nodes with 1-4 effects of every kind (Effect::new, RenderEffect, watch +-immediate, "
        "Effect::new_isomorphic; a separate ImmediateEffect stream that is checked by the oracle only) over signals of every "
        "flavour, memos (equality / always-changed / parity compare), derived signals and wrappers; about a third of the effects write signals (never one that an effect of smaller-or-equal index may "
        "read, so every history reaches idle; a small 'selfwrite' family of guarded self-feeding effects is kept for F-C02-d). "
        "Histories interleave set / notify / read with executor steps (poll the k-th ready task, run to idle) and pause / "
        "resume / dispose of effect owners and, in some cases, disposal of an arena signal / memo that effects read. "
        "In 40 % of the random programs, and in a stream of its own (2-5 effects, chains of depth 3 and more, siblings), the owners "
        "of the effects form a static TREE (an effect's owner is created under the owner of an earlier effect) and pause / resume / "
        "dispose are addressed to any owner of the tree in any order (pause an inner owner, resume an ancestor, ...). A selector "
        "stream builds 1-2 Selector::new / new_with_fn (comparators ==, same bucket of ten, value >= key) over signals / memos / "
        "another selector, with 1-4 keys each, read through selected(key) by effects of every kind and by memos. A 'nested' stream "
        "(oracle only) has effects whose bodies create effects (depth up to 2) and memos at run time. For small programs (2-3 effects, 2 writes) every schedule of up to 2 polls between "
        "the operations is enumerated; beyond that schedules are seeded-random. Every case runs under a 4 s watchdog. "
        "Since the anchor coverage audit half of the cases of every stream carry API VARIANTS on their nodes (fields the model's decoder does not read, so the traces are still compared with the model): every signal / memo / wrapper is read through one of get, with, *read(), track() + get_untracked(), try_get (and the untracked siblings); every signal is written through one of set, update, maybe_update(true), a write() guard, try_set, try_update, a SignalSetter (from(WriteSignal) / from(RwSignal) / map), update_untracked + notify, a MappedSignal / ArcMappedSignal view, write_untracked + notify (and notified through notify(), an untouched write guard or update(|_| {})); memos are built with new / new_with_compare, new_owning (the body returns the changed flag) or as the other handle type and converted; derived signals also as MaybeSignal::derive, MaybeProp (from / derive), Signal<Option<T>>::from, Signal::from(MaybeSignal), derive_local / stored_local / Signal<_, LocalStorage>::from, From<T>; effects also as Effect::new_sync, Effect::watch_sync, RenderEffect::new_isomorphic / new_with_value, ImmediateEffect::new_isomorphic / new_scoped / new_mut; an effect is also disposed through Dispose::dispose / Effect::stop on its handle; a case flag makes the executor hand out a NEW waker on every poll (older wakers are dead) and another one switches untrack to untrack_with_diagnostics. A 'wide' family puts 17-24 effects under ONE owner that the history pauses / resumes / disposes; an 'adopt' family (oracle only) creates Effect::new / watch / new_isomorphic effects in the middle of the history under the owner of an existing effect, which may be paused at that moment (op (10 e k)); a 'silent' family (oracle only) interleaves operations that are not writes. "
        "A 'selfwrite-direct' family has effects / watch handlers that write a signal their own body / dependency fn reads directly (or through a memo "
        "that is not pulled again afterwards), guarded so that they stop (clamp, count-up, normalise); 'selfwrite-imm' does the same with "
        "ImmediateEffects (which recurse); some effect bodies register on_cleanup callbacks that read signals ((10 j)). "
        "In a third of the 'nested' cases the nesting is three levels deep and the effects hand a clone of Owner::current() to the outside ((11); the "
        "harness keeps the handles until the case ends). "
        "Non-trivial = some effect ran at least twice; distinct = distinct case hash.")
TRUSTED = [
    "Coq 8.16.1 kernel (coqc); no axioms: every theorem of Properties_C02.v is 'Closed under the global context'",
    "extraction to OCaml with ExtrOcamlBasic only, ocamlfind ocamlopt 4.13.1, extract/driver.ml sexp I/O",
    "harness/rx (Rust): real reactive_graph objects; harness-owned executor installed with any_spawner::Executor::"
    "init_local_custom_executor (explicit run queue in wake order; the case's schedule picks the task to poll); every "
    "effect is created under its own child owner (pause / resume / cleanup act on that owner); that owner is a child of the "
    "root or of the owner of an earlier effect (static tree); dispose = drop the RenderEffect handles of the subtree, then "
    "Owner::cleanup on its root",
    "selectors: the real Selector walks its key map in FxHashMap order, which is not modelled; the harness-owned executor "
    "queues the tasks woken during one poll of a selector's internal effect in index order, and so does the model "
    "(Effects.canon_wakes). The Coq model of a Selector is a program transformation (GraphRun.v: value cell, previous-value "
    "cell, one trigger per key, internal RenderEffect); reads of the two cells are left out of the compared trace. "
    "COMPARED, NOT PROVED: the transformed internal effect reads and writes its own cells, so programs with selectors lie in "
    "the static class self_feeding that C02_idle_converged_except_known excludes; for them idle convergence rests on the "
    "trace comparison with the model and on the Python oracle (an effect's last run saw the current truth value of every "
    "selected(key) it read), not on the theorem. The other theorems (no glitch, paused / disposed never run, wake order, "
    "owner tree) do not need that hypothesis",
    "modelled, not verified: futures::task::AtomicWaker (register stores the waker, wake takes it), the one-slot channel, "
    "Arc/Weak liveness of EffectInner (dropped when its owner is cleaned up / the RenderEffect handle is dropped), RwLock "
    "semantics on one thread; the lock layer itself (F-C02-b) is observed by the watchdog, not modelled",
    "ImmediateEffect is not part of the Coq model: its cases are checked by the watchdog and the Python oracle only",
    "API variants (coverage/C01.md, C09.md, C02.md): the variant fields of a case are ignored by the model's decoder (GraphRun.dec_decl / dec_op read the fields before them), so the model runs the construct each variant must be equivalent to (get for every read path, set for every write path, Effect::new for new_sync, Effect::watch for watch_sync, RenderEffect::new for new_isomorphic / new_with_value, owner cleanup for Dispose::dispose / Effect::stop); that equivalence is COMPARED (trace equality on every run) and judged by the Python oracle, NOT PROVED: the theorems speak about the modelled constructs",
]
ASSUMPTIONS = [
    "one poll of a task is atomic (single thread)",
    "the Coq model has static graphs: effects creating nested effects / memos at run time ('nested' family: templates "
    "instantiated by the body that evaluates (9 k), under the current owner, re-created by every run of their creator, disposed "
    "by the creator's next run or with its owner; RenderEffect handles are kept in the creator's value, as user code does) are "
    "checked by the watchdog and the Python oracle only (idle convergence, no run after disposal / while paused, glitch-free "
    "reads); in the model the owner tree is static (owners are created with "
    "the program, before the history starts, so Owner::child's inheritance of the paused flag is not exercised)",
    "a selector's value is state written by its internal effect (an effect-mediated signal): selected(key) read during a "
    "run is checked against f(key, the value the selector holds), and the selector's internal effect against its source",
    "after a pause is lifted an effect that missed a notification is owed a run only by a LATER change: through a selector that "
    "means a later run of the selector's internal effect that flips f(key, .) for a key the effect read (the selector's contract)",
    "a notification that was pending when the owner was paused and is consumed during the pause is treated like a change "
    "made during the pause (documented as not replayed)",
    "an operation that does not notify is not a write: maybe_update / try_maybe_update whose closure returns false, a write() guard that is untracked before it is dropped, update_untracked / write_untracked without a following notify() leave the value as it is in the generated cases; a value stored without notification (update_untracked that really changes it) is outside the property (the graph cannot know) and is not generated",
    "effects created in the middle of the history (op (10 e k), 'adopt' family: Effect::new / watch / new_isomorphic created with owner.with(..) under the owner of an existing effect; a RenderEffect is not created that way because its first run IS its creation) are checked by the Python oracle only; an effect created under a paused owner counts as paused until that owner (or an ancestor) is resumed -- the unchanged code runs it (finding F-C02-g, open); owners that were cleaned up are not used for creation (cleanup cuts them off from their parent)",
    "ImmediateEffect is driven without pause / resume (it is not among the effect kinds of the property text). Observed, not judged: its mark_check overwrites a Dirty mark received during a pause with Check, so after resume it may stay stale until a source really changes (an Effect keeps its dirty flag and runs at the next notification)",
]
LEVEL_TEXT = ("Coq proofs over an executable model of EffectInner, the notification channel, the task loop of Effect::new / "
              "RenderEffect / watch and an explicit run queue, for all programs, all histories and all schedules; tied to /repo by "
              "running the extracted model and the real effects on the same cases with a harness-owned executor (full traces "
              "compared, small programs exhaustively over schedules) and an independent idle-consistency recomputation in Python.")
LEVEL_NOTE = ("see Properties_C02.v: idle convergence is proved for every program outside the class self_feeding (effects and watch "
              "handlers may write signals, but not into their own static cone), for every static owner tree (pause / resume reach "
              "every descendant: C02_pause_reaches_descendants); findings F-C02-a/b/c/e/f repaired, F-C02-d open: the THEOREM excludes the whole static class self_feeding, but classify() "
              "identifies the finding by its narrow failing shape (rxlib.NarrowD: an effect reads memo j with tracking, writes a signal j depends on, and "
              "j is pulled again in the same run); self-feeding programs without that shape (clamp / count-up / normalise on a directly read signal, "
              "by the body or the watch handler; through a memo that is not pulled again; ImmediateEffects that recurse) converge on the unchanged code "
              "and are JUDGED by the oracle and compared with the model ('selfwrite-direct', 'selfwrite-imm' families) although no theorem covers them; F-C02-g (an effect created under a paused owner runs: Owner::new() starts "
              "unpaused) open, found on the oracle-only 'adopt' family: the model's owner tree is static, so no theorem speaks about it "
              "(classify(): exactly the failure 'an effect created by (10 e k) under a paused owner, not resumed since, ran'); selectors COMPARED-NOT-PROVED for idle convergence (their "
              "model is a program transformation that falls into the excluded class); ImmediateEffect oracle-only.")
TECHNIQUE = "Coq proof (invariant over all schedules) + differential correspondence of the extracted model with the Rust code"


def self_feeding(prog):
    """some effect writes a signal that it may itself read (directly or through memos)"""
    memo = {}
    for e, nd in enumerate(prog):
        if nd[0] == X.EFF:
            for b in X.bodies(nd):
                for s in X.writes_of(b):
                    if s in X.cone(prog, e, memo):
                        return True
    return False


def valid_case(item):
    if not X.valid_case(item):
        return False
    if item.get("kind", "").startswith("selfwrite"):
        return self_feeding(item["case"][0])
    return True


def small_programs(rng, n):
    out = []
    while len(out) < n:
        ne = rng.choice([2, 2, 3])
        prog = X.gen_program(rng, rng.randint(ne + 2, ne + 4), ne, p_untr=0.05, p_der=0.05,
                             eff_kinds=(0, 0, 1, 2, 3), extra_sigs=False)
        out.append(prog)
    return out


def exhaustive(rng, prog, max_polls=2):
    ne = sum(1 for nd in prog if nd[0] == X.EFF)
    sigs = [i for i, nd in enumerate(prog) if nd[0] == X.SIG]
    w1 = [0, rng.choice(sigs), rng.randint(0, 3)]
    w2 = [0, rng.choice(sigs), rng.randint(0, 3)]
    segs = []
    for a in range(max_polls + 1):
        for ks in itertools.product(range(ne), repeat=a):
            segs.append([[3, k] for k in ks])
    for s1 in segs:
        for s2 in segs:
            for s3 in segs:
                yield s1 + [w1] + s2 + [w2] + s3 + [[4]]


def selfwrite(rng):
    """guarded self-feeding effects (F-C02-d): the effect reads memo j, writes j's input once, then reads j
    again, directly or through memo x"""
    c = rng.randint(3, 6)
    fl = rng.choice([0, 1, 2, 3, 4])
    k = rng.choice([0, 1, 4])
    again = rng.choice([[1, 2], [1, 1]])
    prog = [[0, fl, rng.randint(0, 2)], [1, 0, rng.randint(0, 1), [1, 0]], [1, 0, rng.randint(0, 1), [1, 1]],
            [3, k, [4, [1, 1], [4, [6, [5, [1, 1], [0, c]], [7, 0, [0, c]], [0, 0]], again]], [0, 0]]]
    ops = [[2, 2], [4], [2, 1]] if rng.random() < 0.7 else [[4], [2, 2], [0, 0, 0], [4], [2, 1]]
    return [prog, ops]


def selfwrite_direct(rng):
    """effects that write what they read, outside the failing shape of F-C02-d: clamp / count-up / normalise on a signal
    the effect (or the watch dependency fn) reads DIRECTLY, written by the body or by the watch handler; or read
    through a memo that is not pulled again after the write.  Guards make every history reach idle."""
    fl = rng.choice([0, 1, 2, 4])
    c = rng.randint(2, 5)
    prog = [[0, fl, rng.randint(0, 2)], [0, rng.choice([0, 1, 2, 3, 4]), rng.randint(0, 3)]]
    via_memo = rng.random() < 0.35
    src = 0
    if via_memo:
        prog.append([1, rng.choice([0, 0, 1]), rng.randint(0, 1), [1, 0] if rng.random() < 0.7 else [4, [1, 0], [0, 0]]])
        src = 2
    kind = rng.choice([0, 0, 1, 2, 2, 3, 3, 4])
    shape = rng.choice(["up", "up", "clamp", "norm"])
    rd = lambda tr: [1, src] if tr else [2, src]
    def wr(tr):
        if shape == "up":        # count up to c
            return [6, [5, rd(tr), [0, c]], [7, 0, [4, rd(tr), [0, 1]]], [0, 0]]
        if shape == "clamp":     # values above c are clamped
            return [6, [5, [0, c], rd(tr)], [7, 0, [0, c]], [0, 0]]
        return [6, [5, rd(tr), [0, 1]], [7, 0, [0, 1]], [0, 0]]      # normalise: 0 becomes 1
    extra = [1, 1] if rng.random() < 0.5 else [0, 0]
    if kind in (2, 3):
        if rng.random() < 0.75:
            nd = [3, kind, [4, [1, src], extra], wr(False)]         # the handler writes what the dependency fn reads
        else:
            nd = [3, kind, [4, [4, [1, src], extra], wr(True)], [0, 0]]
    else:
        nd = [3, kind, [4, [4, [1, src], extra], wr(True)], [0, 0]]
    prog.append(nd)
    if rng.random() < 0.4:
        prog.append([3, rng.choice([0, 1, 4]), [1, src], [0, 0]])  # an onlooker
    if rng.random() < 0.5:
        X.add_variants(rng, prog, 0.6)
    ops = [[4]] if rng.random() < 0.8 else []
    for _ in range(rng.randint(1, 4)):
        r = rng.random()
        ops.append([0, 0, rng.choice([0, 0, 1, 2, 7, 9])] if r < 0.7 else [0, 1, rng.randint(0, 3)])
        if rng.random() < 0.3:
            ops.append([0, 0, rng.choice([0, 8])])
        ops.append([4] if rng.random() < 0.75 else [3, rng.randint(0, 2)])
    ops.append([4])
    return X.with_flags(rng, prog, ops, 0.3)


def selfwrite_immediate(rng):
    """an ImmediateEffect that writes, during its own run, a signal it reads directly or through a memo (it recurses:
    ImmediateEffect::new takes an Fn for that reason); the write is the last thing the body does"""
    c = rng.randint(2, 4)
    prog = [[0, rng.choice([0, 1, 2, 4]), rng.randint(0, 1)], [0, rng.choice([0, 1, 2, 4]), 0]]
    src = 0
    if rng.random() < 0.6:
        prog.append([1, 0, rng.randint(0, 1), [1, 0]])
        src = 2
    shape = rng.choice(["up", "clamp"])
    if shape == "up":
        w_ = [6, [5, [1, src], [0, c]], [7, 0, [4, [1, src], [0, 1]]], [0, 0]]
    else:
        w_ = [6, [5, [0, c], [1, src]], [7, 0, [0, c]], [0, 0]]
    prog.append([3, 5, [4, [1, src], w_], [0, 0]] if rng.random() < 0.5 else [3, 5, w_, [0, 0]])
    ops = []
    for _ in range(rng.randint(1, 3)):
        ops.append([0, 0, rng.choice([0, 0, 1, 7, 9])])
        if rng.random() < 0.4:
            ops.append([2, src])
        if rng.random() < 0.3:
            ops.append([0, 1, rng.randint(0, 3)])
    ops.append([4])
    return [prog, ops]


def generate(rng, tier):
    quick = tier == "quick"
    # exhaustive schedules for small programs
    for n_, prog in enumerate(small_programs(rng, 12 if quick else 80)):
        if n_ % 2:
            X.add_variants(rng, prog, 0.7)
        if sum(1 for nd in prog if nd[0] == X.EFF) == 3 and quick:
            scheds = list(exhaustive(rng, prog, 1))
        else:
            scheds = list(exhaustive(rng, prog, 2))
        for ops in scheds:
            yield dict(case=C.norm([prog, ops, 1] if n_ % 4 == 3 else [prog, ops]), kind="exhaustive", compare=True)
    # seeded-random programs, histories and schedules
    for i in range(12000 if quick else 120000):
        ne = rng.choice([1, 2, 2, 3, 4])
        prog = X.gen_program(rng, rng.randint(ne + 2, 11), ne, new_wrappers=True)
        if ne > 1 and rng.random() < 0.4:
            X.add_owner_tree(rng, prog)
        ops = X.gen_ops(rng, prog, rng.randint(8, 40), w=(0.30, 0.04, 0.12, 0.24, 0.18, 0.12), p_drop=0.15)
        if rng.random() < 0.7:
            ops.append([4])
        if i % 2:
            X.add_variants(rng, prog, 0.6)       # other entry points of the same mechanism (see rxlib)
            if i % 8 == 1:
                X.add_streams(rng, prog)         # signal.to_stream(): an isomorphic effect inside the library
            if i % 8 == 3:
                X.add_cleanups(rng, prog, 0.6)   # on_cleanup callbacks reading signals
            ops = [o for o in X.vary_disposals(rng, prog, ops) if not (o[0] == 8 and not X.disposable(prog, o[1]))]
        yield dict(case=C.norm(X.with_flags(rng, prog, ops, 0.4 if i % 2 else 0)), kind="random", compare=True)
    # pause / resume through both notification paths (F-C02-a shape and variations)
    for i in range(1500 if quick else 15000):
        ne = rng.choice([1, 2])
        prog = X.gen_program(rng, rng.randint(ne + 2, 7), ne, p_untr=0.05)
        effs = [j for j, nd in enumerate(prog) if nd[0] == X.EFF]
        sigs = [j for j, nd in enumerate(prog) if nd[0] == X.SIG]
        e = rng.choice(effs)
        ops = [[4], [5, e]]
        for _ in range(rng.randint(1, 3)):
            ops += [[0, rng.choice(sigs), rng.randint(0, 3)]] + ([[4]] if rng.random() < 0.7 else [[3, rng.randint(0, 2)]])
        ops += [[6, e]]
        for _ in range(rng.randint(1, 3)):
            ops += [[0, rng.choice(sigs), rng.randint(0, 3)], [4]]
        if i % 2:
            X.add_variants(rng, prog, 0.6)
        yield dict(case=C.norm(X.with_flags(rng, prog, ops, 0.4 if i % 2 else 0)), kind="pause", compare=True)
    # a tree of owners: pause / resume / dispose addressed to any owner of the tree, in any order
    for i in range(3000 if quick else 30000):
        ne = rng.choice([2, 3, 3, 4, 5])
        prog = X.gen_program(rng, rng.randint(ne + 2, ne + 5), ne, p_untr=0.05)
        X.add_owner_tree(rng, prog, p_child=0.85)
        effs = [j for j, nd in enumerate(prog) if nd[0] == X.EFF]
        sigs = [j for j, nd in enumerate(prog) if nd[0] == X.SIG]
        ops = [[4]] if rng.random() < 0.8 else []
        for _ in range(rng.randint(3, 12)):
            r = rng.random()
            if r < 0.45:
                ops.append([rng.choice([5, 5, 6, 6, 6, 7] if rng.random() < 0.2 else [5, 6, 6]), rng.choice(effs)])
            elif r < 0.8:
                ops.append([0, rng.choice(sigs), rng.randint(0, 3)])
                if rng.random() < 0.6:
                    ops.append([4] if rng.random() < 0.7 else [3, rng.randint(0, 3)])
            else:
                ops.append([4] if rng.random() < 0.6 else [3, rng.randint(0, 3)])
        # the tail: everything resumed from some root of the forest, every signal written, idle
        if rng.random() < 0.7:
            for e in effs:
                if X.parent_of(prog[e]) is None:
                    ops.append([6, e])
            for s_ in sigs:
                ops.append([0, s_, rng.randint(4, 6)])
        ops.append([4])
        if i % 2:
            X.add_variants(rng, prog, 0.6)
            if i % 8 == 1:
                X.add_streams(rng, prog)
            ops = X.vary_disposals(rng, prog, ops)
        yield dict(case=C.norm(X.with_flags(rng, prog, ops, 0.4 if i % 2 else 0)), kind="owners", compare=True)
    # selectors (Selector::new / new_with_fn) read by effects and memos
    for i in range(4000 if quick else 40000):
        ne = rng.choice([1, 1, 2, 2, 3])
        prog = X.gen_selector_program(rng, ne, n_sel=rng.choice([1, 1, 1, 2]))
        if ne > 1 and rng.random() < 0.2:
            X.add_owner_tree(rng, prog)
        ops = X.gen_ops(rng, prog, rng.randint(6, 30), w=(0.42, 0.03, 0.08, 0.20, 0.22, 0.05), vals=X.SEL_VALUES)
        if rng.random() < 0.8:
            ops.append([4])
        if i % 2:
            X.add_variants(rng, prog, 0.5)
        yield dict(case=C.norm(X.with_flags(rng, prog, ops, 0.3 if i % 2 else 0)), kind="selector", compare=True)
    # effects creating nested effects (and memos) at run time, re-created by every run of their creator (not
    # modelled: watchdog + oracle only)
    for i in range(3000 if quick else 30000):
        # a third of the cases: three levels (depth 2 more often), effects handing out Owner::current() ((11))
        ko = i % 3 == 2
        prog = X.gen_dynamic_program(rng, rng.choice([1, 1, 2]), with_effects=True, depth2=0.8 if ko else 0.35,
                                     keep_owner=0.7 if ko else 0.0, eff_kinds=(0, 0, 0, 1, 2, 3, 4) if ko else (0, 0, 1, 2, 3, 4))
        ops = X.gen_ops(rng, prog, rng.randint(6, 30), w=(0.35, 0.04, 0.12, 0.2, 0.2, 0.09))
        ops.append([4])
        if i % 2:
            X.add_variants(rng, prog, 0.5)
        yield dict(case=C.norm(X.with_flags(rng, prog, ops, 0.3 if i % 2 else 0)), kind="nested", compare=False)
    # width: an owner with 17-24 child owners (Owner::pause / resume / cleanup walk them), signals with many subscribers
    for i in range(120 if quick else 1200):
        wc = X.gen_wide_case(rng, rng.randint(2, 8), rng.randint(18, 25), tree=True)
        if i % 2:
            X.add_variants(rng, wc[0], 0.3)
        yield dict(case=C.norm(X.with_flags(rng, wc[0], wc[1], 0.3)), kind="wide", compare=True)
    # effects created in the middle of the history under the owner of an existing effect, paused or not (oracle only)
    for i in range(2500 if quick else 25000):
        yield dict(case=C.norm(X.gen_adopt_case(rng)), kind="adopt", compare=False)
    # operations that are not writes must not wake anything (oracle only)
    for i in range(800 if quick else 8000):
        ne = rng.choice([1, 2, 2])
        prog = X.gen_program(rng, rng.randint(ne + 2, 8), ne, allow_wr=False)
        X.add_variants(rng, prog, 0.4)
        ops = X.add_silent(rng, prog, X.gen_ops(rng, prog, rng.randint(6, 24), w=(0.3, 0.04, 0.12, 0.24, 0.2, 0.1)), n=4) + [[4]]
        yield dict(case=C.norm([prog, ops]), kind="silent", compare=False)
    for i in range(30 if quick else 300):
        yield dict(case=C.norm(selfwrite(rng)), kind="selfwrite", compare=True)
    # self-feeding programs OUTSIDE the failing shape of F-C02-d (clamp / count-up / normalise on a directly read signal,
    # written by the body or the watch handler; through a memo that is not pulled again): they converge and are judged
    for i in range(1500 if quick else 15000):
        yield dict(case=C.norm(selfwrite_direct(rng)), kind="selfwrite-direct", compare=True)
    for i in range(600 if quick else 6000):
        yield dict(case=C.norm(selfwrite_immediate(rng)), kind="selfwrite-imm", compare=False)
    # ImmediateEffect: not modelled; watchdog + oracle only
    for i in range(800 if quick else 8000):
        ne = rng.choice([1, 1, 2])
        prog = X.gen_program(rng, rng.randint(ne + 2, 8), ne, eff_kinds=(5,), allow_wr=False, p_untr=0.05)
        ops = X.gen_ops(rng, prog, rng.randint(5, 20), w=(0.5, 0.05, 0.25, 0.0, 0.1, 0.1))
        ops = [o for o in ops if o[0] not in (5, 6)] + [[4]]
        if i % 2:
            X.add_variants(rng, prog, 0.6)
        yield dict(case=C.norm([prog, ops]), kind="immediate", compare=False)


def oracle(item, impl):
    return X.run_oracle(item, impl, X.C02Hooks())


def classify(item, impl, model):
    if self_feeding(item["case"][0]):
        # F-C02-d is the narrow failing shape (memo read, write below it, the memo pulled again in the same run), not the
        # whole static class: a self-feeding program without that shape converges and any failure of it is reported
        h = X.NarrowD()
        X.run_oracle(item, impl, h)
        if h.hit:
            return "F-C02-d"
    if any(o and o[0] == 10 for o in item["case"][1]):
        # F-C02-g: exactly the failure "an effect created under a paused owner (and not resumed since) ran"
        h = X.C02Hooks()
        if X.run_oracle(item, impl, h) and h.known == "F-C02-g":
            return "F-C02-g"
    return None


def nontrivial(item, model):
    if isinstance(model, str):
        return False
    prog = item["case"][0]
    runs = {}
    for e in model:
        if e[0] == 1 and e[1] < len(prog) and prog[e[1]][0] == X.EFF:
            runs[e[1]] = runs.get(e[1], 0) + 1
    return any(n >= 2 for n in runs.values())


def coverage_extra(results):
    ok = [r for r in results if not isinstance(r["impl"], str)]
    def is_eff(r, i):
        prog = r["item"]["case"][0]
        return i >= len(prog) or prog[i][0] == X.EFF      # (instances created at run time: counted as effects)
    return dict(effect_runs=sum(sum(1 for e in r["impl"] if e[0] == 1 and is_eff(r, e[1])) for r in ok),
                idle_points=sum(sum(1 for e in r["impl"] if e[0] == 7) for r in ok),
                polls=sum(sum(1 for e in r["impl"] if e[0] == 8) for r in ok),
                hangs=sum(1 for r in results if isinstance(r["impl"], str) and r["impl"].startswith("!hang")))
