"""C18 — the `view!` macro renders what the template says.

This property has its own flow (`main`, `setup`): cases are Rust SOURCE. A batch of templates is
written to .build/c18/gen/shard_<k>.rs, compiled once (harness/macro, eight binaries built in
parallel, offline, against /repo's working tree), every template rendered three ways

    variant 0   view! { T }                        the macro as written (inert path where eligible)
    variant 1   view! { T + data-twin={..} on every element }   forced-dynamic twin (nothing is inert)
    variant 2   template! { T }                    the macro with the inert path disabled

and the `to_html()` bytes compared (a) byte for byte with the extracted Coq model of both macro
paths, (b) by an independent oracle: a Python HTML parser, normalisation (comments dropped,
adjacent text merged, attributes as sets, class = token set, style = declaration set), against
the tree the generator intended and against each other.
"""
import html as _html
import json
import os
import random
import re
import shutil
import sys
import time

from . import common as C

PID = "C18"
PROPS_V = "theories/Props/Properties_C18.v"
MODEL_NAME = "Html/Macro.v"
HARNESS = "macro"
ALLOWED_AXIOMS = []
RUN_IMPORT = "Html.MacroRun"
READY = True

N_BINS = 8
import hashlib as _hashlib
_TAG_REPO = "" if C.REPO == "/repo" else "-" + _hashlib.sha1(C.REPO.encode()).hexdigest()[:8]
GEN_DIR = os.path.join(C.BUILD, "c18" + _TAG_REPO, "gen")

RULE = ("templates drawn from one PRNG (VERIF_SEED) over the grammar: elements (HTML normal, void, SVG, custom, "
        "raw-text script/style/noscript, escapable raw text textarea/title) nested to depth 4, static attributes (string literal, no "
        "value), dynamic attributes ({String}, {bool}, {Option<String>}), class:name / class:name={bool}, "
        "class=(\"n\", bool) / class=([..], bool), style:prop=\"v\" / style:prop={..} / style=(\"p\", \"v\"), text "
        "literals (also empty), {String} blocks, fragments, four fixed components (one returning its children, one wrapping "
        "them, one with a slot, one with a prop) with attr:/class: spread onto them, the scope-class form, ordinary "
        "elements with markup-significant text below <noscript> (static and dynamic, depth 2-3); strings from a pool with "
        "markup-significant content (<, >, &, \", ', </p>, <!-- -->, entities, unicode, newlines, surrounding "
        "blanks). Every template is compiled three times (as written, forced-dynamic twin, template!). A case is "
        "non-trivial when the macro actually took its inert path somewhere in variant 0 (the model's view_html "
        "differs from its builder_html) or the template has a dynamic part; distinct = distinct template hash.")
TRUSTED = [
    "Coq 8.16.1 kernel (coqc); no axioms: every theorem of Properties_C18.v is 'Closed under the global context'",
    "extraction to OCaml with ExtrOcamlBasic only, ocamlfind ocamlopt, extract/driver.ml sexp I/O",
    "harness/macro (Rust): generated view!/template! invocations compiled by rustc against /repo's leptos (ssr); "
    "to_html() of each; helper fns s/tb/fb/so/no supply the dynamic values",
    "modelled, not verified (transcribed in Html/Macro.v and compared byte for byte with the real output on every "
    "template of every run): the part of tachys that renders what the builder path constructs "
    "(HtmlElement::to_html_with_buf, attributes_to_html, Class/Style/AttributeValue::to_html, &str/String/tuple "
    "RenderHtml, InertElement, the SELF_CLOSING/ESCAPE_CHILDREN tables), html_escape::{encode_text, "
    "encode_double_quoted_attribute}, slice::sort_by on < 21 elements (insertion sort), str::trim on ASCII blanks",
    "compared only, NOT modelled (PARTIAL): rstml parsing of the macro input, token plumbing / quote!, component and "
    "slot expansion (four fixed components incl. a slot and attr:/class: spreading are rendered and checked by the oracle only), spreads, events, "
    "directives, properties, inner_html, the global class form (both rendered from generated templates and checked by the "
    "oracle), nightly Static<..> strings",
    "Html/MacroParse.v is a parser for the EMITTED subset (double-quoted attributes, <!..> comments, four raw-text "
    "elements, the escapers' character references); the oracle's Python parser is written separately",
]
ASSUMPTIONS = [
    "a {String} block never evaluates to the empty string (tachys then renders a placeholder blank: finding F-C05 of "
    "the hydration property, not a macro matter)",
    "class/style strings do not begin or end with non-ASCII Unicode white space (str::trim would remove it, the "
    "inert path keeps it)",
    "text inside script/style/noscript does not contain '</' (raw text is emitted verbatim by both paths: "
    "property C06, finding F-C06-b)",
    "the theorems cover raw-text elements that hold text only; elements below <noscript> (legal HTML, read as markup "
    "only with scripting disabled) are generated, compared byte for byte with the model and checked by the oracle with "
    "noscript read as an ordinary element, and the model theorem C18_element_ignores_parent_escape states that an "
    "element renders the same bytes whatever escape flag its parent hands down",
    "tag and attribute names consist of ASCII letters, digits, '-', '_', ':'; void elements have no children; the "
    "obsolete <param> (void for the macro, unknown to tachys) is not used",
    "class is read as a set of white-space separated tokens and style as a set of ';'-separated declarations "
    "(DOM reading): `class=\"  a   b \"` vs `class=\"a   b\"` and `style=\"a:b\"` vs `style=\"a:b;\"` — which is how "
    "the two paths differ textually — are the same attribute; attribute ORDER is not compared",
]
LEVEL_TEXT = ("Coq proofs, for all well-formed templates, that the HTML of the inert path and of the builder path "
              "(and of any mixture the macro chooses) parses to the same element tree with the same attribute sets "
              "and text, that this tree is the denotation of the template, and that a static part renders as its "
              "own denotation in every context — about an executable Gallina transcription of both macro paths "
              "and of the tachys renderer they target; tied to /repo by compiling hundreds of generated templates "
              "per run (as written, forced-dynamic twin, template!) and comparing to_html() byte for byte with the "
              "extracted model, plus an independent Python parse-and-compare oracle. PARTIAL: rstml parsing, token "
              "plumbing and component/slot expansion are compared only, not modelled.")
LEVEL_NOTE = ("Trusted: Coq kernel, extraction + OCaml driver, rustc, the harness. Modelled not verified: tachys SSR "
              "of elements/attributes/strings/tuples, html_escape, small-slice sort_by. Partial: see trusted_base.")
TECHNIQUE = ("Coq proof (structural induction over templates, a byte-at-a-time parser state machine) + differential "
             "correspondence of the extracted model with compiled macro output")

# ------------------------------------------------------------------------------------------ grammar
RUST_KW = {"type", "for", "as", "loop", "async"}
VOID = ["br", "hr", "img", "input", "meta", "link", "wbr", "source", "area", "base", "col", "embed", "track"]
NORMAL = ["div", "p", "span", "section", "ul", "li", "b", "i", "em", "h1", "a", "button", "label", "pre", "main",
          "article", "strong", "td", "option", "title", "form"]
RAW = ["script", "style", "noscript", "textarea"]
SVG_ROOT = "svg"
SVG_CHILD = ["g", "circle", "rect", "path", "text", "line", "defs", "tspan", "clipPath", "linearGradient"]
CUSTOM = ["my-el", "x-widget-2"]

GLOBAL_ATTRS = ["id", "title", "lang", "dir", "role", "tabindex", "accesskey", "slot", "data-a", "data-b-c",
                "aria-label", "aria-hidden", "aria_current"]
GLOBAL_BOOL = ["hidden", "inert", "autofocus", "itemscope", "data-flag"]
ELEM_ATTRS = {
    "input": (["type", "value", "name", "placeholder"], ["disabled", "checked", "readonly", "required"]),
    "a": (["href", "target", "rel"], []),
    "img": (["src", "alt", "width", "height"], []),
    "label": (["for"], []),
    "button": (["type", "name", "value"], ["disabled"]),
    "option": (["value", "label"], ["selected", "disabled"]),
    "td": (["colspan", "headers"], []),
    "meta": (["name", "content", "charset", "http_equiv"], []),
    "form": (["action", "method", "accept_charset"], ["novalidate"]),
    "link": (["rel", "href", "as"], []),
    "script": (["type", "src"], ["async", "defer"]),
    "style": (["media"], []),
    "textarea": (["name", "rows", "placeholder"], ["disabled", "readonly"]),
    "source": (["src", "type"], []), "area": (["alt", "href"], []), "base": (["href"], []),
    "col": (["span"], []), "embed": (["src", "type"], []), "track": (["src", "kind", "label"], ["default"]),
}
ANY_ATTRS = ["foo", "some-attr", "x_y", "viewBox", "xlink:href", "d", "r", "cx", "fill"]   # custom elements / SVG

TEXTS = ["x", "hello world", "a<b", "a&b", "\"q\"", "it's", ">", "</p>", "&amp;", "&lt;b&gt;", "é€😀", " lead",
         "trail ", "a\nb", "<!-- c -->", "<script>alert(1)</script>", "]]>", "&#39;", "a=b", "/>", "{}", "\\", "\t",
         "100%", "<", "&", "<!>", "a < b && c > d", " ", "x y", "&quot;", "<br>", "1", "", "", " "]
RAW_TEXTS = ["x", "a<b", "a>b", "p{color:red}", "if (a < b && c) { d() }", "\"q\"", "it's", "<!-- c -->", "a\nb", "é€😀",
             "<", "<b>", "", "]]>", "1 << 2"]
TEXTAREA_TEXTS = ["x", "a<b", "a>b", "\"q\"", "line\nline", "é", "<b>bold", ""]
VALUES = ["a", "", "a b", "a\"b", "it's", "<", ">", "&", "a&amp;b", "</p>", "é€😀", " x ", "1", "x\ny", "a=b", "'\"'",
          "&lt;", "javascript:alert(1)", "#frag", "100%", "\\"]
CLASS_VALUES = ["a", "a b", "  a   b ", "", " ", "a\tb", "x-1 y_2", "a a", "é", "a\nb ", "c<d", "q\"r"]
CLASS_NAMES = ["foo", "bar", "b-1", "on", "a", "md:flex", "hover:bg-red-500", "card--active", "w.half", "p-2",
               "lg:hover:x-1", "-m-1"]
STYLE_VALUES = ["a:b", "color:red;", " a:b ; c:d ", "", "x:y;;z:w", "background:url(\"i.png\")", "a:b;", " ", "w:1px ;"]
STYLE_PROPS = ["color", "top", "margin-left", "--v", "--accent-color", "background-color"]
STYLE_PVALS = ["red", "1px", "a b", "\"x\"", "0", "calc(1px + 2px)", "<"]


# non-string literals as attribute values: (source spelling, what Display / to_string() gives)
NUM_LITS = [("3", "3"), ("2.50", "2.5"), ("1.0", "1"), ("1e3", "1000"), ("0.5", "0.5"), ("1_000", "1000"), ("0x10", "16"),
            ("2.5e-1", "0.25"), ("-1", "-1"), ("-2.50", "-2.5"), ("'c'", "c"), ("'<'", "<"), ("'\"'", "\""), ("10u8", "10"),
            ("1.5f32", "1.5"), ("100.0", "100"), ("0", "0")]


def pick(rng, l):
    return l[rng.randrange(len(l))]


def gen_attrs(rng, tag, kind, dyn_p):
    """attributes of one element; dyn_p = probability that an attribute is a dynamic form"""
    out, used = [], set()
    strs, bools = list(GLOBAL_ATTRS), list(GLOBAL_BOOL)
    if kind in ("svg", "custom"):
        strs += ANY_ATTRS
    es, eb = ELEM_ATTRS.get(tag, ([], []))
    strs += es + es
    bools += eb + eb
    n = pick(rng, [0, 0, 1, 1, 2, 2, 3, 4])
    for _ in range(n):
        r = rng.random()
        if r < 0.50:
            name = pick(rng, strs)
            if name in used:
                continue
            used.add(name)
            d = rng.random()
            if d >= dyn_p:
                if rng.random() < 0.12:
                    src, shown = pick(rng, NUM_LITS)
                    out.append(["p", name, ["num", src, shown]])     # value=2.50: a literal, but not a string
                else:
                    out.append(["p", name, ["lit", pick(rng, VALUES)]])
            elif d < dyn_p * 0.6:
                out.append(["p", name, ["str", pick(rng, VALUES)]])
            elif d < dyn_p * 0.8:
                out.append(["p", name, ["opt", pick(rng, [None, pick(rng, VALUES)])]])
            else:
                out.append(["p", name, ["bool", rng.random() < 0.5]])
        elif r < 0.62:
            name = pick(rng, bools)
            if name in used:
                continue
            used.add(name)
            if rng.random() >= dyn_p:
                if rng.random() < 0.15:
                    out.append(["p", name, ["blit", rng.random() < 0.6]])   # hidden=true / hidden=false
                else:
                    out.append(["p", name, ["none"]])
            else:
                out.append(["p", name, ["bool", rng.random() < 0.6]])
        elif r < 0.76:
            if "class" in used:
                continue
            used.add("class")
            if rng.random() >= dyn_p:
                out.append(["p", "class", ["lit", pick(rng, CLASS_VALUES)]])
            else:
                out.append(["p", "class", ["str", pick(rng, CLASS_VALUES)]])
        elif r < 0.86:
            if "style" in used:
                continue
            used.add("style")
            if rng.random() >= dyn_p:
                out.append(["p", "style", ["lit", pick(rng, STYLE_VALUES)]])
            else:
                out.append(["p", "style", ["str", pick(rng, STYLE_VALUES)]])
        elif r < 0.93:
            # class:name toggles / tuples (always builder path)
            if rng.random() < dyn_p + 0.25:
                nm = pick(rng, CLASS_NAMES)
                if ("ct", nm) in used:
                    continue
                used.add(("ct", nm))
                f = rng.random()
                if f < 0.35:
                    out.append(["ct", nm, None])
                elif f < 0.7:
                    out.append(["ct", nm, rng.random() < 0.6])
                else:
                    names = [nm] if rng.random() < 0.6 else [nm, nm + "2"]
                    if any(("ct", x) in used for x in names[1:]):
                        continue
                    for x in names:
                        used.add(("ct", x))
                    out.append(["cu", names, rng.random() < 0.6, len(names) > 1 or rng.random() < 0.3])
        else:
            if rng.random() < dyn_p + 0.25:
                pr = pick(rng, STYLE_PROPS)
                if ("sp", pr) in used:
                    continue
                used.add(("sp", pr))
                f = rng.random()
                if f < 0.7:
                    out.append(["sp", pr, pick(rng, STYLE_PVALS), rng.random() < 0.5])
                else:
                    out.append(["su", pr, pick(rng, STYLE_PVALS)])
    return out


def gen_text(rng, dyn_p, pool=TEXTS):
    s = pick(rng, pool)
    if rng.random() < dyn_p * 0.6 and s != "":
        return ["b", s]
    return ["t", s]


def gen_children(rng, depth, dyn_p, in_svg=False):
    n = pick(rng, [0, 1, 1, 2, 2, 3, 4]) if depth > 0 else pick(rng, [0, 1, 1, 2])
    out = []
    for _ in range(n):
        r = rng.random()
        if depth <= 0 or r < 0.42:
            out.append(gen_text(rng, dyn_p))
        elif r < 0.47 and not in_svg:
            out.append(["f", gen_children(rng, depth - 1, dyn_p)])
        else:
            out.append(gen_elem(rng, depth - 1, dyn_p, in_svg))
    return out


def gen_elem(rng, depth, dyn_p, in_svg=False):
    if in_svg:
        tag = pick(rng, SVG_CHILD)
        ch = gen_children(rng, depth, dyn_p, True) if tag in ("g", "text", "defs", "tspan") else []
        return ["e", tag, gen_attrs(rng, tag, "svg", dyn_p), ch]
    r = rng.random()
    if r < 0.60:
        tag = pick(rng, NORMAL)
        ch = gen_children(rng, depth, dyn_p)
        if tag == "title":
            ch = [c for c in ch if c[0] in ("t", "b")]
        return ["e", tag, gen_attrs(rng, tag, "html", dyn_p), ch]
    if r < 0.74:
        tag = pick(rng, VOID)
        return ["e", tag, gen_attrs(rng, tag, "html", dyn_p), []]
    if r < 0.82:
        return ["e", SVG_ROOT, gen_attrs(rng, SVG_ROOT, "svg", dyn_p), gen_children(rng, depth, dyn_p, True)]
    if r < 0.89:
        tag = pick(rng, CUSTOM)
        return ["e", tag, gen_attrs(rng, tag, "custom", dyn_p), gen_children(rng, depth, dyn_p)]
    tag = pick(rng, RAW)
    pool = TEXTS if tag == "textarea" else RAW_TEXTS
    ch = [gen_text(rng, dyn_p, pool) for _ in range(pick(rng, [0, 1, 1, 2, 3]))]
    ch = [c for c in ch if not (c[0] == "b" and c[1] == "")]
    while tag != "textarea" and "</" in "".join(c[1] for c in ch):
        ch = ch[:-1]
    return ["e", tag, gen_attrs(rng, tag, "html", dyn_p), ch]


def gen_template(rng):
    """top level: one element (most common), or several nodes (a fragment)"""
    dyn_p = pick(rng, [0.0, 0.0, 0.0, 0.1, 0.25, 0.5])
    depth = pick(rng, [1, 2, 2, 3, 3, 4])
    r = rng.random()
    if r < 0.7:
        # a wrapper whose children are candidates for the inert path
        tag = pick(rng, ["div", "section", "main", "ul", "p", "my-el"])
        ch = gen_children(rng, depth, dyn_p)
        if not ch:
            ch = [gen_elem(rng, depth - 1, dyn_p)]
        return [["e", tag, gen_attrs(rng, tag, "html" if tag != "my-el" else "custom", dyn_p), ch]]
    if r < 0.9:
        return gen_children(rng, depth, dyn_p) or [["t", "x"]]
    return [gen_elem(rng, depth, dyn_p)]


def gen_template_static(rng):
    tag = pick(rng, ["div", "section", "main", "ul"])
    ch = gen_children(rng, 2, 0.0) or [gen_elem(rng, 1, 0.0)]
    t = [["e", tag, gen_attrs(rng, tag, "html", 0.0), ch]]

    def strip(l):
        # class toggles / tuples are fine; keep everything, the grammar at dyn_p = 0 has no dynamic class=
        return l
    return strip(t)


SAFE_TEXTS = ["x", "hello world", "it's", "a=b", "100%", " lead", "trail ", "é€😀"]
HOT_TEXTS = ["a < b", "a<b", "a&b", "&amp;", "</p>", "\"q\" & <i>", ">", "<script>alert(1)</script>", "&lt;", "1 << 2 && 3"]


def gen_below_noscript(rng, depth, dyn_p):
    """an ordinary element with markup-significant text, to be placed below <noscript>: whatever renders it
    (inert path or builder path) must escape by the element's OWN kind, not by the raw-text ancestor's"""
    tag = pick(rng, ["p", "span", "div", "b", "a", "li", "my-el"])
    attrs = gen_attrs(rng, tag, "custom" if tag == "my-el" else "html", dyn_p)
    ch = []
    for _ in range(pick(rng, [1, 1, 2, 3])):
        r = rng.random()
        if depth > 1 and r < 0.3:
            ch.append(gen_below_noscript(rng, depth - 1, dyn_p))
        elif r < 0.3 + dyn_p:
            ch.append(["b", pick(rng, HOT_TEXTS)])
        else:
            ch.append(["t", pick(rng, HOT_TEXTS + SAFE_TEXTS[:2])])
    return ["e", tag, attrs, ch]


def gen_noscript_template(rng):
    dyn_p = pick(rng, [0.0, 0.0, 0.3, 0.6])
    kids = []
    for _ in range(pick(rng, [1, 1, 2, 3])):
        if rng.random() < 0.25:
            kids.append(["t", pick(rng, SAFE_TEXTS)])          # direct text is written verbatim: keep it harmless
        else:
            kids.append(gen_below_noscript(rng, pick(rng, [1, 2, 2]), dyn_p))
    ns = ["e", "noscript", gen_attrs(rng, "noscript", "html", dyn_p), kids]
    r = rng.random()
    if r < 0.35:
        return [ns]                                             # top level: noscript itself on the builder path
    if r < 0.8:
        return [["e", pick(rng, ["div", "section", "main"]), gen_attrs(rng, "div", "html", dyn_p),
                 [ns] + ([gen_text(rng, dyn_p)] if rng.random() < 0.5 else [])]]
    return [["e", "div", [], [["e", "p", [["p", "id", ["lit", "w"]]], [ns]]]]]   # depth 3


def gen_spreads(rng):
    out = []
    for _ in range(pick(rng, [0, 1, 1, 2])):
        r = rng.random()
        if r < 0.4:
            out.append(["sa", pick(rng, ["data-sp", "data-k2"]), pick(rng, VALUES)])
        elif r < 0.6:
            out.append(["sd", pick(rng, ["data-sp", "data-k2"]), pick(rng, VALUES)])
        else:
            out.append(["sc", pick(rng, ["sp-on", "x1"]), rng.random() < 0.7])
    seen, uniq = set(), []
    for x in out:
        if x[1] not in seen:
            seen.add(x[1])
            uniq.append(x)
    return uniq


def gen_spread_template(rng):
    """a component with attributes spread onto its view; children static (candidates for the inert path) or dynamic"""
    dyn_p = pick(rng, [0.0, 0.0, 0.0, 0.3])
    kids = []
    for _ in range(pick(rng, [1, 1, 2, 3])):
        r = rng.random()
        if r < 0.2:
            kids.append(gen_text(rng, dyn_p))
        else:
            e = gen_elem(rng, pick(rng, [0, 1, 2]), dyn_p)
            if e[1] in RAW or e[1] == "title":
                e = ["e", "p", [], [["t", "x"]]]
            kids.append(e)
    if not any(k[0] == "e" for k in kids):
        kids.append(["e", "p", [["p", "class", ["lit", "s"]]], [["t", "a < b"]]])
    comp = ["c", pick(rng, ["Pass", "Pass", "Pass", "Wrap", "Cond"]), kids, gen_spreads(rng)]
    r = rng.random()
    if r < 0.4:
        return [comp]
    if r < 0.8:
        return [["e", pick(rng, ["main", "div"]), [], [comp] + ([gen_text(rng, 0.0)] if rng.random() < 0.5 else [])]]
    return [["c", "Pass", [["e", "div", [], [comp]]], gen_spreads(rng)]]


def gen_component_template(rng):
    if rng.random() < 0.6:
        return gen_spread_template(rng)
    inner = gen_children(rng, 2, pick(rng, [0.0, 0.2])) + [["e", "b", [], [["t", "w"]]]]
    if rng.random() < 0.6:
        return [["e", "div", [], [["c", "Wrap", inner], ["t", pick(rng, TEXTS)]]]]
    return [["e", "p", [["p", "id", ["lit", "k"]]], [["c", "Label", pick(rng, [x for x in TEXTS if x])], ["e", "b", [], [["t", "z"]]]]]]


# hand-written corner cases that always run (also the witnesses of the findings)
FIXED = [
    ("empty-text", [["e", "div", [], [["e", "p", [["p", "id", ["lit", "a"]]], [["t", ""]]]]]]),
    ("empty-text", [["e", "div", [], [["e", "p", [["p", "id", ["lit", "a"]]], [["t", "a"], ["t", ""], ["t", "b"]]]]]]),
    ("class-noval", [["e", "div", [], [["e", "span", [["ct", "foo", None]], [["t", "x"]]]]]]),
    ("class-noval", [["e", "div", [], [["e", "span", [["p", "class", ["lit", "bar"]], ["ct", "foo", None]], []]]]]),
    ("noscript", [["e", "div", [], [["e", "noscript", [["p", "id", ["lit", "n"]]], [["t", "a<b&c"]]]]]]),
    ("raw-adjacent-text", [["e", "div", [], [["e", "style", [], [["t", "p{color:"], ["b", "red"], ["t", "}"]]]]]]),
    ("raw-adjacent-text", [["e", "div", [], [["e", "script", [["p", "id", ["lit", "s"]]], [["t", "a"], ["t", "b"]]]]]]),
    ("style-class-text", [["e", "div", [], [["e", "p", [["p", "style", ["lit", "a:b"]], ["p", "class", ["lit", "  a   b "]]],
                                            [["t", "x"]]]]]]),
    ("escapes", [["e", "div", [], [["e", "input", [["p", "disabled", ["none"]], ["p", "type", ["lit", "text"]],
                                               ["p", "value", ["lit", "a\"b'c<d>&"]]], []]]]]),
    ("escapes", [["e", "div", [], [["e", "p", [["p", "title", ["lit", "</p><script>"]]], [["t", "</p><script>&amp;"]]]]]]),
    ("textarea", [["e", "div", [], [["e", "textarea", [["p", "name", ["lit", "t"]]], [["t", "a&amp;b"], ["t", "</textarea><b>"]]]]]]),
    ("textarea", [["e", "div", [], [["e", "textarea", [], [["t", "x"], ["b", "<&>"], ["t", ""]]]]]]),
    ("many-children", [["e", "ul", [], sum([[["e", "li", [["p", "id", ["lit", "i%d" % i]]], [["t", str(i)]]], ["t", "-"]]
                                             for i in range(10)], [])]]),
    ("svg", [["e", "div", [], [["e", "svg", [["p", "viewBox", ["lit", "0 0 1 1"]]],
                                [["e", "circle", [["p", "r", ["lit", "2"]]], []],
                                 ["e", "text", [["p", "x", ["lit", "1"]]], [["t", "t<"]]]]]]]]),
    ("class-forms", [["e", "div", [], [["e", "p", [["p", "class", ["lit", "a"]], ["ct", "b", True], ["ct", "c", False],
                                               ["cu", ["d"], True, False], ["cu", ["e", "g"], True, True],
                                               ["p", "style", ["lit", "x:y"]], ["sp", "color", "red", True],
                                               ["su", "top", "1px"], ["p", "data-a", ["lit", "1"]]], [["t", "x"]]]]]]),
]
# oracle-only (not expressible in the Coq template AST)
FIXED += [
    ("literal-kinds", [["e", "div", [], [["e", "input", [["p", "value", ["num", "2.50", "2.5"]], ["p", "max", ["num", "1e3", "1000"]],
                                                      ["p", "data-a", ["num", "1.0", "1"]], ["p", "tabindex", ["num", "-1", "-1"]],
                                                      ["p", "title", ["num", "'<'", "<"]], ["p", "hidden", ["blit", True]],
                                                      ["p", "disabled", ["blit", False]]], []]]]]),
    ("literal-kinds", [["e", "div", [], [["e", "td", [["p", "colspan", ["num", "2", "2"]], ["p", "class", ["lit", "k"]]], [["t", "x"]]]]]]),
    ("class-names", [["e", "div", [], [["e", "p", [["ct", "md:flex", True], ["ct", "hover:bg-red-500", None], ["ct", "w.half", True],
                                               ["ct", "card--active", True], ["cu", ["lg:hidden"], True, False],
                                               ["sp", "--accent-color", "red", True], ["sp", "background-color", "blue", False]],
                                        [["t", "x"]]]]]]),
]
FIXED += [
    ("typed-names", [["e", "div", [], [["e", "meta", [["p", "http_equiv", ["lit", "refresh"]], ["p", "content", ["lit", "1"]]], []]]]]),
    ("typed-names", [["e", "div", [], [["e", "form", [["p", "accept_charset", ["lit", "utf-8"]]], [["t", "x"]]],
                                        ["e", "p", [["p", "aria_label", ["lit", "q"]]], [["t", "y"]]],
                                        ["e", "my-el", [["p", "aria_label", ["lit", "q"]]], [["t", "z"]]]]]]),
]
FIXED_ORACLE_ONLY = [
    ("inner-html", [["e", "div", [], [["e", "p", [["p", "inner_html", ["lit", "<b>x</b>"]]], []]]]]),
]
# elements below <noscript>: noscript is read as an ordinary element by the oracle for these
FIXED_NOSCRIPT = [
    [["e", "noscript", [], [["e", "p", [], [["t", "a < b"]]]]]],
    [["e", "noscript", [], [["e", "p", [], [["t", "a < b"], ["b", "<i>&"]]]]]],
    [["e", "div", [], [["e", "noscript", [["p", "id", ["lit", "n"]]], [["e", "p", [["p", "title", ["str", "t"]]], [["t", "a&b"], ["t", "</p>"]]]]]]]],
    [["e", "div", [], [["e", "noscript", [], [["e", "div", [], [["e", "span", [["ct", "on", True]], [["b", "<script>"]]]]], ["t", "x"]]]]]],
    [["e", "div", [], [["e", "noscript", [], [["e", "p", [["p", "id", ["lit", "s"]]], [["t", "1 << 2 && 3"]]]]]]]],
]
FIXED_COMPONENT = [
    [["c", "Pass", [["e", "p", [["p", "class", ["lit", "s"]]], [["t", "a < b"]]]], []]],
    [["c", "Pass", [["e", "p", [["p", "class", ["lit", "s"]]], [["t", "t"]]]], [["sa", "id", "x"]]]],
    [["c", "Pass", [["e", "p", [["p", "class", ["lit", "s"]]], [["t", "a"]]], ["e", "span", [], [["t", "plain"]]]],
      [["sa", "data-k", "v"]]]],
    [["e", "main", [], [["c", "Pass", [["e", "b", [["p", "id", ["lit", "i"]]], [["t", "t"]]]], [["sc", "on", True]]]]]],
    [["c", "Wrap", [["e", "p", [["p", "class", ["lit", "s"]]], [["t", "t"]]]], [["sa", "id", "x"]]]],
    [["c", "Cond", [["e", "p", [["p", "class", ["lit", "s"]]], [["t", "a&b"]]], ["t", "x"]], []]],
    [["e", "div", [], [["c", "Cond", [["e", "i", [], [["t", "<"]]]], [["sd", "data-k", "a\"b"]]]]]],
]
FIXED_GLOBAL_CLASS = [
    ("global-class", [["e", "div", [], [["e", "p", [["p", "id", ["lit", "a"]]], [["t", "x"]]],
                                        ["e", "span", [["p", "class", ["lit", "k"]]], [["t", "y"]]], ["e", "br", [], []]]]]),
]


def comp_children(n):
    """children list of a component node (Label has a text prop instead)"""
    return [] if n[1] == "Label" else n[2]


def comp_spreads(n):
    return n[3] if len(n) > 3 else []


def has_component(t):
    for n in t:
        if n[0] == "c":
            return True
        if n[0] == "e" and (has_component(n[3]) or any(a[0] == "p" and a[1] == "inner_html" for a in n[2])):
            return True
        if n[0] == "f" and has_component(n[1]):
            return True
    return False


def generate(rng, tier):
    n = 800 if tier == "quick" else 10000
    for kind, t in FIXED:
        yield dict(tpl=t, kind=kind, compare=True)
    for kind, t in FIXED_ORACLE_ONLY:
        yield dict(tpl=t, kind=kind, compare=False, variants=[0, 1])
    for kind, t in FIXED_GLOBAL_CLASS:
        yield dict(tpl=t, kind=kind, compare=False, gclass="sc")
    for t in FIXED_COMPONENT:
        yield dict(tpl=t, kind="component", compare=False, variants=[0, 1])
    for t in FIXED_NOSCRIPT:
        yield dict(tpl=t, kind="below-noscript", compare=True, noscript_html=True)
    for i in range(n):
        if i % 25 in (24, 3):
            yield dict(tpl=gen_component_template(rng), kind="component", compare=False, variants=[0, 1])
        elif i % 25 in (6, 18):
            yield dict(tpl=gen_noscript_template(rng), kind="below-noscript", compare=True, noscript_html=True)
        elif i % 25 == 12:
            # the scope-class form (compared only): static templates, so that the inert path is taken;
            # a dynamic class= next to a global class is rejected by the macro
            t = [n for n in gen_template_static(rng)]
            yield dict(tpl=t, kind="global-class", compare=False, gclass=pick(rng, ["sc", "s-1", "q&r", "a<\"b"]))
        else:
            t = gen_template(rng)
            yield dict(tpl=t, kind="template", compare=True)


# ------------------------------------------------------------------------------------------ case encoding
def html_name(tag, name):
    """the HTML attribute a typed attribute method stands for (tachys html/attribute/key.rs); custom elements and
    SVG take the name as written (.attr(name, ..))"""
    if "-" in tag or tag == SVG_ROOT or tag in SVG_CHILD:
        return name
    if name in ("http_equiv", "accept_charset") or name.startswith("aria_"):
        return name.replace("_", "-")
    return name


def enc_attr(a, tag=""):
    k = a[0]
    if k == "p":
        v = a[2]
        av = {"lit": lambda: [0, v[1]], "none": lambda: [1], "str": lambda: [2, v[1]],
              "num": lambda: [2, v[2]],          # a non-string literal: not static, renders its Display
              "bool": lambda: [3, int(v[1])], "blit": lambda: [3, int(v[1])],
              "opt": lambda: [4] if v[1] is None else [5, v[1]]}[v[0]]()
        return [0, html_name(tag, a[1]), av]
    if k == "ct":
        return [1, a[1], 0 if a[2] is None else (2 if a[2] else 1)]
    if k == "cu":
        return [2, list(a[1]), int(a[2])]
    if k == "sp":
        return [3, a[1], a[2]]
    return [4, a[1], a[2]]


def enc_node(n):
    if n[0] == "t":
        return [0, n[1]]
    if n[0] == "b":
        return [1, n[1]]
    if n[0] == "e":
        return [2, n[1], [enc_attr(a, n[1]) for a in n[2]], [enc_node(c) for c in n[3]]]
    if n[0] == "f":
        return [3, [enc_node(c) for c in n[1]]]
    raise ValueError("not expressible in the model: %r" % (n[0],))


def to_case(tpl):
    return C.norm([0, [enc_node(n) for n in tpl]])


TWIN = ["p", "data-twin", ["str", "1"]]


def twin(tpl):
    out = []
    for n in tpl:
        if n[0] == "e":
            out.append(["e", n[1], list(n[2]) + [TWIN], twin(n[3])])
        elif n[0] == "f":
            out.append(["f", twin(n[1])])
        elif n[0] == "c" and n[1] != "Label":
            out.append(["c", n[1], twin(n[2])] + ([n[3]] if len(n) > 3 else []))
        else:
            out.append(n)
    return out


# ------------------------------------------------------------------------------------------ Rust source
def rust_str(s):
    out = ['"']
    for ch in s:
        o = ord(ch)
        if ch == "\\":
            out.append("\\\\")
        elif ch == '"':
            out.append('\\"')
        elif ch == "\n":
            out.append("\\n")
        elif ch == "\r":
            out.append("\\r")
        elif ch == "\t":
            out.append("\\t")
        elif o < 0x20 or o == 0x7f or o in (0x2028, 0x2029, 0xa0):
            out.append("\\u{%x}" % o)
        else:
            out.append(ch)
    out.append('"')
    return "".join(out)


def rust_name(n):
    return "r#" + n if n in RUST_KW else n


def rust_attr(a):
    k = a[0]
    if k == "p":
        name, v = rust_name(a[1]), a[2]
        if v[0] == "lit":
            return "%s=%s" % (name, rust_str(v[1]))
        if v[0] == "none":
            return name
        if v[0] == "str":
            return "%s={s(%s)}" % (name, rust_str(v[1]))
        if v[0] == "num":
            return "%s=%s" % (name, v[1])
        if v[0] == "blit":
            return "%s=%s" % (name, "true" if v[1] else "false")
        if v[0] == "bool":
            return "%s={%s()}" % (name, "tb" if v[1] else "fb")
        return "%s={%s}" % (name, "no()" if v[1] is None else "so(%s)" % rust_str(v[1]))
    if k == "ct":
        if a[2] is None:
            return "class:%s" % a[1]
        return "class:%s={%s()}" % (a[1], "tb" if a[2] else "fb")
    if k == "cu":
        b = "tb()" if a[2] else "fb()"
        if a[3]:
            return "class=([%s], %s)" % (", ".join(rust_str(x) for x in a[1]), b)
        return "class=(%s, %s)" % (rust_str(a[1][0]), b)
    if k == "sp":
        if a[3]:
            return "style:%s=%s" % (a[1], rust_str(a[2]))
        return "style:%s={s(%s)}" % (a[1], rust_str(a[2]))
    return "style=(%s, %s)" % (rust_str(a[1]), rust_str(a[2]))


def rust_spread(x):
    """attributes written on a component: attr:name="v" | attr:name={s("v")} | class:name={bool}"""
    if x[0] == "sa":
        return "attr:%s=%s" % (x[1], rust_str(x[2]))
    if x[0] == "sd":
        return "attr:%s={s(%s)}" % (x[1], rust_str(x[2]))
    return "class:%s={%s()}" % (x[1], "tb" if x[2] else "fb")


def rust_node(n):
    if n[0] == "t":
        return rust_str(n[1])
    if n[0] == "b":
        return "{s(%s)}" % rust_str(n[1])
    if n[0] == "f":
        return "<>" + " ".join(rust_node(c) for c in n[1]) + "</>"
    if n[0] == "c":
        if n[1] == "Label":
            return "<Label text=%s/>" % rust_str(n[2])
        sp = "".join(" " + rust_spread(x) for x in comp_spreads(n))
        kids = " ".join(rust_node(c) for c in n[2])
        if n[1] == "Cond":
            return "<Cond%s><Then slot>%s</Then></Cond>" % (sp, kids)
        return "<%s%s>%s</%s>" % (n[1], sp, kids, n[1])
    tag, attrs, ch = n[1], n[2], n[3]
    a = "".join(" " + rust_attr(x) for x in attrs)
    if tag in VOID:
        return "<%s%s/>" % (tag, a)
    return "<%s%s>%s</%s>" % (tag, a, " ".join(rust_node(c) for c in ch), tag)


def rust_template(tpl):
    return " ".join(rust_node(n) for n in tpl)


def rust_fn(idx, tpl, variants=(0, 1, 2), gclass=None):
    lines = ["pub fn t%d(out: &mut Out) {" % idx]
    pre = "" if gclass is None else "class = %s, " % rust_str(gclass)
    src = pre + rust_template(tpl)
    if 0 in variants:
        lines.append("    out.push((%d, 0, view! { %s }.to_html()));" % (idx, src))
    if 1 in variants:
        lines.append("    out.push((%d, 1, view! { %s }.to_html()));" % (idx, pre + rust_template(twin(tpl))))
    if 2 in variants:
        lines.append("    out.push((%d, 2, template! { %s }.to_html()));" % (idx, src))
    lines.append("}")
    return "\n".join(lines)


def write_shards(items, gen_dir):
    """items[i]['tpl'] -> gen_dir/shard_k.rs; returns True if the files changed"""
    os.makedirs(gen_dir, exist_ok=True)
    shards = [[] for _ in range(N_BINS)]
    # spread by size so that the eight compilations take similar time
    order = sorted(range(len(items)), key=lambda i: -len(rust_template(items[i]["tpl"])))
    load = [0] * N_BINS
    for i in order:
        k = load.index(min(load))
        shards[k].append(i)
        load[k] += 200 + len(rust_template(items[i]["tpl"]))
    for k in range(N_BINS):
        ids = sorted(shards[k])
        body = ["// generated by gen/c18.py — do not edit"]
        for i in ids:
            body.append(rust_fn(i, items[i]["tpl"], items[i].get("variants", (0, 1, 2)), items[i].get("gclass")))
        body.append("pub const TEMPLATES: &[(u32, fn(&mut Out))] = &[%s];" % ", ".join("(%d, t%d)" % (i, i) for i in ids))
        text = "\n".join(body) + "\n"
        p = os.path.join(gen_dir, "shard_%d.rs" % k)
        if not os.path.exists(p) or open(p).read() != text:
            with open(p, "w") as f:
                f.write(text)


# ------------------------------------------------------------------------------------------ oracle side
H_VOID = {"area", "base", "br", "col", "embed", "hr", "img", "input", "link", "meta", "param", "source", "track", "wbr"}
H_RAW = {"script", "style", "noscript"}      # raw text (noscript: scripting enabled)
H_RCDATA = {"textarea", "title"}              # raw text with character references
_TAG = re.compile(r"<([A-Za-z][^\s/>]*)")
_ATTR = re.compile(r"""[\s/]*([^\s=/>]+)(?:\s*=\s*(?:"([^"]*)"|'([^']*)'|([^\s>]+)))?""")
_WS = re.compile(r"[ \t\n\f\r]+")


def norm_attrs(pairs):
    """attribute SET: dict name -> value; class -> frozenset of tokens, style -> frozenset of declarations;
    an empty class/style is no attribute"""
    d = {}
    cls, sty = [], []
    for k, v in pairs:
        if k == "class":
            cls += [x for x in _WS.split(v) if x]
        elif k == "style":
            sty += [x.strip(" \t\n\f\r\v") for x in v.split(";")]
        elif k not in d:            # HTML: the first of duplicate attributes wins
            d[k] = v
    sty = [x for x in sty if x]
    if cls:
        d["class"] = frozenset(cls)
    if sty:
        d["style"] = frozenset(sty)
    return d


def add_text(children, s):
    if not s:
        return
    if children and children[-1][0] == "text":
        children[-1] = ("text", children[-1][1] + s)
    else:
        children.append(("text", s))


def parse_html(s, tolerate_title=False, noscript_html=False):
    """HTML subset -> forest of ('text', str) | ('elem', tag, attrs, children); comments dropped, text merged"""
    root = []
    stack = [(None, None, root)]
    i, n = 0, len(s)
    while i < n:
        cur = stack[-1][2]
        if s.startswith("<!--", i):
            j = s.find("-->", i + 4)
            i = n if j < 0 else j + 3
            continue
        if s.startswith("<!", i) or s.startswith("<?", i):
            j = s.find(">", i)
            i = n if j < 0 else j + 1
            continue
        if s.startswith("</", i):
            m = re.compile(r"</([A-Za-z][^\s/>]*)[^>]*>").match(s, i)
            if m:
                name = m.group(1)
                for d in range(len(stack) - 1, 0, -1):
                    if stack[d][0] == name:
                        while len(stack) > d:
                            tag, attrs, ch = stack.pop()
                            stack[-1][2].append(("elem", tag, attrs, ch))
                        break
                i = m.end()
                continue
        m = _TAG.match(s, i)
        if m:
            tag = m.group(1)
            j = m.end()
            pairs = []
            while True:
                while j < n and s[j] in " \t\n\f\r/":
                    j += 1
                if j >= n or s[j] == ">":
                    break
                am = _ATTR.match(s, j)
                if not am or am.end() == j:
                    j += 1
                    continue
                val = am.group(2) if am.group(2) is not None else am.group(3) if am.group(3) is not None else am.group(4)
                pairs.append((am.group(1), _html.unescape(val) if val is not None else ""))
                j = am.end()
            i = j + 1
            attrs = norm_attrs(pairs)
            if tag in H_VOID:
                cur.append(("elem", tag, attrs, []))
            elif (tag in H_RAW and not (noscript_html and tag == "noscript")) or tag in H_RCDATA:
                em = re.compile(r"</%s[\s/>]" % re.escape(tag), re.I).search(s, i)
                end = em.start() if em else n
                text = s[i:end]
                if tag in H_RCDATA:
                    if tolerate_title and tag == "title":
                        text = text.replace("<!>", "")      # what F-C18-f is about, see classify
                    text = _html.unescape(text)
                ch = []
                add_text(ch, text)
                cur.append(("elem", tag, attrs, ch))
                if em:
                    g = s.find(">", em.start())
                    i = n if g < 0 else g + 1
                else:
                    i = n
            else:
                stack.append((tag, attrs, []))
            continue
        j = s.find("<", i + 1)
        if j < 0:
            j = n
        add_text(cur, _html.unescape(s[i:j]))
        i = j
    while len(stack) > 1:
        tag, attrs, ch = stack.pop()
        stack[-1][2].append(("elem", tag, attrs, ch))
    return root


def expect_attrs(attrs, tag=""):
    pairs = []
    for a in attrs:
        k = a[0]
        if k == "p":
            a = [a[0], html_name(tag, a[1]), a[2]]
            v = a[2]
            if v[0] in ("lit", "str"):
                pairs.append((a[1], v[1]))
            elif v[0] == "num":
                pairs.append((a[1], v[2]))
            elif v[0] == "none":
                pairs.append((a[1], ""))
            elif v[0] in ("bool", "blit"):
                if v[1]:
                    pairs.append((a[1], ""))
            elif v[1] is not None:
                pairs.append((a[1], v[1]))
        elif k == "ct":
            if a[2] is None or a[2]:
                pairs.append(("class", a[1]))
        elif k == "cu":
            if a[2]:
                pairs += [("class", x) for x in a[1]]
        else:
            pairs.append(("style", "%s:%s" % (a[1], a[2])))
    return norm_attrs(pairs)


def spread_onto(roots, spreads):
    """attributes written on a component land on every root element of the view it returns"""
    if not spreads:
        return roots
    out = []
    for r in roots:
        if r[0] == "text":
            out.append(r)
            continue
        a = dict(r[2])
        for x in spreads:
            if x[0] in ("sa", "sd"):
                a[x[1]] = x[2]
            elif x[2]:
                a["class"] = frozenset(a.get("class", frozenset()) | {x[1]})
        out.append(("elem", r[1], a, r[3]))
    return out


def expect(tpl, out=None):
    """the tree the template denotes (written independently of Html/Macro.v's [denote])"""
    out = [] if out is None else out
    for n in tpl:
        if n[0] in ("t", "b"):
            add_text(out, n[1])
        elif n[0] == "f":
            expect(n[1], out)
        elif n[0] == "c":
            if n[1] == "Label":
                ch = []
                add_text(ch, n[2])
                roots = [("elem", "label", {}, ch)]
            elif n[1] == "Wrap":
                roots = [("elem", "section", {"class": frozenset(["w"])}, expect(n[2]))]
            elif n[1] == "Cond":
                roots = [("elem", "div", {"class": frozenset(["cond"])}, expect(n[2]))]
            else:                                   # Pass: the children themselves are the roots
                roots = expect(n[2])
            for r in spread_onto(roots, comp_spreads(n)):
                if r[0] == "text":
                    add_text(out, r[1])
                else:
                    out.append(r)
        else:
            tag, attrs, ch = n[1], n[2], n[3]
            inner = [a for a in attrs if a[0] == "p" and a[1] == "inner_html"]
            if inner:
                kids = parse_html(inner[0][2][1])
                attrs = [a for a in attrs if a not in inner]
            else:
                kids = [] if tag in H_VOID else expect(ch)
            out.append(("elem", tag, expect_attrs(attrs, tag), kids))
    return out


def strip_twin(forest):
    out = []
    for n in forest:
        if n[0] == "text":
            out.append(n)
        else:
            a = {k: v for k, v in n[2].items() if k != "data-twin"}
            out.append(("elem", n[1], a, strip_twin(n[3])))
    return out


def show_forest(f):
    def one(n):
        if n[0] == "text":
            return json.dumps(n[1], ensure_ascii=False)
        a = "".join(" %s=%s" % (k, json.dumps(sorted(v) if isinstance(v, frozenset) else v, ensure_ascii=False))
                    for k, v in sorted(n[2].items()))
        return "<%s%s>[%s]" % (n[1], a, " ".join(one(c) for c in n[3]))
    return " ".join(one(n) for n in f)


def first_diff(a, b, path="/"):
    """human-readable location of the first difference between two forests"""
    for i in range(max(len(a), len(b))):
        if i >= len(a):
            return "%s[%d]: missing, expected %s" % (path, i, show_forest([b[i]])[:120])
        if i >= len(b):
            return "%s[%d]: unexpected %s" % (path, i, show_forest([a[i]])[:120])
        x, y = a[i], b[i]
        if x[0] != y[0]:
            return "%s[%d]: %s vs %s" % (path, i, show_forest([x])[:80], show_forest([y])[:80])
        if x[0] == "text":
            if x[1] != y[1]:
                return "%s[%d]: text %r vs %r" % (path, i, x[1], y[1])
            continue
        if x[1] != y[1]:
            return "%s[%d]: element <%s> vs <%s>" % (path, i, x[1], y[1])
        if x[2] != y[2]:
            ks = sorted(set(x[2]) | set(y[2]))
            d = [k for k in ks if x[2].get(k) != y[2].get(k)]
            return "%s%s: attribute %s: %r vs %r" % (path, x[1], d[0], _plain(x[2].get(d[0])), _plain(y[2].get(d[0])))
        r = first_diff(x[3], y[3], path + x[1] + "/")
        if r:
            return r
    return None


def _plain(v):
    return sorted(v) if isinstance(v, frozenset) else v


def decode(b):
    return bytes(b).decode("utf-8", "replace")


def add_scope(forest, cls):
    """view! { class = "cls", … }: every element carries the scope class"""
    out = []
    for n in forest:
        if n[0] == "text":
            out.append(n)
        else:
            a = dict(n[2])
            a["class"] = frozenset(a.get("class", frozenset()) | {cls})
            out.append(("elem", n[1], a, add_scope(n[3], cls)))
    return out


def oracle(item, impl, tolerate_title=False):
    """impl = {variant: bytes list | '!…'}; the property demanded on the implementation alone"""
    want = expect(item["tpl"])
    if item.get("gclass") is not None:
        want = add_scope(want, item["gclass"])
    trees = {}
    for v in item.get("variants", (0, 1, 2)):
        o = impl.get(v)
        if o is None:
            return "variant %d produced no output" % v
        if isinstance(o, str):
            return "variant %d: %s" % (v, o)
        trees[v] = parse_html(decode(o), tolerate_title, bool(item.get("noscript_html")))
    names = {0: "view! (inert path where eligible)", 1: "forced-dynamic twin", 2: "template! (builder path)"}
    for v in sorted(trees):
        got = strip_twin(trees[v]) if v == 1 else trees[v]
        if got != want:
            return "%s does not render the tree the template denotes: %s" % (names[v], first_diff(got, want))
    if 0 in trees and 1 in trees and strip_twin(trees[1]) != trees[0]:
        return "adding a dynamic attribute changed how static parts render: %s" % first_diff(trees[0], strip_twin(trees[1]))
    if 0 in trees and 2 in trees and trees[0] != trees[2]:
        return "inert path and builder path yield different documents: %s" % first_diff(trees[0], trees[2])
    return None


def title_adjacent(tpl):
    """KnownClass of F-C18-f (Html/MacroProofs.v [title_adjacent]): some <title> has two text children"""
    for n in tpl:
        if n[0] == "e":
            if n[1] == "title" and len([c for c in n[3] if c[0] == "b" or (c[0] == "t" and c[1] != "")]) >= 2:
                return True
            if title_adjacent(n[3]):
                return True
        elif n[0] == "f" and title_adjacent(n[1]):
            return True
        elif n[0] == "c" and n[1] != "Label" and title_adjacent(n[2]):
            return True
    return False


def classify(item, impl, model):
    """F-C18-f: the failure disappears when the literal `<!>` inside <title> is ignored, and the template has a
    <title> with two text children; any other failure stays unclassified"""
    if title_adjacent(item["tpl"]) and oracle(item, impl) and not oracle(item, impl, tolerate_title=True):
        return "F-C18-f"
    return None


def describe(item):
    pre = "" if item.get("gclass") is None else "class = %s, " % rust_str(item["gclass"])
    return "view! { %s%s }" % (pre, rust_template(item["tpl"]))


def tree_of_sexp(f):
    """model's denote/parse output (sexp) -> oracle forest"""
    out = []
    for n in f:
        if n[0] == 0:
            add_text(out, decode(n[1]))
        else:
            out.append(("elem", decode(n[1]), norm_attrs([(decode(k), decode(v)) for k, v in n[2]]), tree_of_sexp(n[3])))
    return out


def cosmetic_difference(impl):
    """class/style attribute TEXT differs between variant 0 and 2 although the parsed sets agree (reported in the
    evidence only; see ASSUMPTIONS)"""
    a, b = impl.get(0), impl.get(2)
    if isinstance(a, list) and isinstance(b, list) and a != b:
        sa, sb = decode(a), decode(b)
        vals = lambda s: sorted(re.findall(r' (?:class|style)="([^"]*)"', s))
        return vals(sa) != vals(sb)
    return False


# ------------------------------------------------------------------------------------------ running
def build(items, gen_dir=GEN_DIR):
    write_shards(items, gen_dir)
    t0 = time.time()
    exe, log = C.build_harness(HARNESS, {"C18_GEN_DIR": gen_dir})
    return exe, log, time.time() - t0


def run_impl(exe, items):
    """-> list (per item) of {variant: bytes-list | '!panic …'}"""
    from concurrent.futures import ThreadPoolExecutor
    d = os.path.dirname(exe)
    exes = [exe] + [os.path.join(d, "h_macro_%d" % k) for k in range(1, N_BINS)]
    t0 = time.time()
    with ThreadPoolExecutor(N_BINS) as ex:
        outs = list(ex.map(lambda e: C.sh([e], 300), exes))
    res = [dict() for _ in items]
    for rc, out, _ in outs:
        for line in out.splitlines():
            line = line.strip()
            if not line:
                continue
            if line.startswith("!panic"):
                parts = line.split(" ", 2)
                idx = int(parts[1])
                for v in items[idx].get("variants", (0, 1, 2)):
                    res[idx].setdefault(v, "!panic " + (parts[2] if len(parts) > 2 else ""))
                continue
            try:
                v = C.parse_sx(line)
                res[v[0]][v[1]] = v[2]
            except Exception:
                pass
        if rc != 0:
            pass
    return res, time.time() - t0


def run_model(model_exe, items):
    """-> per item (model(t), model(twin t)) parsed sexps (None for oracle-only items)"""
    cases, where = [], []
    for i, it in enumerate(items):
        if it.get("compare", True):
            cases.append(to_case(it["tpl"]))
            where.append((i, 0))
            cases.append(to_case(twin(it["tpl"])))
            where.append((i, 1))
    lines, _, dt = C.run_sharded([model_exe], cases, shards=8, timeout=900)
    res = [[None, None] for _ in items]
    raw = [[None, None] for _ in items]
    for (i, k), l in zip(where, lines):
        res[i][k] = C.parse_sx(l) if not l.startswith("!") else l
        raw[i][k] = l
    return res, raw, cases, dt


def evaluate(items, exe, model_exe):
    impl, t_impl = run_impl(exe, items)
    model, model_raw, cases, t_model = run_model(model_exe, items)
    results = []
    for i, it in enumerate(items):
        r = dict(item=it, impl=impl[i], model=model[i], mismatch=None, oracle=None, spec_drift=None, instance=None)
        try:
            r["oracle"] = oracle(it, impl[i])
        except Exception as ex:
            r["oracle"] = "oracle crashed: %r" % (ex,)
        if it.get("compare", True):
            m, mt = model[i]
            if isinstance(m, str) or isinstance(mt, str) or m is None or mt is None:
                r["mismatch"] = "model failed: %r %r" % (m, mt)
            else:
                exp = {0: m[0], 1: mt[0], 2: m[1]}
                nm = {0: "view_html", 1: "view_html(twin)", 2: "builder_html"}
                for v in it.get("variants", (0, 1, 2)):
                    if impl[i].get(v) != exp[v]:
                        r["mismatch"] = "variant %d: to_html() = %r, model %s = %r" % (
                            v, decode(impl[i][v]) if isinstance(impl[i].get(v), list) else impl[i].get(v),
                            nm[v], decode(exp[v]))
                        break
                # instances of the theorems, evaluated by the extracted model itself
                # (elements below <noscript> are outside [wf]: Html/MacroParse.v reads noscript as raw text)
                r["instance"] = (((m[3] == m[4] == m[5]) and (mt[3] == mt[4] == mt[5]))
                                 or title_adjacent(it["tpl"]) or bool(it.get("noscript_html")))
                # the Coq [denote] is the tree the generator intended
                if tree_of_sexp(m[3]) != expect(it["tpl"]):
                    r["spec_drift"] = first_diff(tree_of_sexp(m[3]), expect(it["tpl"]))
        results.append(r)
    return results, t_impl, t_model, (cases, model_raw)


def shrink_candidates(tpl):
    """templates obtained by one deletion / simplification somewhere"""
    def nodes(l):
        for i in range(len(l)):
            yield l[:i] + l[i + 1:]
            n = l[i]
            if n[0] == "e":
                for j in range(len(n[2])):
                    yield l[:i] + [["e", n[1], n[2][:j] + n[2][j + 1:], n[3]]] + l[i + 1:]
                for sub in nodes(n[3]):
                    yield l[:i] + [["e", n[1], n[2], sub]] + l[i + 1:]
                if n[3]:
                    yield l[:i] + n[3] + l[i + 1:]
            elif n[0] == "f":
                for sub in nodes(n[1]):
                    yield l[:i] + [["f", sub]] + l[i + 1:]
            elif n[0] in ("t", "b") and len(n[1]) > 1:
                yield l[:i] + [[n[0], n[1][: len(n[1]) // 2]]] + l[i + 1:]
                yield l[:i] + [[n[0], n[1][len(n[1]) // 2:]]] + l[i + 1:]
    seen = []
    for c in nodes(tpl):
        if c and c not in seen:
            seen.append(c)
    return seen


def template_valid(tpl, noscript_html=False):
    """stay inside the generator's class while shrinking: text directly inside script/style/noscript is written
    verbatim, so it must not contain "</" (and, where noscript is read as markup, no '<' or '&')"""
    for n in tpl:
        if n[0] == "e":
            if n[1] in ("script", "style", "noscript"):
                direct = "".join(c[1] for c in n[3] if c[0] in ("t", "b"))
                if "</" in direct:
                    return False
                if noscript_html and n[1] == "noscript" and ("<" in direct or "&" in direct):
                    return False
                if n[1] != "noscript" and any(c[0] not in ("t", "b") for c in n[3]):
                    return False
            if not template_valid(n[3], noscript_html):
                return False
        elif n[0] == "f" and not template_valid(n[1], noscript_html):
            return False
        elif n[0] == "c" and n[1] != "Label" and not template_valid(n[2], noscript_html):
            return False
    return True


def shrink(item, kind, model_exe, rounds=3, width=60):
    """batch shrinking: every round compiles up to `width` one-step reductions at once"""
    cur = item
    gen_dir = os.path.join(C.BUILD, "c18" + _TAG_REPO, "shrink")
    for _ in range(rounds):
        cands = [c for c in shrink_candidates(cur["tpl"])
                 if template_valid(c, bool(cur.get("noscript_html")))][:width]
        if not cands:
            break
        its = [dict(cur, tpl=c) for c in cands]
        exe, log, _ = build(its, gen_dir)
        if exe is None:
            break
        rs, _, _, _ = evaluate(its, exe, model_exe)
        bad = [r for r in rs if (r["oracle"] if kind == "oracle" else r["mismatch"])
               and not str(r["oracle"]).startswith("oracle crashed")]
        if not bad:
            break
        cur = min(bad, key=lambda r: len(json.dumps(r["item"]["tpl"])))["item"]
    return cur


def load_corpus():
    items = []
    cdir = os.path.join(C.ROOT, "corpus", PID)
    if os.path.isdir(cdir):
        for fn in sorted(os.listdir(cdir)):
            if fn.endswith(".json"):
                for it in json.load(open(os.path.join(cdir, fn))):
                    it = dict(it)
                    it["origin"] = "corpus/" + fn
                    items.append(it)
    return items


def nontrivial(item, model):
    m = model[0] if model else None
    if not isinstance(m, list):
        return False
    dyn = json.dumps(item["tpl"])
    return m[0] != m[1] or any(x in dyn for x in ('"b"', '"str"', '"bool"', '"opt"', '"ct"', '"cu"', '"sp"', '"su"', '"num"', '"blit"'))


def setup():
    """build once: model + harness with the quick-tier batch (what ./check C18 will compile)"""
    C.build_model(PID)
    rng = random.Random(int(os.environ.get("VERIF_SEED", "20260930")))
    items = load_corpus() + list(generate(rng, "quick"))
    exe, log, dt = build(items)
    print("harness macro", "ok (%.0fs)" % dt if exe else "FAILED")
    if not exe:
        print(log[-3000:])
        raise RuntimeError("C18 harness build failed")


def main(tier, seed, replay):
    t0 = time.time()
    no_coq = "--no-coq" in sys.argv or bool(os.environ.get("VERIF_REPO"))
    violations, known_seen = [], []
    if no_coq:
        coq = dict(ok=True, obligations=0, discharged=0, assumptions=[], problems=[], cmd="(skipped)", theorems=[])
    else:
        coq = C.coq_check(PROPS_V, ALLOWED_AXIOMS)
    if not coq["ok"]:
        p = C.write_replay(PID, dict(kind="proof-obligation", property=PID, problems=coq["problems"],
                                     log=coq.get("log", "")[-4000:],
                                     note="theorems of %s no longer check" % PROPS_V))
        violations.append((p, " no-failing-input-found"))
    try:
        model_exe = C.build_model(PID)
    except Exception as ex:
        p = C.write_replay(PID, dict(kind="model-build", property=PID, error=str(ex)[-4000:]))
        print("VIOLATION property=%s replay=%s no-failing-input-found" % (PID, os.path.relpath(p, C.OUT)))
        finish(tier, seed, t0, coq, [], [(p, "")], [], 0, 0, 0, {})
        return 1

    if replay:
        payload = json.load(open(replay))
        it = payload.get("item")
        if it is None:
            print("replay file names a proof obligation / build problem, nothing to execute:")
            print(json.dumps({k: payload[k] for k in payload if k != "log"}, indent=1)[:2000])
            return 0 if coq["ok"] else 1
        exe, log, _ = build([it], os.path.join(C.BUILD, "c18" + _TAG_REPO, "replay"))
        if exe is None:
            print("the template no longer compiles:\n" + log[-3000:])
            return 1
        rs, _, _, _ = evaluate([it], exe, model_exe)
        r = rs[0]
        print("template:", describe(it))
        for v in sorted(r["impl"]):
            o = r["impl"][v]
            print("variant %d:" % v, decode(o) if isinstance(o, list) else o)
        print("model   :", r["mismatch"] or "agrees")
        print("oracle  :", r["oracle"])
        bad = r["oracle"] or r["mismatch"]
        print("RESULT  :", "still failing" if bad else "passes")
        return 1 if bad else 0

    rng = random.Random(seed)
    items = load_corpus()
    n_corpus = len(items)
    items += list(generate(rng, tier))
    exe, log, t_build = build(items)
    if exe is None:
        # a template that no longer compiles: find out which (bisect by building halves is too slow; report the log)
        p = C.write_replay(PID, dict(kind="harness-build", property=PID,
                                     note="the generated templates no longer compile against /repo's working tree "
                                          "(a template the macro used to accept is rejected, or the harness is broken)",
                                     log=log))
        print("VIOLATION property=%s replay=%s no-failing-input-found" % (PID, os.path.relpath(p, C.OUT)))
        finish(tier, seed, t0, coq, [], [(p, "")], [], 0, 0, n_corpus, {})
        return 1
    results, t_impl, t_model, (cases, model_raw) = evaluate(items, exe, model_exe)

    open_known = [k for k in C.load_known() if k["property"] == PID and k["status"] == "open"]
    orc_fail = [r for r in results if r["oracle"]]
    drift = [r for r in results if r["spec_drift"] or r["instance"] is False]
    mism = [r for r in results if r["mismatch"] and not r["oracle"]]
    new_fail = []
    for r in orc_fail:
        fid = classify(r["item"], r["impl"], r["model"])
        k = next((k for k in open_known if k["id"] == fid), None)
        if k is not None:
            if k["id"] not in [x["id"] for x in known_seen]:
                known_seen.append(dict(id=k["id"], what=k["what"], example=describe(r["item"])[:300]))
        else:
            new_fail.append(r)
    for k in known_seen:
        print("KNOWN-FINDING: property=%s %s [%s]" % (PID, k["what"], k["id"]))

    if new_fail:
        r = new_fail[0]
        it = shrink(r["item"], "oracle", model_exe)
        exe1, _, _ = build([it], os.path.join(C.BUILD, "c18" + _TAG_REPO, "replay"))
        rs = evaluate([it], exe1, model_exe)[0] if exe1 else [r]
        p = C.write_replay(PID, dict(kind="property-violation", property=PID, item=it,
                                     original=describe(r["item"]), readable=describe(it),
                                     impl={str(v): (decode(o) if isinstance(o, list) else o) for v, o in rs[0]["impl"].items()},
                                     model=(rs[0]["mismatch"] or ("model agrees with the implementation byte for byte"
                                                                  if it.get("compare", True) else "template outside the Coq model (compared by the oracle only)")),
                                     oracle=rs[0]["oracle"] or r["oracle"],
                                     other_failures=len(new_fail) - 1))
        violations.append((p, ""))
    elif drift:
        r = drift[0]
        p = C.write_replay(PID, dict(kind="model-inconsistent", property=PID, item=r["item"], readable=describe(r["item"]),
                                     note="the Coq denotation differs from the generator's intended tree, or a theorem "
                                          "instance evaluates to false: %s" % (r["spec_drift"] or "parse(view_html) <> denote")))
        violations.append((p, " no-failing-input-found"))
    elif mism:
        r = mism[0]
        it = shrink(r["item"], "mismatch", model_exe)
        exe1, _, _ = build([it], os.path.join(C.BUILD, "c18" + _TAG_REPO, "replay"))
        rs = evaluate([it], exe1, model_exe)[0] if exe1 else [r]
        p = C.write_replay(PID, dict(kind="correspondence-broken", property=PID, item=it, readable=describe(it),
                                     original=describe(r["item"]),
                                     mismatch=rs[0]["mismatch"] or r["mismatch"], oracle=rs[0]["oracle"],
                                     note="model %s and the compiled macro output disagree on this template (and %d "
                                          "others); the theorems of %s therefore no longer speak about /repo; the "
                                          "direct oracle found no template on which the property itself fails"
                                          % (MODEL_NAME, len(mism) - 1, PROPS_V)))
        violations.append((p, " no-failing-input-found"))

    extras = {}
    if tier == "thorough" and not no_coq:
        chk = C.coqchk(PROPS_V)
        extras["coqchk"] = dict(ok=chk["ok"], axioms=chk["axioms"], wall_s=chk["wall_s"])
        if not chk["ok"] or [a for a in chk["axioms"] if a not in ALLOWED_AXIOMS]:
            p = C.write_replay(PID, dict(kind="proof-obligation", property=PID, coqchk=chk,
                                         note="coqchk rejected %s or reported axioms outside the allow-list" % PROPS_V))
            violations.append((p, " no-failing-input-found"))
        pairs = [(c, o) for c, o in zip(cases, [x for pr in model_raw for x in pr if x is not None])][:: max(1, len(cases) // 150)][:150]
        n, bad, vlog = C.vm_crosscheck(PID, RUN_IMPORT, "run_" + PID, [c for c, _ in pairs], [o for _, o in pairs])
        extras["vm_compute_crosscheck"] = dict(cases=n, disagreements=len(bad))
        if bad:
            p = C.write_replay(PID, dict(kind="extraction-crosscheck", property=PID, bad_indices=bad, log=vlog,
                                         note="extracted model and vm_compute evaluation of run_%s disagree" % PID))
            violations.append((p, " no-failing-input-found"))
    extras["build_wall_s"] = round(t_build, 1)

    for p, suffix in violations:
        print("VIOLATION property=%s replay=%s%s" % (PID, os.path.relpath(p, C.OUT), suffix))
    finish(tier, seed, t0, coq, results, violations, known_seen, t_impl, t_model, n_corpus, extras)
    return 1 if violations else 0


def finish(tier, seed, t0, coq, results, violations, known_seen, t_impl, t_model, n_corpus, extras):
    distinct, hist = {}, {}
    inert_used = dyn = cosmetic = 0
    for r in results:
        it = r["item"]
        hist[it.get("kind", "?")] = hist.get(it.get("kind", "?"), 0) + 1
        try:
            if nontrivial(it, r["model"]):
                distinct[C.case_hash(json.dumps(it["tpl"]))] = 1
            m = r["model"][0]
            if isinstance(m, list) and m[0] != m[1]:
                inert_used += 1
            if cosmetic_difference(r["impl"]):
                cosmetic += 1
        except Exception:
            pass
    samples = []
    step = max(1, len(results) // 4) if results else 1
    for r in results[::step][:5]:
        samples.append(dict(template=describe(r["item"])[:400], kind=r["item"].get("kind"),
                            impl={str(v): (decode(o)[:300] if isinstance(o, list) else o) for v, o in r["impl"].items()},
                            model_agrees=not r["mismatch"]))
    compared = [r for r in results if r["item"].get("compare", True)]
    ev = dict(
        property_id=PID, tier=tier, seed=seed, level="proof",
        coverage=dict(
            obligations=coq["obligations"], discharged=coq["discharged"],
            checker_cmd=coq.get("cmd", ""), theorems=coq.get("theorems", []),
            print_assumptions=("all Closed under the global context" if not coq["assumptions"] else coq["assumptions"]),
            proof_problems=coq["problems"],
            trusted_base=list(TRUSTED),
            evaluations=len(results),
            renderings=sum(len(r["impl"]) for r in results),
            distinct_nontrivial=len(distinct),
            rule=RULE,
            traces_validated_against_impl=len(compared),
            correspondence_mismatches=sum(1 for r in results if r["mismatch"]),
            oracle_failures=sum(1 for r in results if r["oracle"]),
            theorem_instances_evaluated=sum(1 for r in compared if r["instance"]),
            templates_taking_the_inert_path=inert_used,
            class_style_text_differs_between_paths_same_set=cosmetic,
            corpus_cases=n_corpus, case_kinds=hist, samples=samples,
            known_findings_seen=known_seen,
            impl_wall_s=round(t_impl, 2), model_wall_s=round(t_model, 2),
            exhaustive=False, partial=True,
            **extras),
        assumptions=list(ASSUMPTIONS),
        wall_s=round(time.time() - t0, 2),
        violations=len(violations),
    )
    C.write_evidence(PID, ev)
