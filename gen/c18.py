"""C18 — the `view!` macro renders what the template says.

This property has its own flow (`main`, `setup`): cases are Rust SOURCE. A batch of templates is
written to .build/c18/gen/shard_<k>.rs, compiled once (harness/macro, sixteen binaries built in
parallel, offline, against /repo's working tree), every template rendered three ways

    variant 0   view! { T }                        the macro as written (inert path where eligible)
    variant 1   view! { T + data-twin={..} on every element }   forced-dynamic twin (nothing is inert)
    variant 2   template! { T }                    the macro with the inert path disabled
    variant 3   include_view!(file holding T)      (fixed cases)
    10+v / 20+v the same variant through to_html_stream_in_order / _out_of_order (printed when they differ)
    100+v       the same variant from the build with --cfg erase_components (fixed cases, sweeps, a sample)

and the `to_html()` bytes compared (a) byte for byte with the extracted Coq model of both macro
paths, (b) by an independent oracle: a Python HTML parser, normalisation (comments dropped,
adjacent text merged, attributes as sets, class = token set, style = declaration set), against
the tree the generator intended and against each other.
"""
import html as _html
import json
import os
import random
import re
import shutil
import sys
import time

from . import common as C
from . import c18_tables as T

PID = "C18"
PROPS_V = "theories/Props/Properties_C18.v"
MODEL_NAME = "Html/Macro.v"
HARNESS = "macro"
ALLOWED_AXIOMS = []
RUN_IMPORT = "Html.MacroRun"
READY = True

N_BINS = 16
import hashlib as _hashlib
_TAG_REPO = "" if C.REPO == "/repo" else "-" + _hashlib.sha1(C.REPO.encode()).hexdigest()[:8]
GEN_DIR = os.path.join(C.BUILD, "c18" + _TAG_REPO, "gen")

RULE = ("templates drawn from one PRNG (VERIF_SEED) over the grammar: elements (HTML normal, void, SVG, custom, "
        "raw-text script/style/noscript, escapable raw text textarea/title) nested to depth 4, static attributes (string literal, no "
        "value), dynamic attributes ({String}, {bool}, {Option<String>}), class:name / class:name={bool}, "
        "class=(\"n\", bool) / class=([..], bool), style:prop=\"v\" / style:prop={..} / style=(\"p\", \"v\"), text "
        "literals (also empty), {String} blocks, fragments, twelve fixed components (children as Children / ChildrenFn / "
        "ChildrenFragment / TypedChildren / a closure taking let:item / none / ONE text or format!() child; optional, "
        "nostrip:, defaulted, generic props; one slot, several slots of one name with props, slot:name; clone:) with every "
        "spread form attribute_absolute knows (attr:x, attr:class/style/aria-*, attr:a-b-c, class:, style:, plain attributes "
        "after {..}), the scope-class form (literal or identifier; static and dynamic templates, next to components and nested "
        "view!), ordinary elements with markup-significant text below <noscript>; since the anchor-coverage audit "
        "(coverage/C18.md) also: a SWEEP naming every element constructor (113 HTML, 62 SVG + use/use_, 31 MathML) and "
        "every typed attribute method (243 element-specific, 28 global, 68 on*, 48 aria in both spellings, 34 MathML) of "
        "gen/c18_tables.py, each written statically below a wrapper; nodes with 15..34 and 257 children in every container "
        "(element, top-level fragment, <>, component, slot); comments, a doctype, unquoted text; attributes that render "
        "nothing (on:, prop:, use:, node_ref) and {..spread} inside otherwise static subtrees; {expr} children and "
        "attribute values of other types (&str, Arc<str>, Oco borrowed/owned/counted, i32, f64, char, Option, Vec, (), "
        "closures, bool.then, nested view!); inner_html of every representation; strings from a pool with "
        "markup-significant content (<, >, &, \", ', </p>, <!-- -->, entities, unicode, newlines, surrounding "
        "blanks). Every template is compiled as written, as its forced-dynamic twin and (where ToTemplate allows) with "
        "template!; the fixed cases also through include_view!; a third of them is additionally rendered through "
        "to_html_stream_in_order / to_html_stream_out_of_order, and the fixed cases, the sweeps and a sample are compiled a "
        "second time with --cfg erase_components. A case is "
        "non-trivial when the macro actually took its inert path somewhere in variant 0 (the model's view_html "
        "differs from its builder_html) or the template has a dynamic part; distinct = distinct template hash.")
TRUSTED = [
    "Coq 8.16.1 kernel (coqc); no axioms: every theorem of Properties_C18.v is 'Closed under the global context'",
    "extraction to OCaml with ExtrOcamlBasic only, ocamlfind ocamlopt, extract/driver.ml sexp I/O",
    "harness/macro (Rust): generated view!/template!/include_view! invocations compiled by rustc against /repo's leptos "
    "(ssr; a second time with --cfg erase_components); to_html() and the two streaming exits of each; helper fns "
    "s/tb/fb/so/no/sr/arc/oco/n/fl/ch supply the dynamic values",
    "modelled, not verified (transcribed in Html/Macro.v and compared byte for byte with the real output on every "
    "template of every run): the part of tachys that renders what the builder path constructs "
    "(HtmlElement::to_html_with_buf, attributes_to_html, Class/Style/AttributeValue::to_html, &str/String/tuple "
    "RenderHtml, InertElement, the SELF_CLOSING/ESCAPE_CHILDREN tables), html_escape::{encode_text, "
    "encode_double_quoted_attribute}, slice::sort_by on < 21 elements (insertion sort), str::trim on ASCII blanks",
    "compared only, NOT modelled (PARTIAL): rstml parsing of the macro input, token plumbing / quote!, component and "
    "slot expansion (twelve fixed components are rendered and checked by the oracle only), spreads, "
    "inner_html, the doctype, the global class form (events, directives, properties, node refs are ONE model "
    "constructor ASilent, comments NComment: what they are called with is not modelled), {expr} children that are "
    "not strings (Option, Vec, (), closures, nested view!), the streaming exits to_html_async_with_buf (must render the "
    "bytes of to_html(), otherwise judged by the oracle), the erase_components configuration (judged by the oracle), the "
    "resolution of the `use_` spelling of SVG <use> (the case encoder hands the model `use`) and of a / script / title "
    "by the parent's namespace",
    "NOT exercised: the nightly-only Static<..> strings and view markers (no nightly toolchain), bind:, on:x:target, "
    "directives with a parameter, prop:/on:/use: on components, the client-side halves (build / rebuild / hydrate)",
    "Html/MacroParse.v is a parser for the EMITTED subset (double-quoted attributes, <!..> comments, four raw-text "
    "elements, the escapers' character references); the oracle's Python parser is written separately (and reads "
    "script / style / title / textarea below <svg> / <math> as ordinary elements: HTML rules for foreign content)",
]
ASSUMPTIONS = [
    "a {String} block never evaluates to the empty string (tachys then renders a placeholder blank: finding F-C05 of "
    "the hydration property, not a macro matter)",
    "class/style strings do not begin or end with non-ASCII Unicode white space (str::trim would remove it, the "
    "inert path keeps it)",
    "text inside script/style/noscript does not contain '</' (raw text is emitted verbatim by both paths: "
    "property C06, finding F-C06-b)",
    "the theorems cover raw-text elements that hold text only; elements below <noscript> (legal HTML, read as markup "
    "only with scripting disabled) are generated, compared byte for byte with the model and checked by the oracle with "
    "noscript read as an ordinary element, and the model theorem C18_element_ignores_parent_escape states that an "
    "element renders the same bytes whatever escape flag its parent hands down",
    "the theorems do not cover elements named script / style / noscript below an SVG / MathML element (wf excludes "
    "them: the HTML parser reads them as ordinary elements there, Html/MacroParse.v knows raw-text elements by name); "
    "the model threads the parent namespace and the inert path's foreign-content flag, so such templates are compared "
    "byte for byte and judged by the oracle (open finding F-C18-l where the two paths escape differently)",
    "tag and attribute names consist of ASCII letters, digits, '-', '_', ':'; void elements have no children; the "
    "obsolete <param> (void for the macro, unknown to tachys) is not used",
    "an element has at most 26 attributes: beyond that the builder path stops with tachys' run-time "
    "todo!(\"adding more than 26 attributes is not supported\") where the inert path renders (a documented limit; the "
    "boundary 25/26 is exercised)",
    "class is read as a set of white-space separated tokens and style as a set of ';'-separated declarations "
    "(DOM reading): `class=\"  a   b \"` vs `class=\"a   b\"` and `style=\"a:b\"` vs `style=\"a:b;\"` — which is how "
    "the two paths differ textually — are the same attribute; attribute ORDER is not compared",
]
LEVEL_TEXT = ("Coq proofs, for all well-formed templates, that the HTML of the inert path and of the builder path "
              "(and of any mixture the macro chooses) parses to the same element tree with the same attribute sets "
              "and text, that this tree is the denotation of the template, and that a static part renders as its "
              "own denotation in every context — about an executable Gallina transcription of both macro paths "
              "and of the tachys renderer they target; tied to /repo by compiling about 900 generated templates "
              "per run (as written, forced-dynamic twin, template!, include_view!; a sweep over every element constructor "
              "and typed attribute method; also through the streaming exits and in the erase_components configuration) and "
              "comparing to_html() byte for byte with the "
              "extracted model, plus an independent Python parse-and-compare oracle. PARTIAL: rstml parsing, token "
              "plumbing, component/slot expansion, spreads, non-string blocks and the alternative exits / configuration are "
              "compared only, not modelled; script / style / noscript below SVG / MathML are outside the theorems (modelled and compared; open finding F-C18-l).")
LEVEL_NOTE = ("Trusted: Coq kernel, extraction + OCaml driver, rustc, the harness. Modelled not verified: tachys SSR "
              "of elements/attributes/strings/tuples, html_escape, small-slice sort_by. Partial: see trusted_base.")
TECHNIQUE = ("Coq proof (structural induction over templates, a byte-at-a-time parser state machine) + differential "
             "correspondence of the extracted model with compiled macro output")

# ------------------------------------------------------------------------------------------ grammar
RUST_KW = {"type", "for", "as", "loop", "async"}
VOID = ["br", "hr", "img", "input", "meta", "link", "wbr", "source", "area", "base", "col", "embed", "track"]
NORMAL = ["div", "p", "span", "section", "ul", "li", "b", "i", "em", "h1", "a", "button", "label", "pre", "main",
          "article", "strong", "td", "option", "title", "form"]
RAW = ["script", "style", "noscript", "textarea"]
SVG_ROOT = "svg"
SVG_CHILD = ["g", "circle", "rect", "path", "text", "line", "defs", "tspan", "clipPath", "linearGradient"]
CUSTOM = ["my-el", "x-widget-2"]

GLOBAL_ATTRS = ["id", "title", "lang", "dir", "role", "tabindex", "accesskey", "slot", "data-a", "data-b-c",
                "aria-label", "aria-hidden", "aria_current"]
GLOBAL_BOOL = ["hidden", "inert", "autofocus", "itemscope", "data-flag"]
ELEM_ATTRS = {
    "input": (["type", "value", "name", "placeholder"], ["disabled", "checked", "readonly", "required"]),
    "a": (["href", "target", "rel"], []),
    "img": (["src", "alt", "width", "height"], []),
    "label": (["for"], []),
    "button": (["type", "name", "value"], ["disabled"]),
    "option": (["value", "label"], ["selected", "disabled"]),
    "td": (["colspan", "headers"], []),
    "meta": (["name", "content", "charset", "http_equiv"], []),
    "form": (["action", "method", "accept_charset"], ["novalidate"]),
    "link": (["rel", "href", "as"], []),
    "script": (["type", "src"], ["async", "defer"]),
    "style": (["media"], []),
    "textarea": (["name", "rows", "placeholder"], ["disabled", "readonly"]),
    "source": (["src", "type"], []), "area": (["alt", "href"], []), "base": (["href"], []),
    "col": (["span"], []), "embed": (["src", "type"], []), "track": (["src", "kind", "label"], ["default"]),
}
ANY_ATTRS = ["foo", "some-attr", "x_y", "viewBox", "xlink:href", "d", "r", "cx", "fill"]   # custom elements / SVG

TEXTS = ["x", "hello world", "a<b", "a&b", "\"q\"", "it's", ">", "</p>", "&amp;", "&lt;b&gt;", "é€😀", " lead",
         "trail ", "a\nb", "<!-- c -->", "<script>alert(1)</script>", "]]>", "&#39;", "a=b", "/>", "{}", "\\", "\t",
         "100%", "<", "&", "<!>", "a < b && c > d", " ", "x y", "&quot;", "<br>", "1", "", "", " "]
RAW_TEXTS = ["x", "a<b", "a>b", "p{color:red}", "if (a < b && c) { d() }", "\"q\"", "it's", "<!-- c -->", "a\nb", "é€😀",
             "<", "<b>", "", "]]>", "1 << 2"]
TEXTAREA_TEXTS = ["x", "a<b", "a>b", "\"q\"", "line\nline", "é", "<b>bold", ""]
VALUES = ["a", "", "a b", "a\"b", "it's", "<", ">", "&", "a&amp;b", "</p>", "é€😀", " x ", "1", "x\ny", "a=b", "'\"'",
          "&lt;", "javascript:alert(1)", "#frag", "100%", "\\"]
CLASS_VALUES = ["a", "a b", "  a   b ", "", " ", "a\tb", "x-1 y_2", "a a", "é", "a\nb ", "c<d", "q\"r"]
CLASS_NAMES = ["foo", "bar", "b-1", "on", "a", "md:flex", "hover:bg-red-500", "card--active", "w.half", "p-2",
               "lg:hover:x-1", "-m-1"]
STYLE_VALUES = ["a:b", "color:red;", " a:b ; c:d ", "", "x:y;;z:w", "background:url(\"i.png\")", "a:b;", " ", "w:1px ;"]
STYLE_PROPS = ["color", "top", "margin-left", "--v", "--accent-color", "background-color"]
STYLE_PVALS = ["red", "1px", "a b", "\"x\"", "0", "calc(1px + 2px)", "<"]


# non-string literals as attribute values: (source spelling, what Display / to_string() gives)
NUM_LITS = [("3", "3"), ("2.50", "2.5"), ("1.0", "1"), ("1e3", "1000"), ("0.5", "0.5"), ("1_000", "1000"), ("0x10", "16"),
            ("2.5e-1", "0.25"), ("-1", "-1"), ("-2.50", "-2.5"), ("'c'", "c"), ("'<'", "<"), ("'\"'", "\""), ("10u8", "10"),
            ("1.5f32", "1.5"), ("100.0", "100"), ("0", "0")]


RUST_CHARS = {"c": "'c'", "<": "'<'", "&": "'&'", "\"": "'\"'", " ": "' '", "é": "'é'"}
NODE_REF_TYPES = {"div": "Div", "p": "P", "span": "Span"}


GC_VALUE = "g<\"c"          # harness/macro/src/lib.rs: pub const GC


def pick(rng, l):
    return l[rng.randrange(len(l))]


def gen_attrs(rng, tag, kind, dyn_p):
    """attributes of one element; dyn_p = probability that an attribute is a dynamic form"""
    out, used = [], set()
    strs, bools = list(GLOBAL_ATTRS), list(GLOBAL_BOOL)
    if kind in ("svg", "custom"):
        strs += ANY_ATTRS
    es, eb = ELEM_ATTRS.get(tag, ([], []))
    strs += es + es
    bools += eb + eb
    n = pick(rng, [0, 0, 1, 1, 2, 2, 3, 4])
    for _ in range(n):
        r = rng.random()
        if r < 0.50:
            name = pick(rng, strs)
            if name in used:
                continue
            used.add(name)
            d = rng.random()
            if d >= dyn_p:
                if rng.random() < 0.12:
                    src, shown = pick(rng, NUM_LITS)
                    out.append(["p", name, ["num", src, shown]])     # value=2.50: a literal, but not a string
                else:
                    out.append(["p", name, ["lit", pick(rng, VALUES)]])
            elif d < dyn_p * 0.6:
                out.append(["p", name, ["str", pick(rng, VALUES)]])
            elif d < dyn_p * 0.8:
                out.append(["p", name, ["opt", pick(rng, [None, pick(rng, VALUES)])]])
            else:
                out.append(["p", name, ["bool", rng.random() < 0.5]])
        elif r < 0.62:
            name = pick(rng, bools)
            if name in used:
                continue
            used.add(name)
            if rng.random() >= dyn_p:
                if rng.random() < 0.15:
                    out.append(["p", name, ["blit", rng.random() < 0.6]])   # hidden=true / hidden=false
                else:
                    out.append(["p", name, ["none"]])
            else:
                out.append(["p", name, ["bool", rng.random() < 0.6]])
        elif r < 0.76:
            if "class" in used:
                continue
            used.add("class")
            if rng.random() >= dyn_p:
                out.append(["p", "class", ["lit", pick(rng, CLASS_VALUES)]])
            else:
                out.append(["p", "class", ["str", pick(rng, CLASS_VALUES)]])
        elif r < 0.86:
            if "style" in used:
                continue
            used.add("style")
            if rng.random() >= dyn_p:
                out.append(["p", "style", ["lit", pick(rng, STYLE_VALUES)]])
            else:
                out.append(["p", "style", ["str", pick(rng, STYLE_VALUES)]])
        elif r < 0.93:
            # class:name toggles / tuples (always builder path)
            if rng.random() < dyn_p + 0.25:
                nm = pick(rng, CLASS_NAMES)
                if ("ct", nm) in used:
                    continue
                used.add(("ct", nm))
                f = rng.random()
                if f < 0.35:
                    out.append(["ct", nm, None])
                elif f < 0.7:
                    out.append(["ct", nm, rng.random() < 0.6])
                else:
                    names = [nm] if rng.random() < 0.6 else [nm, nm + "2"]
                    if any(("ct", x) in used for x in names[1:]):
                        continue
                    for x in names:
                        used.add(("ct", x))
                    out.append(["cu", names, rng.random() < 0.6, len(names) > 1 or rng.random() < 0.3])
        else:
            if rng.random() < dyn_p + 0.25:
                pr = pick(rng, STYLE_PROPS)
                if ("sp", pr) in used:
                    continue
                used.add(("sp", pr))
                f = rng.random()
                if f < 0.7:
                    out.append(["sp", pr, pick(rng, STYLE_PVALS), rng.random() < 0.5])
                else:
                    out.append(["su", pr, pick(rng, STYLE_PVALS)])
    return out


def gen_text(rng, dyn_p, pool=TEXTS):
    s = pick(rng, pool)
    if rng.random() < dyn_p * 0.6 and s != "":
        return ["b", s]
    return ["t", s]


def gen_children(rng, depth, dyn_p, in_svg=False):
    n = pick(rng, [0, 1, 1, 2, 2, 3, 4]) if depth > 0 else pick(rng, [0, 1, 1, 2])
    out = []
    for _ in range(n):
        r = rng.random()
        if depth <= 0 or r < 0.42:
            out.append(gen_text(rng, dyn_p))
        elif r < 0.47 and not in_svg:
            out.append(["f", gen_children(rng, depth - 1, dyn_p)])
        else:
            out.append(gen_elem(rng, depth - 1, dyn_p, in_svg))
    return out


def gen_elem(rng, depth, dyn_p, in_svg=False):
    if in_svg and rng.random() < 0.12:
        # names the macro resolves by the parent's namespace; text with markup-significant characters
        tag = pick(rng, ["style", "script", "title", "a", "style"])
        ch = [gen_text(rng, dyn_p, ["a<b", "p>q{}", "x&y", "safe", "1 << 2", "é"]) for _ in range(pick(rng, [1, 1, 2]))]
        if tag == "title":
            ch = ch[:1]
        attrs = pick(rng, [[], [["p", "id", ["lit", "k"]]], [["p", "id", ["str", "k"]]] if dyn_p else []])
        return ["e", tag, attrs, ch]
    if in_svg:
        tag = pick(rng, SVG_CHILD)
        ch = gen_children(rng, depth, dyn_p, True) if tag in ("g", "text", "defs", "tspan") else []
        return ["e", tag, gen_attrs(rng, tag, "svg", dyn_p), ch]
    r = rng.random()
    if r < 0.60:
        tag = pick(rng, NORMAL)
        ch = gen_children(rng, depth, dyn_p)
        if tag == "title":
            ch = [c for c in ch if c[0] in ("t", "b")]
        return ["e", tag, gen_attrs(rng, tag, "html", dyn_p), ch]
    if r < 0.74:
        tag = pick(rng, VOID)
        return ["e", tag, gen_attrs(rng, tag, "html", dyn_p), []]
    if r < 0.82:
        return ["e", SVG_ROOT, gen_attrs(rng, SVG_ROOT, "svg", dyn_p), gen_children(rng, depth, dyn_p, True)]
    if r < 0.89:
        tag = pick(rng, CUSTOM)
        return ["e", tag, gen_attrs(rng, tag, "custom", dyn_p), gen_children(rng, depth, dyn_p)]
    tag = pick(rng, RAW)
    pool = TEXTS if tag == "textarea" else RAW_TEXTS
    ch = [gen_text(rng, dyn_p, pool) for _ in range(pick(rng, [0, 1, 1, 2, 3]))]
    ch = [c for c in ch if not (c[0] == "b" and c[1] == "")]
    while tag != "textarea" and "</" in "".join(c[1] for c in ch):
        ch = ch[:-1]
    return ["e", tag, gen_attrs(rng, tag, "html", dyn_p), ch]


def gen_template(rng):
    """top level: one element (most common), or several nodes (a fragment)"""
    dyn_p = pick(rng, [0.0, 0.0, 0.0, 0.1, 0.25, 0.5])
    depth = pick(rng, [1, 2, 2, 3, 3, 4])
    r = rng.random()
    if r < 0.7:
        # a wrapper whose children are candidates for the inert path
        tag = pick(rng, ["div", "section", "main", "ul", "p", "my-el"])
        ch = gen_children(rng, depth, dyn_p)
        if not ch:
            ch = [gen_elem(rng, depth - 1, dyn_p)]
        return [["e", tag, gen_attrs(rng, tag, "html" if tag != "my-el" else "custom", dyn_p), ch]]
    if r < 0.9:
        return gen_children(rng, depth, dyn_p) or [["t", "x"]]
    return [gen_elem(rng, depth, dyn_p)]


def gen_template_static(rng):
    tag = pick(rng, ["div", "section", "main", "ul"])
    ch = gen_children(rng, 2, 0.0) or [gen_elem(rng, 1, 0.0)]
    t = [["e", tag, gen_attrs(rng, tag, "html", 0.0), ch]]

    def strip(l):
        # class toggles / tuples are fine; keep everything, the grammar at dyn_p = 0 has no dynamic class=
        return l
    return strip(t)


SAFE_TEXTS = ["x", "hello world", "it's", "a=b", "100%", " lead", "trail ", "é€😀"]
HOT_TEXTS = ["a < b", "a<b", "a&b", "&amp;", "</p>", "\"q\" & <i>", ">", "<script>alert(1)</script>", "&lt;", "1 << 2 && 3"]


def gen_below_noscript(rng, depth, dyn_p):
    """an ordinary element with markup-significant text, to be placed below <noscript>: whatever renders it
    (inert path or builder path) must escape by the element's OWN kind, not by the raw-text ancestor's"""
    tag = pick(rng, ["p", "span", "div", "b", "a", "li", "my-el"])
    attrs = gen_attrs(rng, tag, "custom" if tag == "my-el" else "html", dyn_p)
    ch = []
    for _ in range(pick(rng, [1, 1, 2, 3])):
        r = rng.random()
        if depth > 1 and r < 0.3:
            ch.append(gen_below_noscript(rng, depth - 1, dyn_p))
        elif r < 0.3 + dyn_p:
            ch.append(["b", pick(rng, HOT_TEXTS)])
        else:
            ch.append(["t", pick(rng, HOT_TEXTS + SAFE_TEXTS[:2])])
    return ["e", tag, attrs, ch]


def gen_noscript_template(rng):
    dyn_p = pick(rng, [0.0, 0.0, 0.3, 0.6])
    kids = []
    for _ in range(pick(rng, [1, 1, 2, 3])):
        if rng.random() < 0.25:
            kids.append(["t", pick(rng, SAFE_TEXTS)])          # direct text is written verbatim: keep it harmless
        else:
            kids.append(gen_below_noscript(rng, pick(rng, [1, 2, 2]), dyn_p))
    ns = ["e", "noscript", gen_attrs(rng, "noscript", "html", dyn_p), kids]
    r = rng.random()
    if r < 0.35:
        return [ns]                                             # top level: noscript itself on the builder path
    if r < 0.8:
        return [["e", pick(rng, ["div", "section", "main"]), gen_attrs(rng, "div", "html", dyn_p),
                 [ns] + ([gen_text(rng, dyn_p)] if rng.random() < 0.5 else [])]]
    return [["e", "div", [], [["e", "p", [["p", "id", ["lit", "w"]]], [ns]]]]]   # depth 3


def gen_spreads(rng):
    out = []
    for _ in range(pick(rng, [0, 1, 1, 2])):
        r = rng.random()
        if r < 0.4:
            out.append(["sa", pick(rng, ["data-sp", "data-k2"]), pick(rng, VALUES)])
        elif r < 0.6:
            out.append(["sd", pick(rng, ["data-sp", "data-k2"]), pick(rng, VALUES)])
        else:
            out.append(["sc", pick(rng, ["sp-on", "x1"]), rng.random() < 0.7])
    seen, uniq = set(), []
    for x in out:
        if x[1] not in seen:
            seen.add(x[1])
            uniq.append(x)
    return uniq


def gen_spread_template(rng):
    """a component with attributes spread onto its view; children static (candidates for the inert path) or dynamic"""
    dyn_p = pick(rng, [0.0, 0.0, 0.0, 0.3])
    kids = []
    for _ in range(pick(rng, [1, 1, 2, 3])):
        r = rng.random()
        if r < 0.2:
            kids.append(gen_text(rng, dyn_p))
        else:
            e = gen_elem(rng, pick(rng, [0, 1, 2]), dyn_p)
            if e[1] in RAW or e[1] == "title":
                e = ["e", "p", [], [["t", "x"]]]
            kids.append(e)
    if not any(k[0] == "e" for k in kids):
        kids.append(["e", "p", [["p", "class", ["lit", "s"]]], [["t", "a < b"]]])
    comp = ["c", pick(rng, ["Pass", "Pass", "Pass", "Wrap", "Cond"]), kids, gen_spreads(rng)]
    r = rng.random()
    if r < 0.4:
        return [comp]
    if r < 0.8:
        return [["e", pick(rng, ["main", "div"]), [], [comp] + ([gen_text(rng, 0.0)] if rng.random() < 0.5 else [])]]
    return [["c", "Pass", [["e", "div", [], [comp]]], gen_spreads(rng)]]


def gen_component_template(rng):
    if rng.random() < 0.6:
        return gen_spread_template(rng)
    inner = gen_children(rng, 2, pick(rng, [0.0, 0.2])) + [["e", "b", [], [["t", "w"]]]]
    if rng.random() < 0.6:
        return [["e", "div", [], [["c", "Wrap", inner], ["t", pick(rng, TEXTS)]]]]
    return [["e", "p", [["p", "id", ["lit", "k"]]], [["c", "Label", pick(rng, [x for x in TEXTS if x])], ["e", "b", [], [["t", "z"]]]]]]


# ------------------------------------------------------------------------------------------ sweeps
def _lit(n, v):
    return ["p", n, ["lit", v]]


def sweep_attr(rng, name):
    if rng.random() < 0.2:
        return ["p", name, ["none"]]
    return _lit(name, pick(rng, VALUES))


def sweep_children(rng, tag):
    if tag in T.HTML_VOID:
        return []
    if tag in ("script", "style"):
        return [["t", pick(rng, [x for x in RAW_TEXTS if x and "</" not in x])]]
    if tag == "noscript":
        return [["t", pick(rng, SAFE_TEXTS)]]
    if tag in ("textarea", "title"):
        return [["t", pick(rng, [x for x in TEXTS if x])]]
    ch = [["t", pick(rng, [x for x in TEXTS if x])]]
    if rng.random() < 0.4:
        ch.append(["e", "b", [], [["t", pick(rng, HOT_TEXTS)]]])
    return ch


def chunks(l, n):
    return [l[i:i + n] for i in range(0, len(l), n)]


MAX_ATTRS = 24       # tachys: "adding more than 26 attributes is not supported" (run-time todo!() on the builder path)


def gen_sweep(rng):
    """EVERY element constructor and EVERY typed attribute method the macro can emit (gen/c18_tables.py), each
    written statically below a wrapper (inert path) — its forced-dynamic twin and template! call the builder"""
    out = []
    els = []
    for tag, attrs in T.HTML_ELEMENTS.items():
        groups = chunks(attrs, MAX_ATTRS - 4) or [[]]
        for g in groups:
            a = [sweep_attr(rng, x) for x in g]
            if not a and tag in T.HTML_VOID:
                a = [_lit("id", "v")]            # <br/> without attributes is never inert
            els.append(["e", tag, a, sweep_children(rng, tag)])
    for g in chunks(els, 6):
        out.append(dict(tpl=[["e", "div", [], g]], kind="sweep-html"))
    for names, kind in ((T.GLOBAL_ATTRIBUTES, "sweep-global"), (T.GLOBAL_ON_ATTRIBUTES, "sweep-global-on")):
        for g in chunks(names, 14):
            out.append(dict(tpl=[["e", "div", [], [["e", "p", [sweep_attr(rng, x) for x in g], [["t", "x"]]]]]], kind=kind))
    for k, g in enumerate(chunks(T.ARIA_ATTRIBUTES, 12)):
        names = [x if (i + k) % 2 else x.replace("_", "-") for i, x in enumerate(g)]
        out.append(dict(tpl=[["e", "div", [], [["e", pick(rng, ["p", "span", "input"]), [sweep_attr(rng, x) for x in names], []]]]],
                        kind="sweep-aria"))
    svg = [x for x in T.SVG_ELEMENTS if x not in ("script", "style", "svg")] + ["use", "use_"]
    for g in chunks(svg, 8):
        kids = []
        for tag in g:
            a = [_lit(pick(rng, ANY_ATTRS), pick(rng, VALUES))] if rng.random() < 0.7 else []
            if tag in ("a", "title"):
                a = [_lit("id", pick(rng, VALUES))]     # among siblings these are html::a / html::title: typed attributes
            ch = [["t", pick(rng, HOT_TEXTS)]] if rng.random() < 0.5 else []
            kids.append(["e", tag, a, ch])
        out.append(dict(tpl=[["e", "div", [], [["e", "p", [_lit("id", "w")], [["e", "svg", [_lit("viewBox", "0 0 1 1")], kids]]]]]],
                        kind="sweep-svg"))
    for g in chunks(list(T.MATHML_ELEMENTS.items()), 8):
        kids = []
        for tag, attrs in g:
            if tag == "math":
                continue
            ch = [["t", pick(rng, HOT_TEXTS)]] if rng.random() < 0.6 else []
            kids.append(["e", tag, [sweep_attr(rng, x) for x in attrs], ch])
        out.append(dict(tpl=[["e", "div", [], [["e", "p", [_lit("id", "w")],
                                                 [["e", "math", [sweep_attr(rng, x) for x in T.MATHML_ELEMENTS["math"]], kids]]]]]],
                        kind="sweep-mathml"))
    return out


# ------------------------------------------------------------------------------------------ wide nodes
WIDTHS = [15, 16, 17, 18, 31, 32, 33, 34]


def wide_children(rng, n, dyn_p):
    out = []
    for i in range(n):
        r = rng.random()
        if r < dyn_p:
            out.append(["b", "d%d" % i])
        elif r < 0.45 and not (out and out[-1][0] == "t"):
            out.append(["t", "%d<" % i])
        else:
            out.append(["e", pick(rng, ["b", "i", "li"]), [] if rng.random() < 0.6 else [_lit("id", "i%d" % i)], [["t", str(i)]]])
    return out


def gen_wide_template(rng):
    """a node with more than 16 child views (the macro nests tuples of 16): element children, a top-level fragment,
    <>..</>, component and slot children; all static (one inert string when nested) or with dynamic parts"""
    n = pick(rng, WIDTHS)
    dyn_p = pick(rng, [0.0, 0.0, 0.15, 0.4])
    kids = wide_children(rng, n, dyn_p)
    r = rng.random()
    if r < 0.25:
        return [["e", "ul", [], kids]]                                           # top-level element: builder path
    if r < 0.45:
        return [["e", "div", [], [["e", "ul", [_lit("id", "w")], kids], ["t", "after"]]]]   # nested: inert when static
    if r < 0.6:
        return kids                                                              # top-level fragment
    if r < 0.72:
        return [["e", "div", [], [["f", kids], ["e", "hr", [], []]]]]                   # <>..</> below an element
    if r < 0.86:
        return [["c", pick(rng, ["Pass", "Wrap", "Typed"]), kids, []]]
    return [["c", "Cond", kids, []]]


# ------------------------------------------------------------------------------------------ other syntax
RAW_WORDS = ["hello", "x1", "a & b", "world", "Ok", "a & b"]
EVENTS = ["click", "input", "my-event", "keydown:capture"]     # on:x:undelegated does not compile (no event::undelegated)


def sprinkle(rng, tpl, f_elem=None, f_kids=None):
    """copy of tpl with f_elem(tag, attrs) -> attrs and f_kids(children, tag) -> children applied at every element / list"""
    def go(l, tag):
        out = []
        for n in l:
            if n[0] == "e":
                attrs = f_elem(n[1], list(n[2])) if f_elem else n[2]
                out.append(["e", n[1], attrs, go(n[3], n[1])])
            elif n[0] == "f":
                out.append(["f", go(n[1], None)])
            else:
                out.append(n)
        return f_kids(out, tag) if f_kids else out
    return go(tpl, None)


def gen_syntax_template(rng):
    """what else rstml hands the macro: comments, a doctype, unquoted text; attributes that are instructions to the
    builder and render nothing (on:, prop:, use:, node_ref) and spreads ({..attrs}) — written into otherwise static
    subtrees, where they decide whether the inert path may be taken"""
    t = gen_template_static(rng) if rng.random() < 0.7 else gen_template(rng)
    mode = pick(rng, ["comment", "raw", "silent", "silent", "spread", "mix"])

    def kids(ch, tag):
        if tag in RAW or tag == "title" or tag in VOID:
            return ch
        out = []
        for c in ch:
            if mode in ("comment", "mix") and rng.random() < 0.3:
                out.append(["cm", pick(rng, ["c", "a -- b", "<b>", ""])])
            if mode in ("raw", "mix") and c[0] == "t" and rng.random() < 0.5 and not (out and out[-1][0] == "r"):
                out.append(["r", pick(rng, RAW_WORDS)])
            else:
                out.append(c)
        if mode in ("comment", "mix") and rng.random() < 0.2:
            out.append(["cm", "end"])
        return out

    def attrs(tag, a):
        if tag in SVG_CHILD or tag == SVG_ROOT:
            return a
        if mode in ("silent", "mix") and rng.random() < 0.4:
            r = rng.random()
            if r < 0.35:
                a.insert(rng.randrange(len(a) + 1), ["ev", pick(rng, EVENTS)])
            elif r < 0.6:
                a.insert(rng.randrange(len(a) + 1), ["pr", pick(rng, ["value", "checked", "my-prop"]), pick(rng, VALUES)])
            elif r < 0.8 or tag not in NODE_REF_TYPES:
                a.insert(rng.randrange(len(a) + 1), ["us"])
            else:
                a.insert(rng.randrange(len(a) + 1), ["nr", tag])
        if mode in ("spread", "mix") and rng.random() < 0.35:
            sp = [_lit(pick(rng, ["data-sp", "data-k2"]), pick(rng, VALUES))]
            if rng.random() < 0.5:
                sp.append(_lit("class", pick(rng, ["k", "k2 k3"])))
            if rng.random() < 0.3:
                sp.append(["ct", "spx", rng.random() < 0.7])
            if rng.random() < 0.3:
                sp.append(["p", "data-dy", ["str", pick(rng, VALUES)]])
            a.append(["sx", sp])
        return a

    t = sprinkle(rng, t, attrs, kids)
    if mode == "mix" and rng.random() < 0.5:
        t = [["dt"]] + t
    return t


DV_KINDS = ["sr", "arc", "oco", "ocoo", "ococ", "clo", "osr", "cloopt"]
CHAR_VALUES = list(RUST_CHARS)


def gen_block(rng, depth):
    r = rng.random()
    if r < 0.3:
        return ["k", pick(rng, ["sr", "arc", "oco", "ocoo", "ococ", "clo", "some"]), pick(rng, [x for x in TEXTS if x])]
    if r < 0.4:
        return ["k", "int", pick(rng, [0, 3, -1, 1000])]
    if r < 0.45:
        return ["k", "fl", pick(rng, [1.5, 0.25, -2.5])]
    if r < 0.52:
        return ["k", "chr", pick(rng, CHAR_VALUES)]
    if r < 0.6:
        return ["k", pick(rng, ["none", "unit"])]
    if r < 0.68:
        return ["k", "vec", [pick(rng, [x for x in TEXTS if x]) for _ in range(pick(rng, [0, 1, 2, 3]))]]
    if r < 0.76:
        return ["k", "then", pick(rng, [x for x in TEXTS if x]), rng.random() < 0.6]
    # a nested view!: its own top level is the builder path, below it the inert path applies again
    inner = gen_children(rng, depth, pick(rng, [0.0, 0.0, 0.3])) or [["t", "x"]]
    inner = [c for c in inner if not (c[0] == "t" and c[1] == "")] or [["t", "x"]]
    return ["k", "view", inner]


def gen_values_template(rng):
    """{expr} children and attribute values of other types than String: &str, Arc<str>, Oco (borrowed / owned /
    counted), numbers, char, Option, Vec, (), closures, bool.then(..), nested view!"""
    t = gen_template(rng)

    def kids(ch, tag):
        if tag in RAW or tag == "title" or tag in VOID or tag in SVG_CHILD or tag == SVG_ROOT:
            return ch
        out = []
        for c in ch:
            if c[0] == "b" or rng.random() < 0.25:
                out.append(gen_block(rng, 1))
                if c[0] == "e":
                    out.append(c)
            else:
                out.append(c)
        return out

    def attrs(tag, a):
        out = []
        for x in a:
            if x[0] == "p" and x[1] not in ("class", "style") and x[2][0] in ("str", "lit") and rng.random() < 0.5:
                out.append(["p", x[1], ["dv", pick(rng, DV_KINDS), x[2][1]]])
            elif x[0] == "p" and x[1] not in ("class", "style") and x[2][0] == "num" and x[2][2].lstrip("-").isdigit():
                out.append(["p", x[1], ["dv", "int", x[2][2]]])
            else:
                out.append(x)
        return out
    t = sprinkle(rng, t, attrs, kids)
    if not any(k in json.dumps(t) for k in ('"k"', '"dv"')):
        t = t + [gen_block(rng, 1)]
    return t


def gen_spreads2(rng):
    """every form attribute_absolute understands (component_builder.rs hands each attribute of a component to it)"""
    out = gen_spreads(rng)
    r = rng.random()
    if r < 0.5:
        out.append(["ss", pick(rng, STYLE_PROPS), pick(rng, ["red", "1px", "a b"])])
    if rng.random() < 0.4:
        out.append(["sa", "class", pick(rng, ["k", "k2 k3", "q\"r"])])
    if rng.random() < 0.3:
        out.append(["sa", "style", pick(rng, ["a:b", "x:y;z:w"])])
    if rng.random() < 0.4:
        out.append(["sa", pick(rng, ["aria-details", "aria-posinset"]), pick(rng, VALUES)])
    if rng.random() < 0.4:
        out.append(["sa", pick(rng, ["data-foo-bar", "data-x_y-z"]), pick(rng, VALUES)])
    if rng.random() < 0.5:
        for nm in rng.sample(["part", "nonce", "itemid", "data-after", "aria-setsize", "class", "style"], pick(rng, [1, 2, 3])):
            v = {"class": "pk", "style": "m:n"}.get(nm) or pick(rng, VALUES)
            out.append(["sp", nm, v])
    if rng.random() < 0.25:
        out.append(pick(rng, [["se", "click"], ["spr", "value", pick(rng, VALUES)], ["su"]]))
    if rng.random() < 0.2:
        out.append(["sb", [_lit("data-blk", pick(rng, VALUES))] + ([["ct", "bz", rng.random() < 0.7]] if rng.random() < 0.5 else [])])
    seen, uniq = set(), []
    for x in out:
        if x[0] in ("se", "spr", "su", "sb"):
            uniq.append(x)
            continue
        key = (x[0] in ("sa", "sd", "sp"), x[1]) if x[1] not in ("class", "style") else (x[0], x[1])
        if key not in seen:
            seen.add(key)
            uniq.append(x)
    return uniq


def static_kids(rng, n_max=3):
    kids = []
    for _ in range(pick(rng, list(range(1, n_max + 1)))):
        if rng.random() < 0.25:
            if not (kids and kids[-1][0] == "t"):
                kids.append(["t", pick(rng, [x for x in TEXTS if x])])
        else:
            e = gen_elem(rng, pick(rng, [0, 1]), pick(rng, [0.0, 0.0, 0.3]))
            if e[1] in RAW or e[1] == "title":
                e = ["e", "p", [], [["t", "x"]]]
            kids.append(e)
    return kids or [["e", "p", [["p", "class", ["lit", "s"]]], [["t", "a < b"]]]]


def gen_component2_template(rng):
    """the rest of component_builder.rs / slot_helper.rs: children kinds (ChildrenFragment, TypedChildren, a closure
    taking `let:item`, none, ONE text or format!() child — passed without the closure), optional / nostrip: /
    defaulted props, generics, several slots of one name with props, slot:name, every spread form"""
    r = rng.random()
    if r < 0.14:
        txt = pick(rng, [x for x in TEXTS if x]) if rng.random() < 0.5 else pick(rng, [" lead", "trail ", " a<b ", "\tx", " ", "x\n"])
        comp = ["c", pick(rng, ["Pass", "Wrap", "Typed", "Cond"]), [["t", txt]], gen_spreads2(rng)]
        if comp[1] == "Pass":
            comp[3] = []                          # a lone text has no element to carry attributes
    elif r < 0.2:
        comp = ["c", pick(rng, ["Wrap", "Typed"]), [["k", "fmt", pick(rng, [x for x in TEXTS if x])]], gen_spreads2(rng)]
    elif r < 0.34:
        comp = ["c", "Frag", [k for k in static_kids(rng, 5)], []]
    elif r < 0.46:
        comp = ["c", "Typed", static_kids(rng), gen_spreads2(rng)]
    elif r < 0.6:
        props = {"a": pick(rng, [None, "A", "a<\"b"]), "b": pick(rng, [None, "B", "&"]), "n": pick(rng, [None, 1, -3])}
        if props["a"] is not None and rng.random() < 0.5:
            props["nostrip"] = True
        if rng.random() < 0.4:
            props["nochildren"] = True
        comp = ["c", "Opt", [] if props.get("nochildren") else static_kids(rng), gen_spreads2(rng), props]
    elif r < 0.68:
        props = {"ty": "i32", "v": pick(rng, [3, -1, 0])} if rng.random() < 0.5 else {"ty": "str", "v": pick(rng, [x for x in TEXTS if x])}
        comp = ["c", "Gen", [], gen_spreads2(rng), props]
    elif r < 0.84:
        tabs = []
        for i in range(pick(rng, [1, 2, 2, 3, 4])):
            tabs.append(["sl", pick(rng, ["a", "b<", "c\"d", ""]) + str(i), None if rng.random() < 0.25 else
                         ([["t", pick(rng, [x for x in TEXTS if x])]] if rng.random() < 0.3 else static_kids(rng))])
        comp = ["c", "Tabs", tabs, gen_spreads2(rng)]
    elif r < 0.94:
        items = [pick(rng, [x for x in TEXTS if x]) for _ in range(pick(rng, [0, 1, 2, 3]))]
        body = [["e", "li", [["p", "class", ["lit", "k"]]], [["t", "#"], ["k", "item"]]]]
        if rng.random() < 0.5:
            body.append(["e", "hr", [], []])
        comp = ["c", "Each", body, [], {"items": items}]
    else:
        comp = ["c", "Cond", static_kids(rng), gen_spreads2(rng), {"rename": True}]
    r = rng.random()
    if r < 0.5:
        return [comp]
    if r < 0.85:
        return [["e", pick(rng, ["main", "div"]), [], [comp] + ([gen_text(rng, 0.0)] if rng.random() < 0.5 else [])]]
    return [["c", "Wrap", [["e", "div", [], [comp]]], []]]


# hand-written corner cases that always run (also the witnesses of the findings)
FIXED = [
    ("empty-text", [["e", "div", [], [["e", "p", [["p", "id", ["lit", "a"]]], [["t", ""]]]]]]),
    ("empty-text", [["e", "div", [], [["e", "p", [["p", "id", ["lit", "a"]]], [["t", "a"], ["t", ""], ["t", "b"]]]]]]),
    ("class-noval", [["e", "div", [], [["e", "span", [["ct", "foo", None]], [["t", "x"]]]]]]),
    ("class-noval", [["e", "div", [], [["e", "span", [["p", "class", ["lit", "bar"]], ["ct", "foo", None]], []]]]]),
    ("noscript", [["e", "div", [], [["e", "noscript", [["p", "id", ["lit", "n"]]], [["t", "a<b&c"]]]]]]),
    ("raw-adjacent-text", [["e", "div", [], [["e", "style", [], [["t", "p{color:"], ["b", "red"], ["t", "}"]]]]]]),
    ("raw-adjacent-text", [["e", "div", [], [["e", "script", [["p", "id", ["lit", "s"]]], [["t", "a"], ["t", "b"]]]]]]),
    ("style-class-text", [["e", "div", [], [["e", "p", [["p", "style", ["lit", "a:b"]], ["p", "class", ["lit", "  a   b "]]],
                                            [["t", "x"]]]]]]),
    ("escapes", [["e", "div", [], [["e", "input", [["p", "disabled", ["none"]], ["p", "type", ["lit", "text"]],
                                               ["p", "value", ["lit", "a\"b'c<d>&"]]], []]]]]),
    ("escapes", [["e", "div", [], [["e", "p", [["p", "title", ["lit", "</p><script>"]]], [["t", "</p><script>&amp;"]]]]]]),
    ("textarea", [["e", "div", [], [["e", "textarea", [["p", "name", ["lit", "t"]]], [["t", "a&amp;b"], ["t", "</textarea><b>"]]]]]]),
    ("textarea", [["e", "div", [], [["e", "textarea", [], [["t", "x"], ["b", "<&>"], ["t", ""]]]]]]),
    ("many-children", [["e", "ul", [], sum([[["e", "li", [["p", "id", ["lit", "i%d" % i]]], [["t", str(i)]]], ["t", "-"]]
                                             for i in range(10)], [])]]),
    ("svg", [["e", "div", [], [["e", "svg", [["p", "viewBox", ["lit", "0 0 1 1"]]],
                                [["e", "circle", [["p", "r", ["lit", "2"]]], []],
                                 ["e", "text", [["p", "x", ["lit", "1"]]], [["t", "t<"]]]]]]]]),
    ("class-forms", [["e", "div", [], [["e", "p", [["p", "class", ["lit", "a"]], ["ct", "b", True], ["ct", "c", False],
                                               ["cu", ["d"], True, False], ["cu", ["e", "g"], True, True],
                                               ["p", "style", ["lit", "x:y"]], ["sp", "color", "red", True],
                                               ["su", "top", "1px"], ["p", "data-a", ["lit", "1"]]], [["t", "x"]]]]]]),
]
# oracle-only (not expressible in the Coq template AST)
FIXED += [
    ("literal-kinds", [["e", "div", [], [["e", "input", [["p", "value", ["num", "2.50", "2.5"]], ["p", "max", ["num", "1e3", "1000"]],
                                                      ["p", "data-a", ["num", "1.0", "1"]], ["p", "tabindex", ["num", "-1", "-1"]],
                                                      ["p", "title", ["num", "'<'", "<"]], ["p", "hidden", ["blit", True]],
                                                      ["p", "disabled", ["blit", False]]], []]]]]),
    ("literal-kinds", [["e", "div", [], [["e", "td", [["p", "colspan", ["num", "2", "2"]], ["p", "class", ["lit", "k"]]], [["t", "x"]]]]]]),
    ("class-names", [["e", "div", [], [["e", "p", [["ct", "md:flex", True], ["ct", "hover:bg-red-500", None], ["ct", "w.half", True],
                                               ["ct", "card--active", True], ["cu", ["lg:hidden"], True, False],
                                               ["sp", "--accent-color", "red", True], ["sp", "background-color", "blue", False]],
                                        [["t", "x"]]]]]]),
]
FIXED += [
    ("typed-names", [["e", "div", [], [["e", "meta", [["p", "http_equiv", ["lit", "refresh"]], ["p", "content", ["lit", "1"]]], []]]]]),
    ("typed-names", [["e", "div", [], [["e", "form", [["p", "accept_charset", ["lit", "utf-8"]]], [["t", "x"]]],
                                        ["e", "p", [["p", "aria_label", ["lit", "q"]]], [["t", "y"]]],
                                        ["e", "my-el", [["p", "aria_label", ["lit", "q"]]], [["t", "z"]]]]]]),
]
FIXED_ORACLE_ONLY = [
    ("inner-html", [["e", "div", [], [["e", "p", [["p", "inner_html", ["lit", "<b>x</b>"]]], []]]]]),
    # every InnerHtmlValue representation, an SVG element, next to other attributes
    ("inner-html", [["e", "div", [], [["e", "p", [["p", "inner_html", ["str", "<b>x</b>&amp;"]]], []],
                                      ["e", "span", [["p", "id", ["lit", "k"]], ["p", "inner_html", ["dv", "arc", "<i>a</i>b"]]], []],
                                      ["e", "li", [["p", "inner_html", ["dv", "sr", "t<u>u</u>"]], ["p", "class", ["lit", "c"]]], []],
                                      ["e", "b", [["p", "inner_html", ["dv", "osr", "<em>o</em>"]]], []]]]]),
    ("inner-html", [["e", "div", [], [["e", "svg", [["p", "inner_html", ["lit", "<circle r=\"1\"></circle>"]]], []]]]]),
]
# elements below <noscript>: noscript is read as an ordinary element by the oracle for these
FIXED_NOSCRIPT = [
    [["e", "noscript", [], [["e", "p", [], [["t", "a < b"]]]]]],
    [["e", "noscript", [], [["e", "p", [], [["t", "a < b"], ["b", "<i>&"]]]]]],
    [["e", "div", [], [["e", "noscript", [["p", "id", ["lit", "n"]]], [["e", "p", [["p", "title", ["str", "t"]]], [["t", "a&b"], ["t", "</p>"]]]]]]]],
    [["e", "div", [], [["e", "noscript", [], [["e", "div", [], [["e", "span", [["ct", "on", True]], [["b", "<script>"]]]]], ["t", "x"]]]]]],
    [["e", "div", [], [["e", "noscript", [], [["e", "p", [["p", "id", ["lit", "s"]]], [["t", "1 << 2 && 3"]]]]]]]],
]
FIXED_COMPONENT = [
    [["c", "Pass", [["e", "p", [["p", "class", ["lit", "s"]]], [["t", "a < b"]]]], []]],
    [["c", "Pass", [["e", "p", [["p", "class", ["lit", "s"]]], [["t", "t"]]]], [["sa", "id", "x"]]]],
    [["c", "Pass", [["e", "p", [["p", "class", ["lit", "s"]]], [["t", "a"]]], ["e", "span", [], [["t", "plain"]]]],
      [["sa", "data-k", "v"]]]],
    [["e", "main", [], [["c", "Pass", [["e", "b", [["p", "id", ["lit", "i"]]], [["t", "t"]]]], [["sc", "on", True]]]]]],
    [["c", "Wrap", [["e", "p", [["p", "class", ["lit", "s"]]], [["t", "t"]]]], [["sa", "id", "x"]]]],
    [["c", "Cond", [["e", "p", [["p", "class", ["lit", "s"]]], [["t", "a&b"]]], ["t", "x"]], []]],
    [["e", "div", [], [["c", "Cond", [["e", "i", [], [["t", "<"]]]], [["sd", "data-k", "a\"b"]]]]]],
]
FIXED_GLOBAL_CLASS = [
    ("global-class", [["e", "div", [], [["e", "p", [["p", "id", ["lit", "a"]]], [["t", "x"]]],
                                        ["e", "span", [["p", "class", ["lit", "k"]]], [["t", "y"]]], ["e", "br", [], []]]]]),
]


def comp_children(n):
    """children list of a component node (Label has a text prop instead, Tabs has slots)"""
    if n[1] == "Label":
        return []
    if n[1] == "Tabs":
        return sum([t[2] or [] for t in n[2]], [])
    return n[2]


def comp_spreads(n):
    return n[3] if len(n) > 3 and n[1] != "Label" else []


def has_component(t):
    for n in t:
        if n[0] in ("c", "cm", "dt", "k"):
            return True
        if n[0] == "e" and (has_component(n[3]) or any(a[0] == "p" and a[1] == "inner_html" for a in n[2])):
            return True
        if n[0] == "f" and has_component(n[1]):
            return True
    return False


def E(tag, attrs, ch):
    return ["e", tag, attrs, ch]


# corner cases of the forms added by the anchor-coverage audit (coverage/C18.md); all always run
FIXED_AUDIT = [
    # SVG <use> under its two spellings, below a static HTML parent (inert path) — F-C18-i
    ("svg-use", [E("div", [], [E("p", [_lit("id", "w")], [E("svg", [_lit("viewBox", "0 0 1 1")], [E("use_", [_lit("href", "#a")], [])])])])]),
    ("svg-use", [E("div", [], [E("p", [_lit("id", "w")], [E("svg", [], [E("use", [_lit("href", "#a")], []), E("g", [], [])])])])]),
    # a/script/title resolve to svg:: only as the ONLY child of an SVG element
    ("svg-ambiguous", [E("div", [], [E("p", [_lit("id", "w")], [E("svg", [], [E("a", [_lit("href", "#x")], [["t", "a<b"]])])])])]),
    ("svg-ambiguous", [E("div", [], [E("p", [_lit("id", "w")], [E("svg", [], [E("title", [], [["t", "a<b"]])])])])]),
    ("svg-ambiguous", [E("svg", [], [E("g", [], [E("a", [_lit("xlink:href", "#x")], [["t", "t"]])])])]),
    # script / style below SVG are svg:: whatever their siblings, and escaped on both paths (F-C18-j, fixed ca6d806)
    ("svg-script", [E("div", [], [E("p", [_lit("id", "w")], [E("svg", [], [E("script", [], [["t", "a<b"]])])])])]),
    ("svg-script", [E("svg", [], [E("script", [], [["t", "if (a<b && c) {}"]]), E("g", [], [])])]),
    ("svg-script", [E("div", [], [E("p", [_lit("id", "w")], [E("svg", [], [E("script", [_lit("id", "s")], [["t", "safe"]]), E("g", [], [])])])])]),
    ("svg-script", [E("div", [], [E("p", [_lit("id", "w")], [E("svg", [], [E("style", [], [["t", "a<b&c"]])])])])]),
    ("svg-script", [E("div", [], [E("p", [_lit("id", "w")], [E("svg", [], [E("style", [], [["t", "a<b"], ["t", "c>d"]]), E("g", [], [])])])])]),
    ("svg-script", [E("svg", [], [E("g", [], [E("script", [], [["t", "a<b"], ["b", "x&"]]), E("style", [], [["b", "p>q"]])])])]),
    ("svg-script", [E("div", [], [E("p", [_lit("id", "w")], [E("svg", [], [E("foreignObject", [], [E("style", [], [["t", "a<b"]]), E("p", [], [["t", "x<"]])])])])])]),
    ("svg-script", [E("div", [], [E("p", [_lit("id", "w")], [E("svg", [], [E("desc", [], [E("style", [], [["t", "a<b"]])]), E("title", [], [["t", "t<"]])])])])]),
    # F-C18-l (open): the inert path's foreign-content rule and the builder's constructor disagree
    ("foreign-raw", [E("div", [], [E("p", [_lit("id", "w")], [E("math", [], [E("style", [], [["t", "a<b"]])])])])]),
    ("foreign-raw", [E("div", [], [E("p", [_lit("id", "w")], [E("svg", [], [E("noscript", [], [["t", "a<b"]])])])])]),
    ("foreign-raw", [E("div", [], [E("p", [_lit("id", "w")], [E("svg", [], [E("my-el", [], [E("div", [_lit("id", "d")], [E("style", [], [["t", "a<b"]])])])])])])]),
    # comments, doctype, unquoted text
    ("syntax", [E("div", [], [E("p", [_lit("id", "a")], [["cm", "c"], ["t", "x"]])])]),
    ("syntax", [["cm", "c"], E("p", [], [["t", "x"]])]),
    ("syntax", [["dt"], E("html", [], [E("body", [], [E("p", [_lit("id", "a")], [["t", "x"]])])])]),
    ("syntax", [E("div", [], [E("p", [_lit("id", "a")], [["r", "hello"]]), E("p", [], [["b", "d"], ["r", "world"]])])]),
    ("syntax", [E("div", [], [E("p", [_lit("id", "a")], [["r", "a & b"]]), E("p", [], [["r", "a & b"], ["b", "d"]]),
                              E("style", [_lit("id", "s")], [["r", "a & b"]])])]),
    # instructions to the builder that render nothing, inside static subtrees
    ("silent-attrs", [E("div", [], [E("button", [_lit("id", "b"), ["ev", "click"]], [["t", "x"]])])]),
    ("silent-attrs", [E("div", [], [E("input", [_lit("id", "b"), ["pr", "value", "x"]], [])])]),
    ("silent-attrs", [E("div", [], [E("p", [_lit("id", "b"), ["us"]], [["t", "x"]])])]),
    ("silent-attrs", [E("div", [], [E("p", [_lit("id", "b"), ["nr", "p"]], [["t", "x"]])])]),
    ("silent-attrs", [E("div", [], [E("p", [["ev", "keydown:capture"], ["ev", "my-event"], ["pr", "my-prop", "a\"b"]], [["t", "x"]])])]),
    # {..attrs} on an element
    ("spread", [E("div", [], [E("p", [_lit("id", "b"), ["sx", [_lit("data-sp", "1"), _lit("class", "k")]]], [["t", "x"]])])]),
    ("spread", [E("div", [], [E("p", [_lit("class", "a"), ["sx", [_lit("class", "k"), ["ct", "z", True]]]], [["t", "x"]])])]),
    ("spread", [E("p", [["sx", [["p", "data-sp", ["str", "a\"b"]]]], _lit("id", "after"), _lit("class", "c2")], [["t", "x"]])]),
    # attribute count at the renderer's limit (26)
    ("many-attrs", [E("div", [], [E("p", [_lit(x, str(i)) for i, x in enumerate(
        ["id", "title", "lang", "dir", "role", "tabindex", "accesskey", "slot", "nonce", "part", "itemid", "itemprop", "itemref",
         "itemtype", "is", "popover", "inputmode", "translate", "spellcheck", "draggable", "enterkeyhint", "autocapitalize",
         "contenteditable", "data-a", "data-b"])], [["t", "x"]])])]),
    # blocks and attribute values of every representation
    ("value-kinds", [E("div", [], [E("p", [_lit("id", "a")], [["t", "t"]]), ["k", "int", 3], ["k", "chr", " "], ["k", "chr", "<"],
                                   ["k", "fl", 1.5], ["k", "sr", "sr<"], ["k", "some", "o"], ["k", "none"], ["k", "vec", ["v1", "v2"]],
                                   ["k", "unit"], ["k", "view", [E("b", [], [["t", "n"]])]], ["k", "clo", "c"], ["k", "then", "th", True],
                                   ["k", "then", "no", False], ["k", "arc", "a&"], ["k", "oco", "o1"], ["k", "ocoo", "o2"], ["k", "ococ", "o3"]])]),
    ("value-kinds", [E("div", [], [E("p", [_lit("id", "a")] + [["p", nm, ["dv", kd, "v<\"" + kd]] for nm, kd in zip(
        ["title", "lang", "dir", "role", "accesskey", "data-a", "data-b", "slot"], DV_KINDS)] + [["p", "tabindex", ["dv", "int", "3"]]], [["t", "t"]])])]),
    ("value-kinds", [E("div", [], [["k", "view", [E("section", [], [E("p", [_lit("id", "in")], [["t", "a<b"]]), ["b", "d"]])]],
                                   E("p", [_lit("id", "out")], [["t", "x"]])])]),
    # 16 / 17 / 33 children in every container
    ("wide", [["t", str(i)] if i % 2 == 0 else E("b", [], [["t", str(i)]]) for i in range(17)]),
    ("wide", [E("div", [], [["f", [["b", str(i)] if i % 3 == 0 else E("b", [], [["t", str(i)]]) for i in range(33)]]])]),
    ("wide", [E("ul", [], [E("li", [], [["t", str(i)]]) for i in range(16)])]),
    ("wide", [E("ul", [], [["t", str(i)] if i % 2 == 0 else E("b", [], [["t", str(i)]]) for i in range(257)])]),
    ("wide", [["c", "Pass", [["b", str(i)] if i % 3 == 0 else E("b", [], [["t", str(i)]]) for i in range(17)], []]]),
    ("wide", [["c", "Cond", [["b", str(i)] if i % 3 == 0 else E("b", [_lit("id", "i%d" % i)], [["t", str(i)]]) for i in range(18)], []]]),
]
FIXED_AUDIT_COMPONENT = [
    [["c", "Wrap", [["t", "a<b"]], []]],                                   # ONE text child: passed without the closure
    [["c", "Wrap", [["t", " lead & trail "]], []], ["c", "Cond", [["t", "\ttab "]], []]],
    [["c", "Pass", [["t", "a<b"]], []]],
    [["c", "Typed", [["k", "fmt", "a<1"]], [["sa", "id", "x"]]]],
    [["c", "Cond", [["t", "only text"]], []]],
    [["c", "Cond", [E("p", [_lit("id", "a")], [["t", "x"]])], [], {"rename": True}]],
    [["c", "Frag", [E("b", [], [["t", "1"]]), ["t", "two"], E("i", [_lit("id", "k")], [["t", "3<"]])], []]],
    [["c", "Typed", [E("p", [_lit("id", "a")], [["t", "x"]]), ["t", "y"]], []]],
    # F-C18-k (open): the 17 children reach ChildrenFragment as 2 nodes
    [["c", "Frag", [E("b", [], [["t", str(i)]]) for i in range(17)], []]],
    [["c", "Frag", [E("b", [], [["t", str(i)]]) for i in range(16)], []]],
    [["c", "Opt", [], [], {"nochildren": True}], ["c", "Opt", [], [], {"a": "A", "b": "B", "n": 1, "nochildren": True}],
     ["c", "Opt", [E("b", [_lit("id", "z")], [["t", "kid"]])], [], {"a": "ns", "nostrip": True}]],
    [["c", "Gen", [], [], {"ty": "i32", "v": 3}], ["c", "Gen", [], [], {"ty": "str", "v": "x<"}]],
    [["c", "Tabs", [["sl", "a", [E("p", [_lit("id", "a")], [["t", "x"]])]], ["sl", "b<", [["t", "t"]]], ["sl", "c", None]], []]],
    [["c", "Each", [E("li", [_lit("class", "k")], [["k", "item"]])], [], {"items": ["a", "b<"]}]],
    [["c", "Wrap", [["t", "t"]], [["sp", "id", "x"], ["sp", "class", "k"], ["sp", "data-y", "1"], ["sp", "aria-label", "z"]]]],
    [["c", "Wrap", [["t", "t"]], [["sa", "class", "k"], ["sa", "style", "a:b"], ["sa", "aria-label", "z"], ["ss", "color", "red"],
                                 ["sa", "data-foo-bar", "1"]]]],
    [["c", "Pass", [E("p", [_lit("class", "s")], [["t", "t"]]), E("b", [], [])], [["ss", "--v", "1px"], ["sp", "part", "a\"b"]]]],
]
FIXED_AUDIT_COMPONENT += [
    # listeners / properties / directives / a {..attrs} block written on a component
    [["c", "Wrap", [["t", "t"]], [["se", "click"], ["spr", "value", "x"], ["su"], ["sa", "id", "w"]]]],
    [["c", "Pass", [E("p", [_lit("class", "s")], [["t", "t"]])], [["sb", [_lit("data-sp", "1"), _lit("class", "k"), ["ct", "z", True]]]]]],
    # ONE unquoted text child
    [["c", "Wrap", [["r", "hello"]], []]],
    # a directive with a parameter on an element of a static subtree
    [E("div", [], [E("p", [_lit("id", "b"), ["us", "pa\"ram"]], [["t", "x"]])])],
]
# a shorthand prop (`<Label text/>` with `text` in scope)
FIXED_AUDIT_SHORTHAND = [
    [E("p", [_lit("id", "k")], [["c", "Label", "sh<", "shorthand"], E("b", [], [["t", "z"]])])],
]
# clone: on a component / a slot (the generated function binds `extra` first)
FIXED_AUDIT_CLONE = [
    [["c", "Wrap", [E("p", [_lit("id", "a")], [["t", "x"]]), ["k", "ext"]], [], {"clone": True}]],
    [["c", "Cond", [E("p", [_lit("id", "a")], [["t", "x"]]), ["k", "ext"]], [], {"clone": True}]],
]
FIXED_AUDIT_GCLASS = [
    # the scope class next to components (their own elements do not get it), class: toggles, a nested view!, an identifier
    ([E("div", [], [["c", "Wrap", [E("p", [_lit("id", "a")], [["t", "x"]])], []], E("span", [["ct", "on", True]], [["t", "y"]])])], "sc", False),
    ([E("div", [], [E("p", [_lit("id", "a")], [["t", "x"]]), E("b", [_lit("class", "k")], [["t", "y"]])])], GC_VALUE, True),
    ([E("div", [], [E("p", [_lit("id", "a")], [["t", "x"]]), ["k", "view", [E("i", [_lit("id", "n")], [["t", "z"]])]]])], "sc", False),
]


def _item(tpl, kind, **kw):
    """compare = the template is expressible in the Coq AST; template! (variant 2) only for those (ViewTemplate
    wants ToTemplate, which components / closures do not have)"""
    it = dict(tpl=tpl, kind=kind, compare=modelable(tpl) and not kw.get("gclass"))
    if "variants" not in kw and (not modelable(tpl) or any(x in json.dumps(tpl) for x in ('"k"', '"dv"', '"ev"', '"pr"', '"us"', '"nr"'))):
        it["variants"] = [0, 1]
    it.update(kw)
    if it.pop("compare_off", False):
        it["compare"] = False
    if it.get("streams") and not kw.get("force_streams") and any(x in json.dumps(tpl) for x in ('"c"', '"clo', '"view"')):
        it["streams"] = False       # the streaming renderers of components / closures / nested views compile very slowly
    it.pop("force_streams", None)
    return it


def no_dynamic_class(tpl):
    """a dynamic class= next to a scope class is rejected by the macro"""
    def fa(tag, attrs):
        return [["p", "class", ["lit", a[2][1]]] if a[0] == "p" and a[1] == "class" and a[2][0] == "str" else a for a in attrs]
    return sprinkle(None, tpl, fa)


def generate(rng, tier):
    fixed = True
    for k, it in enumerate(generate_(rng, tier)):
        if it is None:
            fixed = False
            continue
        # the erase_components build renders the fixed cases, the sweeps and a sample of everything else
        if fixed or (it["kind"] not in ("template", "below-noscript") and k % 4 == 0) or k % 16 == 0:
            it["erase_variants"] = [v for v in it.get("variants", (0, 1, 2)) if v in (0, 1)]
        yield it


def generate_(rng, tier):
    n = 800 if tier == "quick" else 8000      # thorough: 10000 before the audit made a template cost ~1.7x (8000: ~6 min)
    for kind, t in FIXED:
        yield dict(tpl=t, kind=kind, compare=True, streams=True, variants=[0, 1, 2, 3])
    for kind, t in FIXED_ORACLE_ONLY:
        yield dict(tpl=t, kind=kind, compare=False, variants=[0, 1], streams=True)
    for kind, t in FIXED_GLOBAL_CLASS:
        yield dict(tpl=t, kind=kind, compare=False, gclass="sc", streams=True)
    for t in FIXED_COMPONENT:
        yield dict(tpl=t, kind="component", compare=False, variants=[0, 1], streams=True)
    for t in FIXED_NOSCRIPT:
        yield dict(tpl=t, kind="below-noscript", compare=True, noscript_html=True, streams=True)
    for kind, t in FIXED_AUDIT:
        # script / style below SVG: compared with the model byte for byte (it threads the namespace), outside [wf]
        yield _item(t, kind, streams=(len(json.dumps(t)) < 4000), )
    for t in FIXED_AUDIT_COMPONENT:
        yield _item(t, "component", streams=True, force_streams=True)
    for t in FIXED_AUDIT_CLONE:
        yield _item(t, "component", prelude='let extra = s("cl");')
    for t in FIXED_AUDIT_SHORTHAND:
        yield _item(t, "component", prelude='let text = "sh<";')
    for t, g, ident in FIXED_AUDIT_GCLASS:
        yield _item(t, "global-class", gclass=g, gclass_ident=ident, streams=True)
    for it in gen_sweep(rng):
        yield _item(it["tpl"], it["kind"], streams=True, variants=[0, 1])     # the twin is the builder path
    yield None                                   # end of the fixed part
    for i in range(n):
        m = i % 25
        if m == 24:
            yield dict(tpl=gen_component_template(rng), kind="component", compare=False, variants=[0, 1])
        elif m == 3:
            yield _item(gen_component2_template(rng), "component")
        elif m in (6, 18):
            yield dict(tpl=gen_noscript_template(rng), kind="below-noscript", compare=True, noscript_html=True, streams=(i % 50 < 25))
        elif m == 12:
            # the scope-class form (compared only): static templates, so that the inert path is taken, or any
            # template without a dynamic class= (rejected by the macro next to a scope class)
            t = gen_template_static(rng) if i % 50 < 25 else no_dynamic_class(gen_template(rng))
            g = pick(rng, ["sc", "s-1", "q&r", "a<\"b", GC_VALUE])
            yield _item(t, "global-class", gclass=g, gclass_ident=(g == GC_VALUE))
        elif m == 15:
            t = gen_wide_template(rng)
            yield _item(t, "wide", streams=(i % 100 < 25), variants=([0, 1] if i % 50 < 25 or not modelable(t) else [0, 1, 2]))
        elif m == 20:
            yield _item(gen_syntax_template(rng), "syntax", streams=(i % 50 < 25))
        elif m == 22:
            yield _item(gen_values_template(rng), "value-kinds", streams=(i % 50 < 25))
        else:
            t = gen_template(rng)
            yield dict(tpl=t, kind="template", compare=True, streams=(i % 6 == 0))


# ------------------------------------------------------------------------------------------ case encoding
def html_name(tag, name):
    """the HTML attribute a typed attribute method stands for (tachys html/attribute/key.rs); custom elements and
    SVG take the name as written (.attr(name, ..))"""
    if "-" in tag or tag == SVG_ROOT or tag in SVG_CHILD:
        return name
    if name in ("http_equiv", "accept_charset") or name.startswith("aria_"):
        return name.replace("_", "-")
    return name


def html_tag(tag):
    return "use" if tag == "use_" else tag


def enc_attr(a, tag=""):
    k = a[0]
    if k in ("ev", "pr", "us", "nr"):
        return [5]                        # ASilent: keeps the element off the inert path, renders nothing
    if k == "sx":
        raise ValueError("not expressible in the model: %r" % (k,))
    if k == "p":
        v = a[2]
        av = {"lit": lambda: [0, v[1]], "none": lambda: [1], "str": lambda: [2, v[1]],
              "dv": lambda: [2, v[2]],           # another representation of a dynamic string / scalar
              "num": lambda: [2, v[2]],          # a non-string literal: not static, renders its Display
              "bool": lambda: [3, int(v[1])], "blit": lambda: [3, int(v[1])],
              "opt": lambda: [4] if v[1] is None else [5, v[1]]}[v[0]]()
        return [0, html_name(tag, a[1]), av]
    if k == "ct":
        return [1, a[1], 0 if a[2] is None else (2 if a[2] else 1)]
    if k == "cu":
        return [2, list(a[1]), int(a[2])]
    if k == "sp":
        return [3, a[1], a[2]]
    return [4, a[1], a[2]]


def enc_node(n):
    if n[0] == "t":
        return [0, n[1]]
    if n[0] == "b":
        return [1, n[1]]
    if n[0] == "e":
        # `<use_>` is the keyword-free spelling of SVG `<use>`: both paths resolve it (compared, not modelled)
        return [2, html_tag(n[1]), [enc_attr(a, n[1]) for a in n[2]], [enc_node(c) for c in n[3]]]
    if n[0] == "f":
        return [3, [enc_node(c) for c in n[1]]]
    if n[0] == "cm":
        return [4]                        # a comment: no view, but its parent is never inert
    if n[0] == "r":
        return [0, n[1]]                  # unquoted text: the same two code paths as a literal
    if n[0] == "k" and n[1] in BLOCK_LIKE_STRING:
        return [1, str(n[2])]             # renders like a {String} block
    raise ValueError("not expressible in the model: %r" % (n[:2],))


BLOCK_LIKE_STRING = ("sr", "arc", "oco", "ocoo", "ococ", "int", "fl", "chr", "some")


def modelable(tpl):
    try:
        to_case(tpl)
        return True
    except ValueError:
        return False


def to_case(tpl):
    return C.norm([0, [enc_node(n) for n in tpl]])


TWIN = ["p", "data-twin", ["str", "1"]]


def twin(tpl):
    out = []
    for n in tpl:
        if n[0] == "e":
            out.append(["e", n[1], list(n[2]) + [TWIN], twin(n[3])])
        elif n[0] == "f":
            out.append(["f", twin(n[1])])
        elif n[0] == "c" and n[1] == "Tabs":
            out.append(["c", n[1], [["sl", t[1], None if t[2] is None else twin(t[2])] for t in n[2]]] + list(n[3:]))
        elif n[0] == "c" and n[1] != "Label":
            out.append(["c", n[1], twin(n[2])] + list(n[3:]))
        elif n[0] == "k" and n[1] == "view":
            out.append(["k", "view", twin(n[2])])
        else:
            out.append(n)
    return out


# ------------------------------------------------------------------------------------------ Rust source
def rust_str(s):
    out = ['"']
    for ch in s:
        o = ord(ch)
        if ch == "\\":
            out.append("\\\\")
        elif ch == '"':
            out.append('\\"')
        elif ch == "\n":
            out.append("\\n")
        elif ch == "\r":
            out.append("\\r")
        elif ch == "\t":
            out.append("\\t")
        elif o < 0x20 or o == 0x7f or o in (0x2028, 0x2029, 0xa0):
            out.append("\\u{%x}" % o)
        else:
            out.append(ch)
    out.append('"')
    return "".join(out)


def rust_name(n):
    return "r#" + n if n in RUST_KW else n


def rust_dyn_value(kind, v):
    """a dynamic attribute value / block of a given representation; every one of them displays as v"""
    if kind == "sr":
        return "sr(%s)" % rust_str(v)
    if kind == "arc":
        return "arc(%s)" % rust_str(v)
    if kind in ("oco", "ocoo", "ococ"):
        return "%s(%s)" % (kind, rust_str(v))
    if kind == "clo":
        return "move || s(%s)" % rust_str(v)
    if kind == "osr":
        return "Some(sr(%s))" % rust_str(v)
    if kind == "cloopt":
        return "move || so(%s)" % rust_str(v)
    if kind == "int":
        return "n(%s)" % v
    if kind == "fl":
        return "fl(%s)" % v
    if kind == "chr":
        return "ch(%s)" % RUST_CHARS[v]
    raise ValueError(kind)




def rust_attr(a):
    k = a[0]
    if k == "ev":
        return "on:%s=|_%s| {}" % (a[1], ": leptos::ev::CustomEvent" if "-" in a[1] else "")
    if k == "pr":
        return "prop:%s=%s" % (a[1], rust_str(a[2]))
    if k == "us":
        return "use:noop" if len(a) == 1 else "use:withp=%s" % rust_str(a[1])
    if k == "nr":
        return "node_ref={NodeRef::<leptos::html::%s>::new()}" % NODE_REF_TYPES[a[1]]
    if k == "sx":
        return "{..view! { <{..}%s/> }}" % "".join(" " + rust_attr(x) for x in a[1])
    if k == "p" and a[2][0] == "dv":
        return "%s={%s}" % (rust_name(a[1]), rust_dyn_value(a[2][1], a[2][2]))
    if k == "p":
        name, v = rust_name(a[1]), a[2]
        if v[0] == "lit":
            return "%s=%s" % (name, rust_str(v[1]))
        if v[0] == "none":
            return name
        if v[0] == "str":
            return "%s={s(%s)}" % (name, rust_str(v[1]))
        if v[0] == "num":
            return "%s=%s" % (name, v[1])
        if v[0] == "blit":
            return "%s=%s" % (name, "true" if v[1] else "false")
        if v[0] == "bool":
            return "%s={%s()}" % (name, "tb" if v[1] else "fb")
        return "%s={%s}" % (name, "no()" if v[1] is None else "so(%s)" % rust_str(v[1]))
    if k == "ct":
        if a[2] is None:
            return "class:%s" % a[1]
        return "class:%s={%s()}" % (a[1], "tb" if a[2] else "fb")
    if k == "cu":
        b = "tb()" if a[2] else "fb()"
        if a[3]:
            return "class=([%s], %s)" % (", ".join(rust_str(x) for x in a[1]), b)
        return "class=(%s, %s)" % (rust_str(a[1][0]), b)
    if k == "sp":
        if a[3]:
            return "style:%s=%s" % (a[1], rust_str(a[2]))
        return "style:%s={s(%s)}" % (a[1], rust_str(a[2]))
    return "style=(%s, %s)" % (rust_str(a[1]), rust_str(a[2]))


def rust_spread(x):
    """attributes written on a component: attr:name="v" | attr:name={s("v")} | class:name={bool} | style:prop="v" |
    (after a {..} marker) name="v" """
    if x[0] == "sa":
        return "attr:%s=%s" % (x[1], rust_str(x[2]))
    if x[0] == "sd":
        return "attr:%s={s(%s)}" % (x[1], rust_str(x[2]))
    if x[0] == "ss":
        return "style:%s=%s" % (x[1], rust_str(x[2]))
    if x[0] == "sp":
        return "%s=%s" % (x[1], rust_str(x[2]))
    if x[0] == "se":
        return "on:%s=|_| {}" % x[1]
    if x[0] == "spr":
        return "prop:%s=%s" % (x[1], rust_str(x[2]))
    if x[0] == "su":
        return "use:noop"
    if x[0] == "sb":
        return "{..view! { <{..}%s/> }}" % "".join(" " + rust_attr(y) for y in x[1])
    return "class:%s={%s()}" % (x[1], "tb" if x[2] else "fb")


def rust_spreads(spreads):
    """the special forms first, then `{..}` and the plain attributes that follow it"""
    first = [x for x in spreads if x[0] not in ("sp", "sb")]
    plain = [x for x in spreads if x[0] == "sp"]
    blocks = [x for x in spreads if x[0] == "sb"]
    # a {..expr} block goes AFTER the `{..}` marker section: component_to_tokens compares the marker's position among
    # all attributes with positions among the keyed attributes only, so a block before the marker makes the first plain
    # attribute after it a prop (a compile error: such a template is not accepted)
    return ("".join(" " + rust_spread(x) for x in first) + (" {..}" + "".join(" " + rust_spread(x) for x in plain) if plain else "")
            + "".join(" " + rust_spread(x) for x in blocks))


def comp_props(n):
    return n[4] if len(n) > 4 else {}


def rust_block(n):
    """{expr} children other than {String}"""
    kind = n[1]
    if kind == "none":
        return "{no()}"
    if kind == "unit":
        return "{()}"
    if kind == "vec":
        if not n[2]:
            return "{Vec::<String>::new()}"
        return "{vec![%s]}" % ", ".join("s(%s)" % rust_str(x) for x in n[2])
    if kind == "then":
        return "{%s().then(|| s(%s))}" % ("tb" if n[3] else "fb", rust_str(n[2]))
    if kind == "some":
        return "{so(%s)}" % rust_str(n[2])
    if kind == "view":
        return "{view! { %s }}" % rust_template(n[2])
    if kind == "fmt":
        return "{format!(\"{}\", %s)}" % rust_str(n[2])
    if kind == "ext":
        return "{extra.clone()}"
    if kind == "item":
        return "{item}"
    return "{%s}" % rust_dyn_value(kind, n[2])


def rust_component(n):
    name, kids, props = n[1], n[2], comp_props(n)
    sp = rust_spreads(comp_spreads(n))
    inner = "" if name == "Tabs" else " ".join(rust_node(c) for c in kids)
    if name == "Cond":
        slot = "slot:then" if props.get("rename") else "slot"
        cl = " clone:extra" if props.get("clone") else ""
        return "<Cond%s><Then %s%s>%s</Then></Cond>" % (sp, slot, cl, inner)
    if name == "Tabs":
        tabs = []
        for t in kids:                                     # ["sl", name, kids | None]
            if t[2] is None:
                tabs.append("<Tab slot name=%s/>" % rust_str(t[1]))
            else:
                tabs.append("<Tab slot name=%s>%s</Tab>" % (rust_str(t[1]), " ".join(rust_node(c) for c in t[2])))
        return "<Tabs%s>%s</Tabs>" % (sp, " ".join(tabs))
    if name == "Opt":
        pr = ""
        if props.get("a") is not None:
            pr += (" nostrip:a={so(%s)}" if props.get("nostrip") else " a={s(%s)}") % rust_str(props["a"])
        if props.get("b") is not None:
            pr += " b=%s" % rust_str(props["b"])
        if props.get("n") is not None:
            pr += " n=%d" % props["n"]
        if props.get("nochildren"):
            return "<Opt%s%s/>" % (pr, sp)
        return "<Opt%s%s>%s</Opt>" % (pr, sp, inner)
    if name == "Gen":
        if props["ty"] == "i32":
            return "<Gen<i32> v=%d%s/>" % (props["v"], sp)
        return "<Gen v=%s%s/>" % (rust_str(props["v"]), sp)
    if name == "Each":
        return "<Each items={vec![%s]} let:item%s>%s</Each>" % (", ".join("s(%s)" % rust_str(x) for x in props["items"]), sp, inner)
    cl = " clone:extra" if props.get("clone") else ""
    return "<%s%s%s>%s</%s>" % (name, cl, sp, inner, name)


def rust_node(n):
    if n[0] == "t":
        return rust_str(n[1])
    if n[0] == "b":
        return "{s(%s)}" % rust_str(n[1])
    if n[0] == "f":
        return "<>" + " ".join(rust_node(c) for c in n[1]) + "</>"
    if n[0] == "c":
        if n[1] == "Label":
            return "<Label text/>" if len(n) > 3 else "<Label text=%s/>" % rust_str(n[2])      # shorthand: `let text` in scope
        return rust_component(n)
    if n[0] == "cm":
        return "<!-- %s -->" % rust_str(n[1])
    if n[0] == "dt":
        return "<!DOCTYPE html>"
    if n[0] == "r":
        return n[1]
    if n[0] == "k":
        return rust_block(n)
    tag, attrs, ch = n[1], n[2], n[3]
    a = "".join(" " + rust_attr(x) for x in attrs)
    if tag in VOID:
        return "<%s%s/>" % (tag, a)
    return "<%s%s>%s</%s>" % (tag, a, " ".join(rust_node(c) for c in ch), tag)


def rust_template(tpl):
    return " ".join(rust_node(n) for n in tpl)


def gclass_src(item):
    if item.get("gclass") is None:
        return ""
    return "class = GC, " if item["gclass"] == GC_VALUE and item.get("gclass_ident") else "class = %s, " % rust_str(item["gclass"])




def rust_fn(idx, item, gen_dir, erase=False):
    tpl, variants = item["tpl"], item.get("variants", (0, 1, 2))
    if erase:
        # the --cfg erase_components build: view! and its twin only (template! is view! there), to_html() only
        variants = [v for v in variants if v in item.get("erase_variants", ())]
        item = dict(item, streams=False)
    lines = ["pub fn t%d(out: &mut Out) {" % idx]
    pre = gclass_src(item)
    src = pre + rust_template(tpl)
    let = item.get("prelude", "")
    body = lambda mac, text: "|| { %s%s! { %s } }" % (let + " " if let else "", mac, text)
    r = "render" if item.get("streams") else "render1"
    if 0 in variants:
        lines.append("    %s(out, %d, 0, %s);" % (r, idx, body("view", src)))
    if 1 in variants:
        lines.append("    %s(out, %d, 1, %s);" % (r, idx, body("view", pre + rust_template(twin(tpl)))))
    if 2 in variants:
        lines.append("    render1(out, %d, 2, %s);" % (idx, body("template", src)))
    if 3 in variants:
        # include_view!: the same tokens read from a file (named by their hash: a changed template is a changed shard)
        fn = os.path.join(gen_dir, "inc_%s.view" % C.case_hash(src))
        if not os.path.exists(fn):
            with open(fn, "w") as f:
                f.write(src)
        lines.append("    render1(out, %d, 3, || { %sinclude_view!(%s) });" % (idx, let + " " if let else "", rust_str(fn)))
    lines.append("}")
    return "\n".join(lines)


def compile_cost(item):
    """rough relative cost of compiling one item (measured: components ~4x per character, the streaming exits
    triple the monomorphised renderers), to spread the work evenly over the binaries"""
    txt = json.dumps(item["tpl"])
    n = len(rust_template(item["tpl"]))
    v = len(item.get("variants", (0, 1, 2)))
    w = 1.0 + (2.0 if item.get("streams") else 0.0)
    if '"c"' in txt:
        w *= 4
    if '"clo' in txt or '"view"' in txt:
        w *= 2
    return 200 + n * v * w


def write_shards(items, gen_dir, erase=False):
    """items[i]['tpl'] -> gen_dir/shard_k.rs (erase: only the items marked for the erase_components build)"""
    os.makedirs(gen_dir, exist_ok=True)
    shards = [[] for _ in range(N_BINS)]
    # spread by estimated cost so that the compilations take similar time
    cost = [compile_cost(it) for it in items]
    order = sorted([i for i in range(len(items)) if not erase or items[i].get("erase_variants")], key=lambda i: -cost[i])
    load = [0] * N_BINS
    for i in order:
        k = load.index(min(load))
        shards[k].append(i)
        load[k] += cost[i]
    for k in range(N_BINS):
        ids = sorted(shards[k])
        body = ["// generated by gen/c18.py — do not edit"]
        for i in ids:
            body.append(rust_fn(i, items[i], gen_dir, erase))
        body.append("pub const TEMPLATES: &[(u32, fn(&mut Out))] = &[%s];" % ", ".join("(%d, t%d)" % (i, i) for i in ids))
        text = "\n".join(body) + "\n"
        p = os.path.join(gen_dir, "shard_%d.rs" % k)
        if not os.path.exists(p) or open(p).read() != text:
            with open(p, "w") as f:
                f.write(text)


# ------------------------------------------------------------------------------------------ oracle side
H_VOID = {"area", "base", "br", "col", "embed", "hr", "img", "input", "link", "meta", "param", "source", "track", "wbr"}
H_RAW = {"script", "style", "noscript"}      # raw text (noscript: scripting enabled)
H_RCDATA = {"textarea", "title"}              # raw text with character references
_TAG = re.compile(r"<([A-Za-z][^\s/>]*)")
_ATTR = re.compile(r"""[\s/]*([^\s=/>]+)(?:\s*=\s*(?:"([^"]*)"|'([^']*)'|([^\s>]+)))?""")
_WS = re.compile(r"[ \t\n\f\r]+")


def norm_attrs(pairs):
    """attribute SET: dict name -> value; class -> frozenset of tokens, style -> frozenset of declarations;
    an empty class/style is no attribute"""
    d = {}
    cls, sty = [], []
    for k, v in pairs:
        if k == "class":
            cls += [x for x in _WS.split(v) if x]
        elif k == "style":
            sty += [x.strip(" \t\n\f\r\v") for x in v.split(";")]
        elif k not in d:            # HTML: the first of duplicate attributes wins
            d[k] = v
    sty = [x for x in sty if x]
    if cls:
        d["class"] = frozenset(cls)
    if sty:
        d["style"] = frozenset(sty)
    return d


def add_text(children, s):
    if not s:
        return
    if children and children[-1][0] == "text":
        children[-1] = ("text", children[-1][1] + s)
    else:
        children.append(("text", s))


FOREIGN_ROOTS = ("svg", "math")
INTEGRATION = ("foreignObject", "desc", "title")     # HTML integration points of SVG: their content is HTML again
RAW3 = ("script", "style", "noscript")


def in_foreign(stack):
    """is the open element in foreign content? (inside <svg>/<math>, not inside an HTML integration point)"""
    for tag, _, _ in reversed(stack):
        if tag in FOREIGN_ROOTS:
            return True
        if tag in INTEGRATION:
            return False
    return False


def parse_html(s, tolerate_title=False, noscript_html=False, tolerate_svg_script=False):
    """HTML subset -> forest of ('text', str) | ('elem', tag, attrs, children); comments dropped, text merged.
    In foreign content (below <svg> / <math>) script, style, title, textarea are ordinary elements: their content is
    markup with character references (HTML parsing rules for foreign content)."""
    root = []
    stack = [(None, None, root)]
    i, n = 0, len(s)
    while i < n:
        cur = stack[-1][2]
        if s.startswith("<!--", i):
            j = s.find("-->", i + 4)
            i = n if j < 0 else j + 3
            continue
        if s[i:i + 9].lower() == "<!doctype":
            j = s.find(">", i)
            cur.append(("elem", "!doctype", {"value": s[i + 9:(n if j < 0 else j)].strip()}, []))
            i = n if j < 0 else j + 1
            continue
        if s.startswith("<!", i) or s.startswith("<?", i):
            j = s.find(">", i)
            i = n if j < 0 else j + 1
            continue
        if s.startswith("</", i):
            m = re.compile(r"</([A-Za-z][^\s/>]*)[^>]*>").match(s, i)
            if m:
                name = m.group(1)
                for d in range(len(stack) - 1, 0, -1):
                    if stack[d][0] == name:
                        while len(stack) > d:
                            tag, attrs, ch = stack.pop()
                            stack[-1][2].append(("elem", tag, attrs, ch))
                        break
                i = m.end()
                continue
        m = _TAG.match(s, i)
        if m:
            tag = m.group(1)
            j = m.end()
            pairs = []
            while True:
                while j < n and s[j] in " \t\n\f\r/":
                    j += 1
                if j >= n or s[j] == ">":
                    break
                am = _ATTR.match(s, j)
                if not am or am.end() == j:
                    j += 1
                    continue
                val = am.group(2) if am.group(2) is not None else am.group(3) if am.group(3) is not None else am.group(4)
                pairs.append((am.group(1), _html.unescape(val) if val is not None else ""))
                j = am.end()
            i = j + 1
            attrs = norm_attrs(pairs)
            foreign = in_foreign(stack)
            if tag in H_VOID and not foreign:
                cur.append(("elem", tag, attrs, []))
            elif foreign and tag in RAW3 and tolerate_svg_script:
                em = re.compile(r"</%s[\s/>]" % tag, re.I).search(s, i)     # F-C18-l: the text is not looked at
                cur.append(("elem", tag, attrs, []))
                g = s.find(">", em.start()) if em else -1
                i = n if g < 0 else g + 1
            elif foreign and (tag in H_RAW or tag in H_RCDATA):
                stack.append((tag, attrs, []))
            elif (tag in H_RAW and not (noscript_html and tag == "noscript")) or tag in H_RCDATA:
                em = re.compile(r"</%s[\s/>]" % re.escape(tag), re.I).search(s, i)
                end = em.start() if em else n
                text = s[i:end]
                if tag in H_RCDATA:
                    if tolerate_title and tag == "title":
                        text = text.replace("<!>", "")      # what F-C18-f is about, see classify
                    text = _html.unescape(text)
                ch = []
                add_text(ch, text)
                cur.append(("elem", tag, attrs, ch))
                if em:
                    g = s.find(">", em.start())
                    i = n if g < 0 else g + 1
                else:
                    i = n
            else:
                stack.append((tag, attrs, []))
            continue
        j = s.find("<", i + 1)
        if j < 0:
            j = n
        add_text(cur, _html.unescape(s[i:j]))
        i = j
    while len(stack) > 1:
        tag, attrs, ch = stack.pop()
        stack[-1][2].append(("elem", tag, attrs, ch))
    return root


def expect_attrs(attrs, tag=""):
    pairs = []
    for a in attrs:
        k = a[0]
        if k in ("ev", "pr", "us", "nr"):
            continue                      # listeners, DOM properties, directives, node refs: nothing in the HTML
        if k == "sx":
            pairs += list(_pairs_of(expect_attrs(a[1], tag)))
            continue
        if k == "p" and a[2][0] == "dv":
            pairs.append((html_name(tag, a[1]), str(a[2][2])))
            continue
        if k == "p":
            a = [a[0], html_name(tag, a[1]), a[2]]
            v = a[2]
            if v[0] in ("lit", "str"):
                pairs.append((a[1], v[1]))
            elif v[0] == "num":
                pairs.append((a[1], v[2]))
            elif v[0] == "none":
                pairs.append((a[1], ""))
            elif v[0] in ("bool", "blit"):
                if v[1]:
                    pairs.append((a[1], ""))
            elif v[1] is not None:
                pairs.append((a[1], v[1]))
        elif k == "ct":
            if a[2] is None or a[2]:
                pairs.append(("class", a[1]))
        elif k == "cu":
            if a[2]:
                pairs += [("class", x) for x in a[1]]
        else:
            pairs.append(("style", "%s:%s" % (a[1], a[2])))
    return norm_attrs(pairs)


def _pairs_of(d):
    """attribute dict of norm_attrs -> (name, value) pairs again"""
    for k, v in d.items():
        if k == "class":
            yield (k, " ".join(sorted(v)))
        elif k == "style":
            yield (k, ";".join(sorted(v)))
        else:
            yield (k, v)


def spread_onto(roots, spreads):
    """attributes written on a component land on every root element of the view it returns"""
    if not spreads:
        return roots
    out = []
    for r in roots:
        if r[0] == "text":
            out.append(r)
            continue
        pairs = list(_pairs_of(r[2]))
        for x in spreads:
            if x[0] in ("sa", "sd", "sp"):
                pairs.append((x[1], x[2]))
            elif x[0] == "ss":
                pairs.append(("style", "%s:%s" % (x[1], x[2])))
            elif x[0] in ("se", "spr", "su"):
                pass                                            # listeners, properties, directives: nothing in the HTML
            elif x[0] == "sb":
                pairs += list(_pairs_of(expect_attrs(x[1], r[1])))
            elif x[2]:
                pairs.append(("class", x[1]))
        out.append(("elem", r[1], norm_attrs(pairs), r[3]))
    return out


def expect_block(n, out):
    kind = n[1]
    if kind in ("none", "unit"):
        return
    if kind == "vec":
        for x in n[2]:
            add_text(out, x)
    elif kind == "then":
        if n[3]:
            add_text(out, n[2])
    elif kind == "view":
        expect(n[2], out)
    elif kind == "ext":
        add_text(out, "cl")
    elif kind == "item":
        raise ValueError("{item} outside <Each>")
    else:
        add_text(out, str(n[2]))


def subst_item(tpl, item):
    """the children of <Each let:item> with {item} := item"""
    out = []
    for n in tpl:
        if n[0] == "k" and n[1] == "item":
            out.append(["b", item])
        elif n[0] == "e":
            out.append(["e", n[1], n[2], subst_item(n[3], item)])
        elif n[0] == "f":
            out.append(["f", subst_item(n[1], item)])
        else:
            out.append(n)
    return out


def produces_node(n):
    """does node_to_tokens yield a view for this child? (comments and empty literals do not)"""
    return not (n[0] in ("cm",) or (n[0] == "t" and n[1] == ""))


FRAG_CHUNKED = [False]


def expect_component(n, scope=None):
    """root nodes of the view the harness component returns (harness/macro/src/lib.rs)"""
    name, kids, props = n[1], n[2], comp_props(n)
    ex = lambda t, out=None: expect(t, out, scope)
    if name == "Label":
        ch = []
        add_text(ch, n[2])
        return [("elem", "label", {}, ch)]
    if name == "Wrap":
        return [("elem", "section", {"class": frozenset(["w"])}, ex(kids))]
    if name == "Cond":
        return [("elem", "div", {"class": frozenset(["cond"])}, ex(kids))]
    if name == "Typed":
        return [("elem", "article", {}, ex(kids))]
    if name == "Frag":
        nodes = [k for k in kids if produces_node(k)]
        if FRAG_CHUNKED[0] and len(nodes) > 16:
            # F-C18-k: what the code does — the 16-tuples the macro nests are the nodes of the fragment
            return [("elem", "ol", {}, [("elem", "li", {}, ex(g)) for g in chunks(nodes, 16)])]
        return [("elem", "ol", {}, [("elem", "li", {}, ex([k])) for k in nodes])]
    if name == "Opt":
        pairs = []
        if props.get("a") is not None:
            pairs.append(("data-a", props["a"]))
        pairs.append(("data-b", props.get("b") or ""))
        pairs.append(("data-n", str(7 if props.get("n") is None else props["n"])))
        return [("elem", "i", norm_attrs(pairs), [] if props.get("nochildren") else ex(kids))]
    if name == "Gen":
        ch = []
        add_text(ch, str(props["v"]))
        return [("elem", "u", {}, ch)]
    if name == "Tabs":
        return [("elem", "nav", {}, [("elem", "span", norm_attrs([("data-name", t[1])]), [] if t[2] is None else ex(t[2]))
                                     for t in kids])]
    if name == "Each":
        ch = []
        for it in props["items"]:
            ex(subst_item(kids, it), ch)
        return [("elem", "ul", {}, ch)]
    return ex(kids)                         # Pass: the children themselves are the roots


def expect(tpl, out=None, scope=None):
    """the tree the template denotes (written independently of Html/Macro.v's [denote]); scope = the scope class of
    `view! { class = scope, .. }`: every element WRITTEN IN THIS view! carries it (not the elements a component adds,
    not those of a nested view! in a block)"""
    out = [] if out is None else out
    for n in tpl:
        if n[0] in ("t", "b"):
            add_text(out, n[1])
        elif n[0] == "f":
            expect(n[1], out, scope)
        elif n[0] == "cm":
            continue                                # comments are dropped by the macro
        elif n[0] == "dt":
            out.append(("elem", "!doctype", {"value": "html"}, []))     # the declaration, kept as a pseudo element
        elif n[0] == "r":
            add_text(out, n[1])
        elif n[0] == "k":
            expect_block(n, out)
        elif n[0] == "c":
            roots = expect_component(n, scope)
            for r in spread_onto(roots, comp_spreads(n)):
                if r[0] == "text":
                    add_text(out, r[1])
                else:
                    out.append(r)
        else:
            tag, attrs, ch = n[1], n[2], n[3]
            inner = [a for a in attrs if a[0] == "p" and a[1] == "inner_html"]
            if inner:
                kids = parse_html(inner[0][2][2] if inner[0][2][0] == "dv" else inner[0][2][1])
                attrs = [a for a in attrs if a not in inner]
            else:
                kids = [] if tag in H_VOID else expect(ch, None, scope)
            a = expect_attrs(attrs, tag)
            if scope is not None:
                a = norm_attrs(list(_pairs_of(a)) + [("class", scope)])
            out.append(("elem", html_tag(tag), a, kids))
    return out


def strip_twin(forest):
    out = []
    for n in forest:
        if n[0] == "text":
            out.append(n)
        else:
            a = {k: v for k, v in n[2].items() if k != "data-twin"}
            out.append(("elem", n[1], a, strip_twin(n[3])))
    return out


def show_forest(f):
    def one(n):
        if n[0] == "text":
            return json.dumps(n[1], ensure_ascii=False)
        a = "".join(" %s=%s" % (k, json.dumps(sorted(v) if isinstance(v, frozenset) else v, ensure_ascii=False))
                    for k, v in sorted(n[2].items()))
        return "<%s%s>[%s]" % (n[1], a, " ".join(one(c) for c in n[3]))
    return " ".join(one(n) for n in f)


def first_diff(a, b, path="/"):
    """human-readable location of the first difference between two forests"""
    for i in range(max(len(a), len(b))):
        if i >= len(a):
            return "%s[%d]: missing, expected %s" % (path, i, show_forest([b[i]])[:120])
        if i >= len(b):
            return "%s[%d]: unexpected %s" % (path, i, show_forest([a[i]])[:120])
        x, y = a[i], b[i]
        if x[0] != y[0]:
            return "%s[%d]: %s vs %s" % (path, i, show_forest([x])[:80], show_forest([y])[:80])
        if x[0] == "text":
            if x[1] != y[1]:
                return "%s[%d]: text %r vs %r" % (path, i, x[1], y[1])
            continue
        if x[1] != y[1]:
            return "%s[%d]: element <%s> vs <%s>" % (path, i, x[1], y[1])
        if x[2] != y[2]:
            ks = sorted(set(x[2]) | set(y[2]))
            d = [k for k in ks if x[2].get(k) != y[2].get(k)]
            return "%s%s: attribute %s: %r vs %r" % (path, x[1], d[0], _plain(x[2].get(d[0])), _plain(y[2].get(d[0])))
        r = first_diff(x[3], y[3], path + x[1] + "/")
        if r:
            return r
    return None


def _plain(v):
    return sorted(v) if isinstance(v, frozenset) else v


def decode(b):
    return bytes(b).decode("utf-8", "replace")


def add_scope(forest, cls):
    """view! { class = "cls", … }: every element carries the scope class"""
    out = []
    for n in forest:
        if n[0] == "text":
            out.append(n)
        else:
            a = dict(n[2])
            a["class"] = frozenset(a.get("class", frozenset()) | {cls})
            out.append(("elem", n[1], a, add_scope(n[3], cls)))
    return out


def drop_svg_script_text(forest, foreign=False):
    out = []
    for n in forest:
        if n[0] == "text":
            out.append(n)
        elif foreign and n[1] in RAW3:
            out.append(("elem", n[1], n[2], []))
        else:
            out.append(("elem", n[1], n[2], drop_svg_script_text(n[3], (foreign or n[1] in FOREIGN_ROOTS) and n[1] not in INTEGRATION)))
    return out


def oracle(item, impl, tolerate_title=False, tolerate_svg_script=False, tolerate_frag=False):
    """impl = {variant: bytes list | '!…'}; the property demanded on the implementation alone"""
    want_erase = expect(item["tpl"], None, item.get("gclass"))       # type-erased children are a flat list
    FRAG_CHUNKED[0] = tolerate_frag
    try:
        want = expect(item["tpl"], None, item.get("gclass"))
    finally:
        FRAG_CHUNKED[0] = False
    if tolerate_svg_script:
        want, want_erase = drop_svg_script_text(want), drop_svg_script_text(want_erase)
    _parse = parse_html
    parse_html_ = lambda t, a, b: _parse(t, a, b, tolerate_svg_script)
    trees = {}
    for v in item.get("variants", (0, 1, 2)):
        o = impl.get(v)
        if o is None:
            return "variant %d produced no output" % v
        if isinstance(o, str):
            return "variant %d: %s" % (v, o)
        trees[v] = parse_html_(decode(o), tolerate_title, bool(item.get("noscript_html")))
    names = {0: "view! (inert path where eligible)", 1: "forced-dynamic twin", 2: "template! (builder path)",
             3: "include_view! of the same tokens"}
    for v in sorted(trees):
        got = strip_twin(trees[v]) if v == 1 else trees[v]
        if got != want:
            return "%s does not render the tree the template denotes: %s" % (names[v], first_diff(got, want))
    # the same variants through the other exits (printed by the harness only when they differ from to_html())
    # and from the --cfg erase_components build
    exits = {1: "streamed in order (to_html_stream_in_order)", 2: "streamed out of order (to_html_stream_out_of_order)"}
    for key in sorted(k for k in impl if k >= 10):
        o, v, ex, er = impl[key], key % 10, (key // 10) % 10, key >= 100
        what = names.get(v, "variant %d" % v) + (", " + exits[ex] if ex else "") + (", built with --cfg erase_components" if er else "")
        if isinstance(o, str):
            return "%s: %s" % (what, o)
        got = parse_html_(decode(o), tolerate_title, bool(item.get("noscript_html")))
        got = strip_twin(got) if v == 1 else got
        if got != (want_erase if er else want):
            return "%s does not render the tree the template denotes: %s" % (what, first_diff(got, want_erase if er else want))
    for v in item.get("erase_variants", ()):
        if 100 + v not in impl:
            return "variant %d produced no output in the --cfg erase_components build" % v
    if 0 in trees and 1 in trees and strip_twin(trees[1]) != trees[0]:
        return "adding a dynamic attribute changed how static parts render: %s" % first_diff(trees[0], strip_twin(trees[1]))
    if 0 in trees and 2 in trees and trees[0] != trees[2]:
        return "inert path and builder path yield different documents: %s" % first_diff(trees[0], trees[2])
    return None


def title_adjacent(tpl):
    """KnownClass of F-C18-f (Html/MacroProofs.v [title_adjacent]): some <title> has two text children"""
    for n in tpl:
        if n[0] == "e":
            if n[1] == "title" and len([c for c in n[3] if c[0] in ("b", "r", "k") or (c[0] == "t" and c[1] != "")]) >= 2:
                return True
            if title_adjacent(n[3]):
                return True
        elif n[0] == "f" and title_adjacent(n[1]):
            return True
        elif n[0] == "c" and title_adjacent(comp_children(n)):
            return True
        elif n[0] == "k" and n[1] == "view" and title_adjacent(n[2]):
            return True
    return False


MACRO_SVG = None


def _macro_svg():
    global MACRO_SVG
    if MACRO_SVG is None:
        src = open(os.path.join(C.ROOT, "coq", "theories", "Html", "Macro.v")).read()
        body = lambda name: re.findall(r'"([^"]+)"', src[src.index("Definition %s " % name):].split("%string")[0])
        MACRO_SVG = (set(body("macro_svg")), set(body("macro_mathml")))
    return MACRO_SVG


def child_ns(ns, tag):
    """the macro's parent_type handed to the children of `tag` (ns in 'U','H','S','M')"""
    svg, mathml = _macro_svg()
    if "-" in tag:
        own = ns
    elif tag in svg:
        own = "S"
    elif tag in mathml:
        own = "M"
    elif tag in ("a", "script", "style", "title"):
        own = ns
    else:
        own = "H"
    return "H" if own == "S" and tag in INTEGRATION else own


def svg_script(tpl, foreign=False, ns="U"):
    """KnownClass of F-C18-l: an element named script / style / noscript with markup-significant text that the inert
    path escapes (it lies in SVG / MathML content, by the macro's rule) while the builder path writes it raw (its
    constructor is the HTML one: not script/style directly below an SVG-namespace parent), or the other way round"""
    for n in tpl:
        if n[0] == "e":
            tag = n[1]
            fe = foreign or tag in FOREIGN_ROOTS
            if tag in RAW3:
                builder_escapes = tag in ("script", "style") and ns == "S"
                hot = any(ch in "".join(c[1] for c in n[3] if c[0] in ("t", "b", "r")) for ch in "<>&")
                if hot and fe != builder_escapes:
                    return True
            if svg_script(n[3], fe and tag not in INTEGRATION, child_ns(ns, tag)):
                return True
        elif n[0] == "f" and svg_script(n[1], foreign, ns):
            return True
        elif n[0] == "c" and svg_script(comp_children(n), False, "U"):
            return True
    return False


def rawish_below_foreign(tpl, below=False):
    """outside [wf] of the theorems: an element named script / style / noscript below an SVG / MathML element"""
    svg, mathml = _macro_svg()
    for n in tpl:
        if n[0] == "e":
            if below and n[1] in RAW3:
                return True
            if rawish_below_foreign(n[3], below or n[1] in svg or n[1] in mathml):
                return True
        elif n[0] == "f" and rawish_below_foreign(n[1], below):
            return True
    return False


def classify(item, impl, model):
    """F-C18-f: the failure disappears when the literal `<!>` inside <title> is ignored, and the template has a
    <title> with two text children; F-C18-l: the failure disappears when the text of script / style / noscript elements in
    foreign content is not looked at, and the template has one that the two paths escape differently; any other failure stays
    unclassified"""
    if title_adjacent(item["tpl"]) and oracle(item, impl) and not oracle(item, impl, tolerate_title=True):
        return "F-C18-f"
    if svg_script(item["tpl"]) and oracle(item, impl) and not oracle(item, impl, tolerate_svg_script=True):
        return "F-C18-l"
    if wide_fragment_children(item["tpl"]) and oracle(item, impl) and not oracle(item, impl, tolerate_frag=True):
        return "F-C18-k"
    return None


def wide_fragment_children(tpl):
    """KnownClass of F-C18-k: a component taking ChildrenFragment (harness: Frag) with more than 16 child nodes"""
    for n in tpl:
        if n[0] == "c":
            if n[1] == "Frag" and len([k for k in n[2] if produces_node(k)]) > 16:
                return True
            if wide_fragment_children(comp_children(n)):
                return True
        elif n[0] == "e" and wide_fragment_children(n[3]):
            return True
        elif n[0] == "f" and wide_fragment_children(n[1]):
            return True
    return False


def describe(item):
    return "view! { %s%s }" % (gclass_src(item), rust_template(item["tpl"]))


def tree_of_sexp(f):
    """model's denote/parse output (sexp) -> oracle forest"""
    out = []
    for n in f:
        if n[0] == 0:
            add_text(out, decode(n[1]))
        else:
            out.append(("elem", decode(n[1]), norm_attrs([(decode(k), decode(v)) for k, v in n[2]]), tree_of_sexp(n[3])))
    return out


def cosmetic_difference(impl):
    """class/style attribute TEXT differs between variant 0 and 2 although the parsed sets agree (reported in the
    evidence only; see ASSUMPTIONS)"""
    a, b = impl.get(0), impl.get(2)
    if isinstance(a, list) and isinstance(b, list) and a != b:
        sa, sb = decode(a), decode(b)
        vals = lambda s: sorted(re.findall(r' (?:class|style)="([^"]*)"', s))
        return vals(sa) != vals(sb)
    return False


# ------------------------------------------------------------------------------------------ running
ERASE_EXE = {}      # main executable -> executable of the erase_components build of the same batch (or None)
BUILD_TIMES = {}


def build(items, gen_dir=GEN_DIR):
    """the harness binaries for this batch; if some items ask for it, a second build of the same crate with
    RUSTFLAGS --cfg erase_components (leptos then turns on leptos_macro's __internal_erase_components: the macro
    emits type-erased children / spreads, tachys' HtmlElement::child collects AnyViews) in its own target dir"""
    write_shards(items, gen_dir)
    t0 = time.time()
    exe, log = C.build_harness(HARNESS, {"C18_GEN_DIR": gen_dir})
    BUILD_TIMES["main"] = round(time.time() - t0, 1)
    if exe is not None:
        ERASE_EXE[exe] = None
        if any(it.get("erase_variants") for it in items):
            edir = gen_dir.rstrip("/") + "_erase"
            write_shards(items, edir, erase=True)
            tgt = os.path.join(C.BUILD, "target", "macro-erase" + ("-alt" + _TAG_REPO if _TAG_REPO else ""))
            e2, log2 = C.build_harness(HARNESS, {"C18_GEN_DIR": edir, "CARGO_TARGET_DIR": tgt,
                                                 "RUSTFLAGS": "--cfg %s --cfg erase_components -Awarnings" % C.GUARD})
            if e2 is None:
                return None, "[--cfg erase_components build]\n" + log2, time.time() - t0
            ERASE_EXE[exe] = os.path.join(tgt, "release", os.path.basename(exe))
            BUILD_TIMES["erase_components"] = round(time.time() - t0 - BUILD_TIMES["main"], 1)
    return exe, log, time.time() - t0


def run_impl(exe, items):
    """-> list (per item) of {variant: bytes-list | '!panic …'}"""
    from concurrent.futures import ThreadPoolExecutor
    d = os.path.dirname(exe)
    exes = [exe] + [os.path.join(d, "h_macro_%d" % k) for k in range(1, N_BINS)]
    t0 = time.time()
    jobs = [(e, None) for e in exes]
    if ERASE_EXE.get(exe):
        d2 = os.path.dirname(ERASE_EXE[exe])
        jobs += [(os.path.join(d2, os.path.basename(e)), {"C18_VARIANT_OFFSET": "100"}) for e in exes]
    with ThreadPoolExecutor(N_BINS) as ex:
        outs = list(ex.map(lambda j: C.sh([j[0]], 300, env=j[1]), jobs))
    res = [dict() for _ in items]
    for rc, out, _ in outs:
        for line in out.splitlines():
            line = line.strip()
            if not line:
                continue
            if line.startswith("!panic"):
                parts = line.split(" ", 2)
                idx = int(parts[1])
                for v in items[idx].get("variants", (0, 1, 2)):
                    res[idx].setdefault(v, "!panic " + (parts[2] if len(parts) > 2 else ""))
                continue
            try:
                v = C.parse_sx(line)
                res[v[0]][v[1]] = v[2]
            except Exception:
                pass
        if rc != 0:
            pass
    return res, time.time() - t0


def run_model(model_exe, items):
    """-> per item (model(t), model(twin t)) parsed sexps (None for oracle-only items)"""
    cases, where = [], []
    for i, it in enumerate(items):
        if it.get("compare", True):
            cases.append(to_case(it["tpl"]))
            where.append((i, 0))
            cases.append(to_case(twin(it["tpl"])))
            where.append((i, 1))
    lines, _, dt = C.run_sharded([model_exe], cases, shards=8, timeout=900)
    res = [[None, None] for _ in items]
    raw = [[None, None] for _ in items]
    for (i, k), l in zip(where, lines):
        res[i][k] = C.parse_sx(l) if not l.startswith("!") else l
        raw[i][k] = l
    return res, raw, cases, dt


def evaluate(items, exe, model_exe):
    impl, t_impl = run_impl(exe, items)
    model, model_raw, cases, t_model = run_model(model_exe, items)
    results = []
    for i, it in enumerate(items):
        r = dict(item=it, impl=impl[i], model=model[i], mismatch=None, oracle=None, spec_drift=None, instance=None)
        try:
            r["oracle"] = oracle(it, impl[i])
        except Exception as ex:
            r["oracle"] = "oracle crashed: %r" % (ex,)
        if it.get("compare", True):
            m, mt = model[i]
            if isinstance(m, str) or isinstance(mt, str) or m is None or mt is None:
                r["mismatch"] = "model failed: %r %r" % (m, mt)
            else:
                exp = {0: m[0], 1: mt[0], 2: m[1], 3: m[0]}
                nm = {0: "view_html", 1: "view_html(twin)", 2: "builder_html", 3: "view_html (include_view!)"}
                for v in it.get("variants", (0, 1, 2)):
                    if impl[i].get(v) != exp[v]:
                        r["mismatch"] = "variant %d: to_html() = %r, model %s = %r" % (
                            v, decode(impl[i][v]) if isinstance(impl[i].get(v), list) else impl[i].get(v),
                            nm[v], decode(exp[v]))
                        break
                # instances of the theorems, evaluated by the extracted model itself
                # (elements below <noscript> are outside [wf]: Html/MacroParse.v reads noscript as raw text)
                r["instance"] = (((m[3] == m[4] == m[5]) and (mt[3] == mt[4] == mt[5]))
                                 or title_adjacent(it["tpl"]) or bool(it.get("noscript_html"))
                                 or rawish_below_foreign(it["tpl"]))
                # the Coq [denote] is the tree the generator intended
                if tree_of_sexp(m[3]) != expect(it["tpl"]):
                    r["spec_drift"] = first_diff(tree_of_sexp(m[3]), expect(it["tpl"]))
        results.append(r)
    return results, t_impl, t_model, (cases, model_raw)


def shrink_candidates(tpl):
    """templates obtained by one deletion / simplification somewhere"""
    def nodes(l):
        for i in range(len(l)):
            yield l[:i] + l[i + 1:]
            n = l[i]
            if n[0] == "e":
                for j in range(len(n[2])):
                    yield l[:i] + [["e", n[1], n[2][:j] + n[2][j + 1:], n[3]]] + l[i + 1:]
                for sub in nodes(n[3]):
                    yield l[:i] + [["e", n[1], n[2], sub]] + l[i + 1:]
                if n[3]:
                    yield l[:i] + n[3] + l[i + 1:]
            elif n[0] == "f":
                for sub in nodes(n[1]):
                    yield l[:i] + [["f", sub]] + l[i + 1:]
            elif n[0] in ("t", "b") and len(n[1]) > 1:
                yield l[:i] + [[n[0], n[1][: len(n[1]) // 2]]] + l[i + 1:]
                yield l[:i] + [[n[0], n[1][len(n[1]) // 2:]]] + l[i + 1:]
    seen = []
    for c in nodes(tpl):
        if c and c not in seen:
            seen.append(c)
    return seen


def template_valid(tpl, noscript_html=False):
    """stay inside the generator's class while shrinking: text directly inside script/style/noscript is written
    verbatim, so it must not contain "</" (and, where noscript is read as markup, no '<' or '&')"""
    for n in tpl:
        if n[0] == "e":
            if n[1] in ("script", "style", "noscript"):
                direct = "".join(c[1] for c in n[3] if c[0] in ("t", "b", "r"))
                if "</" in direct:
                    return False
                if noscript_html and n[1] == "noscript" and ("<" in direct or "&" in direct):
                    return False
                if n[1] != "noscript" and any(c[0] not in ("t", "b", "r") for c in n[3]):
                    return False
            if not template_valid(n[3], noscript_html):
                return False
        elif n[0] == "f" and not template_valid(n[1], noscript_html):
            return False
        elif n[0] == "c" and not template_valid(comp_children(n), noscript_html):
            return False
        elif n[0] == "k" and n[1] == "view" and not template_valid(n[2], noscript_html):
            return False
    # two unquoted texts next to each other are ONE text for rstml ("hello world"): not what the generator means
    for x, y in zip(tpl, tpl[1:]):
        if x[0] == "r" and y[0] == "r":
            return False
    return True


def shrink(item, kind, model_exe, rounds=3, width=60):
    """batch shrinking: every round compiles up to `width` one-step reductions at once"""
    cur = item
    gen_dir = os.path.join(C.BUILD, "c18" + _TAG_REPO, "shrink")
    for _ in range(rounds):
        cands = [c for c in shrink_candidates(cur["tpl"])
                 if template_valid(c, bool(cur.get("noscript_html")))][:width]
        if not cands:
            break
        its = [dict(cur, tpl=c) for c in cands]
        exe, log, _ = build(its, gen_dir)
        if exe is None:
            break
        rs, _, _, _ = evaluate(its, exe, model_exe)
        bad = [r for r in rs if (r["oracle"] if kind == "oracle" else r["mismatch"])
               and not str(r["oracle"]).startswith("oracle crashed")]
        if not bad:
            break
        cur = min(bad, key=lambda r: len(json.dumps(r["item"]["tpl"])))["item"]
    return cur


def load_corpus():
    items = []
    cdir = os.path.join(C.ROOT, "corpus", PID)
    if os.path.isdir(cdir):
        for fn in sorted(os.listdir(cdir)):
            if fn.endswith(".json"):
                for it in json.load(open(os.path.join(cdir, fn))):
                    it = dict(it)
                    it["origin"] = "corpus/" + fn
                    items.append(it)
    return items


def nontrivial(item, model):
    m = model[0] if model else None
    if not isinstance(m, list):
        return False
    dyn = json.dumps(item["tpl"])
    return m[0] != m[1] or any(x in dyn for x in ('"b"', '"str"', '"bool"', '"opt"', '"ct"', '"cu"', '"sp"', '"su"', '"num"', '"blit"', '"dv"', '"k"'))


def setup():
    """build once: model + harness with the quick-tier batch (what ./check C18 will compile)"""
    C.build_model(PID)
    rng = random.Random(int(os.environ.get("VERIF_SEED", "20260930")))
    items = load_corpus() + list(generate(rng, "quick"))
    exe, log, dt = build(items)
    print("harness macro", "ok (%.0fs)" % dt if exe else "FAILED")
    if not exe:
        print(log[-3000:])
        raise RuntimeError("C18 harness build failed")


def main(tier, seed, replay):
    t0 = time.time()
    no_coq = "--no-coq" in sys.argv or bool(os.environ.get("VERIF_REPO"))
    violations, known_seen = [], []
    if no_coq:
        coq = dict(ok=True, obligations=0, discharged=0, assumptions=[], problems=[], cmd="(skipped)", theorems=[])
    else:
        coq = C.coq_check(PROPS_V, ALLOWED_AXIOMS)
    if not coq["ok"]:
        p = C.write_replay(PID, dict(kind="proof-obligation", property=PID, problems=coq["problems"],
                                     log=coq.get("log", "")[-4000:],
                                     note="theorems of %s no longer check" % PROPS_V))
        violations.append((p, " no-failing-input-found"))
    try:
        model_exe = C.build_model(PID)
    except Exception as ex:
        p = C.write_replay(PID, dict(kind="model-build", property=PID, error=str(ex)[-4000:]))
        print("VIOLATION property=%s replay=%s no-failing-input-found" % (PID, os.path.relpath(p, C.OUT)))
        finish(tier, seed, t0, coq, [], [(p, "")], [], 0, 0, 0, {})
        return 1

    if replay:
        payload = json.load(open(replay))
        it = payload.get("item")
        if it is None:
            print("replay file names a proof obligation / build problem, nothing to execute:")
            print(json.dumps({k: payload[k] for k in payload if k != "log"}, indent=1)[:2000])
            return 0 if coq["ok"] else 1
        exe, log, _ = build([it], os.path.join(C.BUILD, "c18" + _TAG_REPO, "replay"))
        if exe is None:
            print("the template no longer compiles:\n" + log[-3000:])
            return 1
        rs, _, _, _ = evaluate([it], exe, model_exe)
        r = rs[0]
        print("template:", describe(it))
        for v in sorted(r["impl"]):
            o = r["impl"][v]
            print("variant %d:" % v, decode(o) if isinstance(o, list) else o)
        print("model   :", r["mismatch"] or "agrees")
        print("oracle  :", r["oracle"])
        bad = r["oracle"] or r["mismatch"]
        print("RESULT  :", "still failing" if bad else "passes")
        return 1 if bad else 0

    rng = random.Random(seed)
    items = load_corpus()
    n_corpus = len(items)
    items += list(generate(rng, tier))
    exe, log, t_build = build(items)
    if exe is None:
        # a template that no longer compiles: find out which (bisect by building halves is too slow; report the log)
        p = C.write_replay(PID, dict(kind="harness-build", property=PID,
                                     note="the generated templates no longer compile against /repo's working tree "
                                          "(a template the macro used to accept is rejected, or the harness is broken)",
                                     log=log))
        print("VIOLATION property=%s replay=%s no-failing-input-found" % (PID, os.path.relpath(p, C.OUT)))
        finish(tier, seed, t0, coq, [], [(p, "")], [], 0, 0, n_corpus, {})
        return 1
    results, t_impl, t_model, (cases, model_raw) = evaluate(items, exe, model_exe)

    open_known = [k for k in C.load_known() if k["property"] == PID and k["status"] == "open"]
    orc_fail = [r for r in results if r["oracle"]]
    drift = [r for r in results if r["spec_drift"] or r["instance"] is False]
    mism = [r for r in results if r["mismatch"] and not r["oracle"]]
    new_fail = []
    for r in orc_fail:
        fid = classify(r["item"], r["impl"], r["model"])
        k = next((k for k in open_known if k["id"] == fid), None)
        if k is not None:
            if k["id"] not in [x["id"] for x in known_seen]:
                known_seen.append(dict(id=k["id"], what=k["what"], example=describe(r["item"])[:300]))
        else:
            new_fail.append(r)
    for k in known_seen:
        print("KNOWN-FINDING: property=%s %s [%s]" % (PID, k["what"], k["id"]))

    if new_fail:
        r = new_fail[0]
        it = shrink(r["item"], "oracle", model_exe)
        exe1, _, _ = build([it], os.path.join(C.BUILD, "c18" + _TAG_REPO, "replay"))
        rs = evaluate([it], exe1, model_exe)[0] if exe1 else [r]
        p = C.write_replay(PID, dict(kind="property-violation", property=PID, item=it,
                                     original=describe(r["item"]), readable=describe(it),
                                     impl={str(v): (decode(o) if isinstance(o, list) else o) for v, o in rs[0]["impl"].items()},
                                     model=(rs[0]["mismatch"] or ("model agrees with the implementation byte for byte"
                                                                  if it.get("compare", True) else "template outside the Coq model (compared by the oracle only)")),
                                     oracle=rs[0]["oracle"] or r["oracle"],
                                     other_failures=len(new_fail) - 1))
        violations.append((p, ""))
    elif drift:
        r = drift[0]
        p = C.write_replay(PID, dict(kind="model-inconsistent", property=PID, item=r["item"], readable=describe(r["item"]),
                                     note="the Coq denotation differs from the generator's intended tree, or a theorem "
                                          "instance evaluates to false: %s" % (r["spec_drift"] or "parse(view_html) <> denote")))
        violations.append((p, " no-failing-input-found"))
    elif mism:
        r = mism[0]
        it = shrink(r["item"], "mismatch", model_exe)
        exe1, _, _ = build([it], os.path.join(C.BUILD, "c18" + _TAG_REPO, "replay"))
        rs = evaluate([it], exe1, model_exe)[0] if exe1 else [r]
        p = C.write_replay(PID, dict(kind="correspondence-broken", property=PID, item=it, readable=describe(it),
                                     original=describe(r["item"]),
                                     mismatch=rs[0]["mismatch"] or r["mismatch"], oracle=rs[0]["oracle"],
                                     note="model %s and the compiled macro output disagree on this template (and %d "
                                          "others); the theorems of %s therefore no longer speak about /repo; the "
                                          "direct oracle found no template on which the property itself fails"
                                          % (MODEL_NAME, len(mism) - 1, PROPS_V)))
        violations.append((p, " no-failing-input-found"))

    extras = {}
    if tier == "thorough" and not no_coq:
        chk = C.coqchk(PROPS_V)
        extras["coqchk"] = dict(ok=chk["ok"], axioms=chk["axioms"], wall_s=chk["wall_s"])
        if not chk["ok"] or [a for a in chk["axioms"] if a not in ALLOWED_AXIOMS]:
            p = C.write_replay(PID, dict(kind="proof-obligation", property=PID, coqchk=chk,
                                         note="coqchk rejected %s or reported axioms outside the allow-list" % PROPS_V))
            violations.append((p, " no-failing-input-found"))
        pairs = [(c, o) for c, o in zip(cases, [x for pr in model_raw for x in pr if x is not None])][:: max(1, len(cases) // 150)][:150]
        n, bad, vlog = C.vm_crosscheck(PID, RUN_IMPORT, "run_" + PID, [c for c, _ in pairs], [o for _, o in pairs])
        extras["vm_compute_crosscheck"] = dict(cases=n, disagreements=len(bad))
        if bad:
            p = C.write_replay(PID, dict(kind="extraction-crosscheck", property=PID, bad_indices=bad, log=vlog,
                                         note="extracted model and vm_compute evaluation of run_%s disagree" % PID))
            violations.append((p, " no-failing-input-found"))
    extras["build_wall_s"] = round(t_build, 1)
    extras["build_wall_s_by_configuration"] = dict(BUILD_TIMES)

    for p, suffix in violations:
        print("VIOLATION property=%s replay=%s%s" % (PID, os.path.relpath(p, C.OUT), suffix))
    finish(tier, seed, t0, coq, results, violations, known_seen, t_impl, t_model, n_corpus, extras)
    return 1 if violations else 0


def finish(tier, seed, t0, coq, results, violations, known_seen, t_impl, t_model, n_corpus, extras):
    distinct, hist = {}, {}
    inert_used = dyn = cosmetic = 0
    for r in results:
        it = r["item"]
        hist[it.get("kind", "?")] = hist.get(it.get("kind", "?"), 0) + 1
        try:
            if nontrivial(it, r["model"]):
                distinct[C.case_hash(json.dumps(it["tpl"]))] = 1
            m = r["model"][0]
            if isinstance(m, list) and m[0] != m[1]:
                inert_used += 1
            if cosmetic_difference(r["impl"]):
                cosmetic += 1
        except Exception:
            pass
    samples = []
    step = max(1, len(results) // 4) if results else 1
    for r in results[::step][:5]:
        samples.append(dict(template=describe(r["item"])[:400], kind=r["item"].get("kind"),
                            impl={str(v): (decode(o)[:300] if isinstance(o, list) else o) for v, o in r["impl"].items()},
                            model_agrees=not r["mismatch"]))
    compared = [r for r in results if r["item"].get("compare", True)]
    ev = dict(
        property_id=PID, tier=tier, seed=seed, level="proof",
        coverage=dict(
            obligations=coq["obligations"], discharged=coq["discharged"],
            checker_cmd=coq.get("cmd", ""), theorems=coq.get("theorems", []),
            print_assumptions=("all Closed under the global context" if not coq["assumptions"] else coq["assumptions"]),
            proof_problems=coq["problems"],
            trusted_base=list(TRUSTED),
            evaluations=len(results),
            renderings=sum(len(r["impl"]) for r in results),
            distinct_nontrivial=len(distinct),
            rule=RULE,
            traces_validated_against_impl=len(compared),
            correspondence_mismatches=sum(1 for r in results if r["mismatch"]),
            oracle_failures=sum(1 for r in results if r["oracle"]),
            theorem_instances_evaluated=sum(1 for r in compared if r["instance"]),
            templates_taking_the_inert_path=inert_used,
            templates_also_rendered_through_the_streaming_exits=sum(1 for r in results if r["item"].get("streams")),
            templates_also_built_with_erase_components=sum(1 for r in results if r["item"].get("erase_variants")),
            templates_through_include_view=sum(1 for r in results if 3 in r["item"].get("variants", ())),
            class_style_text_differs_between_paths_same_set=cosmetic,
            corpus_cases=n_corpus, case_kinds=hist, samples=samples,
            known_findings_seen=known_seen,
            impl_wall_s=round(t_impl, 2), model_wall_s=round(t_model, 2),
            exhaustive=False, partial=True,
            **extras),
        assumptions=list(ASSUMPTIONS),
        wall_s=round(time.time() - t0, 2),
        violations=len(violations),
    )
    C.write_evidence(PID, ev)
