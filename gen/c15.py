"""C15 — URL, query and parameter decoding is total and happens exactly once."""
from . import common as C

PID = "C15"
PROPS_V = "theories/Props/Properties_C15.v"
MODEL_NAME = "Router/Url.v"
HARNESS = "router"
HARNESS_ARGS = ["c15"]
ALLOWED_AXIOMS = []
READY = True
RUN_IMPORT = "Router.UrlRun"

RULE = ("cases drawn from one PRNG (VERIF_SEED): op0 escape(text), op1 unescape(raw), op2 "
        "RequestUrl::parse('/path?query#frag') with raw escapes (valid, invalid-UTF-8, nested %25xx, "
        "truncated, '+', empty fields), op3 ParamsMap -> to_query_string -> parse, op4 raw route "
        "parameters collected into a ParamsMap, op5/op6 a real nested (/:a/:b) and flat (/u/:id) router server-rendered "
        "for a request path with raw segments, reading use_params_map() in the matched component; a separate malformed stream (arbitrary strings as URL) is "
        "checked for panics only. A case is non-trivial when the model's answer differs from the literal "
        "input text (some decoding/encoding actually happened) ; distinct = distinct case hash.")
TRUSTED = [
    "Coq 8.16.1 kernel (coqc); no axioms: every theorem of Properties_C15.v is 'Closed under the global context'",
    "extraction to OCaml with ExtrOcamlBasic only (no Extract Constant / Extract Inductive of ours), ocamlfind ocamlopt 4.13.1, extract/driver.ml sexp I/O",
    "harness/router (Rust) calling Url::escape/unescape, RequestUrl::parse, ParamsMap::{insert,to_query_string,FromIterator,IntoIterator} of /repo",
    "modelled, not verified: percent_encoding::{utf8_percent_encode(NON_ALPHANUMERIC), percent_decode}, url::Url::parse (only: C0/space trim, tab/newline removal, '#' and '?' splitting of a path-absolute reference), form_urlencoded::parse, String::from_utf8_lossy — each transcribed in Router/Url.v / Base/Bytes.v and compared with the real crates on every case",
    "nested router: op5 server-renders a real <Router>/<ParentRoute path=:a>/<Route path=:b> for /<raw_a>/<raw_b> and reads use_params_map() in the leaf; only this two-level shape is driven, the theorem C15_nested_values_decoded_once covers any number of levels of the model",
]
ASSUMPTIONS = [
    "Rust strings are valid UTF-8 (hypotheses all_bytes/utf8_valid of the round-trip theorems)",
    "a ParamsMap built through its public API has distinct keys and no key with an empty value list (wf_map)",
    "request targets reach RequestUrl::parse as path-absolute references; other shapes are only checked for panics",
]

TEXT_CHARS = ["%", "+", "&", "=", "#", "?", "/", " ", "a", "Z", "4", "1", "2", "5", "F", "f",
              "é", "€", "\U0001F600", "\x00", "\t", "\n", "'", '"', "<", ";", "\\", "~", "-", "."]
HEX = "0123456789ABCDEFabcdef"


def text(rng, maxlen=6):
    n = rng.choice([0, 1, 1, 2, 3, rng.randint(0, maxlen)])
    out = []
    for _ in range(n):
        r = rng.random()
        if r < 0.7:
            out.append(rng.choice(TEXT_CHARS))
        elif r < 0.8:
            out.append("%" + rng.choice(HEX) + rng.choice(HEX))
        else:
            cp = rng.choice([rng.randint(1, 0x7F), rng.randint(0x80, 0x7FF), rng.randint(0x800, 0xD7FF),
                             rng.randint(0xE000, 0xFFFF), rng.randint(0x10000, 0x10FFFF)])
            out.append(chr(cp))
    return "".join(out)


def pct(b):
    return "%%%02X" % b


def raw(rng, maxlen=6, query=False):
    """a still-encoded string: literals, valid / invalid-UTF-8 / nested / truncated escapes"""
    n = rng.choice([0, 1, 2, 3, rng.randint(0, maxlen)])
    out = []
    for _ in range(n):
        r = rng.random()
        if r < 0.25:
            ch = rng.choice("aZ09-._~*" + ("+" if query else "") + "é€")
            out.append(ch)
        elif r < 0.45:
            out.append("".join(pct(b) for b in rng.choice(TEXT_CHARS).encode()))
        elif r < 0.60:
            out.append(pct(rng.randint(0, 255)))                       # arbitrary byte
        elif r < 0.70:
            out.append("%25" + rng.choice(HEX) + rng.choice(HEX))      # encoded escape
        elif r < 0.75:
            out.append("%2525" + rng.choice(HEX) + rng.choice(HEX))
        elif r < 0.85:
            out.append(rng.choice(["%", "%4", "%zz", "%%", "%G1", "%1g", "%e2%82", "%F0%9F%98", "%ED%A0%80", "%C0%AF"]))
        elif r < 0.92:
            out.append("".join(pct(b) for b in chr(rng.choice([0xE9, 0x20AC, 0x1F600, 0xFFFD])).encode()))
        else:
            out.append(rng.choice(["%26", "%3D", "%23", "%2B", "%3F", "%2F", "%00", "%20"]))
    return "".join(out)


def seg(rng):
    """a raw path segment that the URL parser keeps as one segment: non-empty, no '/', '?', '#',
    backslash, tab/newline, and not a (possibly encoded) dot segment"""
    while True:
        s = raw(rng, 5)
        dec = pct_decode(s.encode()).lower()
        if s and dec not in (b".", b"..") and not any(c in s for c in "/\\?#\t\n\r"):
            return s


def gen_url(rng):
    path = "/" + "".join(rng.choice(["a", "b", "/x", "%41", "é", ".", "~", "%2F", ""]) for _ in range(rng.randint(0, 3)))
    if path.startswith("//"):
        path = "/a" + path[1:]
    fields = []
    for _ in range(rng.choice([0, 1, 1, 2, 3, 4])):
        r = rng.random()
        k = rng.choice(["q", "a", "k", "", raw(rng, 3, True)])
        if r < 0.75:
            fields.append(k + "=" + raw(rng, 6, True))
        elif r < 0.85:
            fields.append(k)                        # no '='
        elif r < 0.92:
            fields.append("")                       # '&&'
        else:
            fields.append(k + "=" + raw(rng, 3, True) + "=" + raw(rng, 2, True))
    url = path
    if fields or rng.random() < 0.3:
        url += "?" + "&".join(fields)
    if rng.random() < 0.2:
        url += "#" + rng.choice(["", "frag", "a=b&c", "?x=1"])
    if rng.random() < 0.1:
        url = rng.choice([" ", "\t", "\n", "  "]) + url
    if rng.random() < 0.1:
        url = url + rng.choice([" ", "\t", "\n", "\x00 "])
    if rng.random() < 0.1 and len(url) > 2:
        i = rng.randint(1, len(url) - 1)
        url = url[:i] + rng.choice(["\t", "\n", "\r"]) + url[i:]
    return url


def gen_map(rng):
    m = []
    keys = []
    for _ in range(rng.choice([0, 1, 1, 2, 3])):
        k = rng.choice(["q", "a", "", text(rng, 3), text(rng, 3)])
        if k in keys:
            continue
        keys.append(k)
        m.append([k, [text(rng, 5) for _ in range(rng.choice([1, 1, 2, 3]))]])
    return m


MALFORMED = ["", "?", "#", "//", "///", "//?q=%FF", "http://", "http://[::1", "\\\\x", "a b", "%", "%FF", "/%FF?%FF=%FF",
             "?%25FF=%25FF", "/?q=%25%46%46", "\x00", "//é", "/?a=%ED%A0%80", "foo/bar?x=%2541", "https://x.y/?q=%FF#%FF",
             "mailto:x?y=%FF", "data:,%FF", "/?" + "%FF" * 50, "?&&==&%&%2&%%%", "/\t?\nq=\r%FF", "//[?", "::", "/a?b#c?d=%FF"]


def generate(rng, tier):
    n = 6000 if tier == "quick" else 120000
    for s in MALFORMED:
        yield dict(case=C.norm([2, s]), kind="malformed-url", compare=False)
    for i in range(n):
        r = rng.random()
        if r < 0.12:
            yield dict(case=C.norm([0, text(rng, 8)]), kind="escape")
        elif r < 0.30:
            yield dict(case=C.norm([1, raw(rng, 8)]), kind="unescape")
        elif r < 0.62:
            yield dict(case=C.norm([2, gen_url(rng)]), kind="parse-url")
        elif r < 0.80:
            # third element: 1 = keys inserted as &'static str (Cow::Borrowed), 0 = owned Strings
            yield dict(case=C.norm([3, gen_map(rng), rng.randint(0, 1)]), kind="map-roundtrip")
        elif r < 0.88:
            pairs = [[rng.choice(["id", "x", "y"]), raw(rng, 6)] for _ in range(rng.choice([1, 1, 2, 3]))]
            yield dict(case=C.norm([4, pairs]), kind="route-params")
        elif r < 0.91:
            yield dict(case=C.norm([5, [seg(rng), seg(rng)]]), kind="nested-route-params")
        elif r < 0.94:
            yield dict(case=C.norm([6, seg(rng)]), kind="flat-route-params")
        else:
            s = "".join(rng.choice(TEXT_CHARS + list("/:@[]?#%")) for _ in range(rng.randint(0, 10)))
            yield dict(case=C.norm([2, s]), kind="malformed-url", compare=False)


# ---------------------------------------------------------------- independent reference decoders
def pct_decode(b):
    out = bytearray()
    i = 0
    while i < len(b):
        if b[i] == 0x25 and i + 2 < len(b):
            h = bytes(b[i + 1:i + 3])
            try:
                if len(h) == 2 and all(chr(c) in HEX for c in h):
                    out.append(int(h.decode(), 16))
                    i += 3
                    continue
            except Exception:
                pass
        out.append(b[i])
        i += 1
    return bytes(out)


def lossy(b):
    return list(b.decode("utf-8", "replace").encode("utf-8"))


def ref_query(url_bytes):
    s = bytes(url_bytes)
    s = s.strip(bytes(range(0, 33)))
    s = bytes(c for c in s if c not in (9, 10, 13))
    s = s.split(b"#", 1)[0]
    if b"?" not in s:
        return None
    return s.split(b"?", 1)[1]


def ref_form(q):
    out = []
    for seq in q.split(b"&"):
        if not seq:
            continue
        if b"=" in seq:
            k, v = seq.split(b"=", 1)
        else:
            k, v = seq, b""
        out.append((lossy(pct_decode(k.replace(b"+", b" "))), lossy(pct_decode(v.replace(b"+", b" ")))))
    return out


def ref_group(pairs):
    m = []
    for k, v in pairs:
        for e in m:
            if e[0] == k:
                e[1].append(v)
                break
        else:
            m.append([k, [v]])
    return m


def oracle(item, impl):
    case = item["case"]
    op, arg = case[0], case[1]
    if isinstance(impl, str):
        if impl.startswith("!panic"):
            return "panic while decoding: " + impl
        return "harness error: " + impl
    if op == 0:
        # the property asks for unescape(escape(s)) == s; which characters get escaped is not
        # constrained here (the query-string round trip, op 3, is what needs '+', '&', '=' … escaped)
        if list(pct_decode(bytes(impl))) != arg:
            return "escape() output does not percent-decode to the input"
        return None
    if op == 1:
        want = lossy(pct_decode(bytes(arg)))
        return None if impl == want else "unescape() is not one percent-decoding of its input"
    if op == 2:
        if item.get("kind") == "malformed-url":
            return None  # Ok or Err are both fine; only a panic is a failure
        if impl and impl[0] == -1:
            return "structured URL rejected: " + C.show_bytes(impl[1])
        q = ref_query(arg)
        want = ref_group(ref_form(q)) if q is not None else []
        return None if impl == want else "search_params differ from decoding each query component exactly once"
    if op == 3:
        if impl and impl[0] in (-1, -2):
            return "could not build / re-parse the map: %r" % (impl,)
        return None if impl[1] == arg else "to_query_string() + parse is not the identity on this map"
    if op == 6:
        if impl and impl[0] == -3:
            return "flat route did not render exactly one matched view: %r" % (impl,)
        return None if impl == [[[105, 100], [lossy(pct_decode(bytes(arg)))]]] else \
            "flat route parameter is not the once-decoded raw segment"
    if op == 5:
        if impl and impl[0] == -3:
            return "nested route did not render exactly one leaf: %r" % (impl,)
        # every value the application can read for a / b must be the once-decoded segment
        # (the parent match also carries the child's params, so b may be listed more than once)
        want = {(97,): lossy(pct_decode(bytes(arg[0]))), (98,): lossy(pct_decode(bytes(arg[1])))}
        got = {tuple(k): vs for k, vs in impl}
        ok = set(got) == set(want) and all(vs and all(v == want[k] for v in vs) for k, vs in got.items())
        return None if ok else "nested route parameter is not the once-decoded raw segment"
    if op == 4:
        want = ref_group([(k, lossy(pct_decode(bytes(v)))) for k, v in arg])
        return None if impl == want else "route parameter is not the once-decoded raw segment"
    return None


def nontrivial(item, model):
    case = item["case"]
    if item.get("kind") == "malformed-url":
        return False
    flat_in = C.sx(case[1])
    return C.sx(model) != flat_in and 37 in _flat(case[1])


def _flat(v):
    if isinstance(v, int):
        return [v]
    out = []
    for x in v:
        out += _flat(x)
    return out


def describe(it):
    case = it["case"]
    op = case[0]
    names = {0: "escape", 1: "unescape", 2: "RequestUrl::parse", 3: "map->query->parse", 4: "collect raw params",
             5: "nested router /:a/:b use_params_map", 6: "flat router /u/:id use_params_map"}
    a = case[1]
    if op in (0, 1, 2, 6):
        return "%s(%r)" % (names[op], C.show_bytes(a))
    if op == 5:
        return "%s(/%s/%s)" % (names[op], C.show_bytes(a[0]), C.show_bytes(a[1]))
    if op == 3:
        return "%s(%r)" % (names[op], [(C.show_bytes(k), [C.show_bytes(v) for v in vs]) for k, vs in a])
    return "%s(%r)" % (names.get(op), [(C.show_bytes(k), C.show_bytes(v)) for k, v in a])

LEVEL_TEXT = ("Coq proofs, for all byte strings / all well-formed parameter maps, that unescape∘escape is the identity, "
              "that to_query_string followed by the server's URL parse returns the same map, and that query, flat-route and "
              "nested-route parameters are decoded exactly once — about an executable Gallina transcription of Url::escape/"
              "unescape, RequestUrl::parse's query handling, form_urlencoded::parse, from_utf8_lossy and ParamsMap; tied to "
              "/repo by running that model (extracted) and the real functions on the same thousands of generated URLs, raw "
              "strings and maps every run, plus an independent Python RFC 3986/form-urlencoded decoder as oracle. Totality "
              "(no panic) is checked on a separate malformed-URL stream under catch_unwind.")
LEVEL_NOTE = ("Trusted: Coq kernel, ExtrOcamlBasic extraction + OCaml driver, the Rust harness; modelled not verified: "
              "percent_encoding, url::Url::parse (path-absolute subset), form_urlencoded, from_utf8_lossy; the nested "
              "router's params memo is modelled but not exercised by the harness. No axioms.")
TECHNIQUE = "Coq proof (induction over byte strings and maps) + differential correspondence of the extracted model with the Rust code"


def _utf8(b):
    try:
        bytes(b).decode("utf-8")
        return True
    except Exception:
        return False


def _seg_ok(b):
    s = bytes(b)
    # no C0 control / space either: the URL parser trims them at the ends and drops tab/newline
    return (len(s) > 0 and _utf8(s) and pct_decode(s).lower() not in (b".", b"..")
            and not any(c in s for c in b"/\\?#") and all(c > 0x20 and c != 0x7F for c in s))


def valid_case(item):
    """preconditions of the generator that the shrinker has to preserve"""
    case = item["case"]
    try:
        op, arg = case[0], case[1]
        if item.get("kind") == "malformed-url":
            return _utf8(arg)
        if op in (0, 1):
            return _utf8(arg)
        if op == 2:
            s = bytes(arg).strip(bytes(range(0, 33)))
            return _utf8(arg) and s[:1] == b"/" and s[1:2] not in (b"/", b"\\")
        if op == 3:
            if len(case) > 2 and case[2] not in (0, 1):
                return False
            keys = [tuple(k) for k, vs in arg]
            return (len(set(keys)) == len(keys) and all(len(vs) > 0 for k, vs in arg)
                    and all(_utf8(k) and all(_utf8(v) for v in vs) for k, vs in arg))
        if op == 4:
            return all(_utf8(k) and _utf8(v) for k, v in arg)
        if op == 5:
            return len(arg) == 2 and _seg_ok(arg[0]) and _seg_ok(arg[1])
        if op == 6:
            return _seg_ok(arg)
    except Exception:
        return False
    return False
