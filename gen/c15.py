"""C15 — URL, query and parameter decoding is total and happens exactly once."""
from . import common as C

PID = "C15"
PROPS_V = "theories/Props/Properties_C15.v"
MODEL_NAME = "Router/Url.v"
HARNESS = "router"
HARNESS_ARGS = ["c15"]
ALLOWED_AXIOMS = []
READY = True
RUN_IMPORT = "Router.UrlRun"

RULE = ("cases drawn from one PRNG (VERIF_SEED): op0 escape(text), op1 unescape / unescape_minimal(raw), op2 "
        "RequestUrl::parse / parse_with_base('/path?query#frag') with raw escapes (valid, invalid-UTF-8, nested %25xx, "
        "truncated, '+', empty fields; also 255-300 byte inputs), op7 the same request as the integrations hand it over "
        "('http://leptos' + path-and-query: leptos_actix, 'http://leptos.dev' + ..: leptos_axum), op3 ParamsMap (String / &'static str keys, new / with_capacity) -> "
        "to_query_string -> parse, op4 raw route parameters collected with FromIterator (owned / Cow::Borrowed keys), "
        "op8 a map driven through insert / replace / remove sequences, then written and parsed back; "
        "op5/op6 a real nested (<Routes>, 1-3 levels of static / param / optional / wildcard segments, the same name at "
        "several levels) or flat (<FlatRoutes>) router server-rendered through .to_html(), the in-order stream or the "
        "out-of-order stream for a request built from raw segments plus a raw query, reading use_params_map() at EVERY "
        "level and use_query_map / use_location().query / use_params::<T> / use_query::<T> / query_signal in the leaf; "
        "every map is observed through IntoIterator AND through get / get_str / get_all. A separate malformed stream "
        "(arbitrary strings as URL) is checked for panics only. A case is non-trivial when the model's answer differs "
        "from the literal input text (some decoding/encoding actually happened) ; distinct = distinct case hash.")
TRUSTED = [
    "Coq 8.16.1 kernel (coqc); no axioms: every theorem of Properties_C15.v is 'Closed under the global context'",
    "extraction to OCaml with ExtrOcamlBasic only (no Extract Constant / Extract Inductive of ours), ocamlfind ocamlopt 4.13.1, extract/driver.ml sexp I/O",
    "harness/router (Rust) calling Url::escape/unescape, RequestUrl::parse, ParamsMap::{insert,to_query_string,FromIterator,IntoIterator} of /repo",
    "modelled, not verified: percent_encoding::{utf8_percent_encode(NON_ALPHANUMERIC), percent_decode}, url::Url::parse (only: C0/space trim, tab/newline removal, '#' and '?' splitting of a path-absolute reference), form_urlencoded::parse, String::from_utf8_lossy — each transcribed in Router/Url.v / Base/Bytes.v and compared with the real crates on every case",
    "routers: ops 5/6 server-render a real <Router> + <Routes>/<FlatRoutes> whose route definitions are built from the case (NestedRoute::new(..).child(..), erased with into_any_nested_route) through all three SSR entry points; the model (Url.level_maps) is params_including_parents over the captured raw segments, theorem C15_nested_values_decoded_once covers any number of levels",
    "compared, not proved: op7 (that url::Url::parse treats 'http://leptos' + p like p as far as the query goes), the typed readers (Params::from_map / IntoParam for Option<String>), use_query_map / use_location().query / query_signal (the model prints get_str of the parsed query for them)",
]
ASSUMPTIONS = [
    "Rust strings are valid UTF-8 (hypotheses all_bytes/utf8_valid of the round-trip theorems)",
    "a ParamsMap built through its public API has distinct keys and no key with an empty value list (wf_map)",
    "request targets reach RequestUrl::parse as path-absolute references (RequestUrl's own tests, hand-written integrations) or as 'http://leptos' / 'http://leptos.dev' + the request's path-and-query (leptos_actix / leptos_axum); other shapes are only checked for panics",
]

TEXT_CHARS = ["%", "+", "&", "=", "#", "?", "/", " ", "a", "Z", "4", "1", "2", "5", "F", "f",
              "é", "€", "\U0001F600", "\x00", "\t", "\n", "'", '"', "<", ";", "\\", "~", "-", "."]
HEX = "0123456789ABCDEFabcdef"


def text(rng, maxlen=6):
    n = rng.choice([0, 1, 1, 2, 3, rng.randint(0, maxlen)])
    out = []
    for _ in range(n):
        r = rng.random()
        if r < 0.7:
            out.append(rng.choice(TEXT_CHARS))
        elif r < 0.8:
            out.append("%" + rng.choice(HEX) + rng.choice(HEX))
        else:
            cp = rng.choice([rng.randint(1, 0x7F), rng.randint(0x80, 0x7FF), rng.randint(0x800, 0xD7FF),
                             rng.randint(0xE000, 0xFFFF), rng.randint(0x10000, 0x10FFFF)])
            out.append(chr(cp))
    return "".join(out)


def pct(b):
    return "%%%02X" % b


def raw(rng, maxlen=6, query=False):
    """a still-encoded string: literals, valid / invalid-UTF-8 / nested / truncated escapes"""
    n = rng.choice([0, 1, 2, 3, rng.randint(0, maxlen)])
    out = []
    for _ in range(n):
        r = rng.random()
        if r < 0.25:
            ch = rng.choice("aZ09-._~*" + ("+" if query else "") + "é€")
            out.append(ch)
        elif r < 0.45:
            out.append("".join(pct(b) for b in rng.choice(TEXT_CHARS).encode()))
        elif r < 0.60:
            out.append(pct(rng.randint(0, 255)))                       # arbitrary byte
        elif r < 0.70:
            out.append("%25" + rng.choice(HEX) + rng.choice(HEX))      # encoded escape
        elif r < 0.75:
            out.append("%2525" + rng.choice(HEX) + rng.choice(HEX))
        elif r < 0.85:
            out.append(rng.choice(["%", "%4", "%zz", "%%", "%G1", "%1g", "%e2%82", "%F0%9F%98", "%ED%A0%80", "%C0%AF"]))
        elif r < 0.92:
            out.append("".join(pct(b) for b in chr(rng.choice([0xE9, 0x20AC, 0x1F600, 0xFFFD])).encode()))
        else:
            out.append(rng.choice(["%26", "%3D", "%23", "%2B", "%3F", "%2F", "%00", "%20"]))
    return "".join(out)


def seg(rng):
    """a raw path segment that the URL parser keeps as one segment: non-empty, no '/', '?', '#',
    backslash, tab/newline, and not a (possibly encoded) dot segment"""
    while True:
        s = raw(rng, 5)
        dec = pct_decode(s.encode()).lower()
        if s and dec not in (b".", b"..") and not any(c in s for c in "/\\?#\t\n\r"):
            return s


def query_fields(rng):
    fields = []
    for _ in range(rng.choice([0, 1, 1, 2, 3, 4])):
        r = rng.random()
        k = rng.choice(["q", "a", "k", "", raw(rng, 3, True)])
        if r < 0.75:
            fields.append(k + "=" + raw(rng, 6, True))
        elif r < 0.85:
            fields.append(k)                        # no '='
        elif r < 0.92:
            fields.append("")                       # '&&'
        else:
            fields.append(k + "=" + raw(rng, 3, True) + "=" + raw(rng, 2, True))
    return fields


def gen_url(rng, plain=False):
    """plain: as a server hands it over (no surrounding / embedded whitespace)"""
    path = "/" + "".join(rng.choice(["a", "b", "/x", "%41", "é", ".", "~", "%2F", ""]) for _ in range(rng.randint(0, 3)))
    if path.startswith("//"):
        path = "/a" + path[1:]
    fields = query_fields(rng)
    url = path
    if fields or rng.random() < 0.3:
        url += "?" + "&".join(fields)
    if rng.random() < 0.2:
        url += "#" + rng.choice(["", "frag", "a=b&c", "?x=1"])
    if plain:
        return url
    if rng.random() < 0.1:
        url = rng.choice([" ", "\t", "\n", "  "]) + url
    if rng.random() < 0.1:
        url = url + rng.choice([" ", "\t", "\n", "\x00 "])
    if rng.random() < 0.1 and len(url) > 2:
        i = rng.randint(1, len(url) - 1)
        url = url[:i] + rng.choice(["\t", "\n", "\r"]) + url[i:]
    return url


def long_raw(rng):
    """255..300 bytes: runs of escapes, nested escapes and literals around the 2^8 boundary"""
    target = rng.choice([255, 256, 257, 300])
    out = ""
    while len(out.encode()) < target:
        out += raw(rng, 8, True) or "%25"
    b = out.encode()[:target]
    return b.decode("utf-8", "ignore")


def gen_map(rng):
    m = []
    keys = []
    for _ in range(rng.choice([0, 1, 1, 2, 3])):
        k = rng.choice(["q", "a", "", text(rng, 3), text(rng, 3)])
        if k in keys:
            continue
        keys.append(k)
        m.append([k, [text(rng, 5) for _ in range(rng.choice([1, 1, 2, 3]))]])
    return m


PNAMES = ["a", "b", "c", "id"]
STATIC_TEXTS = ["s", "u", "", "x.y", "~t", "S-1_"]


def wild(rng):
    if rng.random() < 0.2:
        return ""
    return "/".join(seg(rng) for _ in range(rng.choice([1, 2, 2, 3])))


def gen_level(rng, leaf):
    segs = []
    for _ in range(rng.choice([1, 1, 2, 3])):
        if rng.random() < 0.3:
            segs.append([0, rng.choice(STATIC_TEXTS)])
        else:
            segs.append([1, rng.choice(PNAMES), seg(rng)])
    if leaf:
        r = rng.random()
        if r < 0.2:
            segs.append([3, rng.choice(PNAMES), wild(rng)])
        elif r < 0.4:
            segs.append([2, rng.choice(PNAMES), [seg(rng)] if rng.random() < 0.6 else []])
    return segs


def gen_router_case(rng, flat):
    n = 1 if flat else rng.choice([1, 2, 2, 2, 3, 3])
    chain = [gen_level(rng, i == n - 1) for i in range(n)]
    q = [] if rng.random() < 0.4 else ["&".join(query_fields(rng))]
    return [6 if flat else 5, rng.randint(0, 2), chain, q]


def gen_steps(rng):
    """insert / replace / remove over few keys and few values, so that a key is hit repeatedly
    and a value is written again over itself (also as another spelling: %41 / A)"""
    keys = ["q", "a", "", text(rng, 3)][:rng.choice([1, 2, 4])]
    pool = [raw(rng, 6) for _ in range(rng.choice([1, 2, 3]))] + rng.choice([[], ["A", "%41"]])
    steps = []
    for _ in range(rng.randint(1, 8)):
        r = rng.random()
        k = rng.choice(keys)
        v = rng.choice(pool) if rng.random() < 0.7 else raw(rng, 6)
        if r < 0.5:
            steps.append([0, k, v])
        elif r < 0.8:
            steps.append([1, k, v])
        else:
            steps.append([2, k])
    return steps


MALFORMED = ["", "?", "#", "//", "///", "//?q=%FF", "http://", "http://[::1", "\\\\x", "a b", "%", "%FF", "/%FF?%FF=%FF",
             "?%25FF=%25FF", "/?q=%25%46%46", "\x00", "//é", "/?a=%ED%A0%80", "foo/bar?x=%2541", "https://x.y/?q=%FF#%FF",
             "mailto:x?y=%FF", "data:,%FF", "/?" + "%FF" * 50, "?&&==&%&%2&%%%", "/\t?\nq=\r%FF", "//[?", "::", "/a?b#c?d=%FF"]


def generate(rng, tier):
    n = 6000 if tier == "quick" else 120000
    for s in MALFORMED:
        for b in (0, 1, 2):
            yield dict(case=C.norm([2, s] + ([b] if b else [])), kind="malformed-url", compare=False)
    for i in range(n):
        r = rng.random()
        if r < 0.10:
            t = text(rng, 8) if rng.random() < 0.95 else long_raw(rng)
            yield dict(case=C.norm([0, t]), kind="escape")
        elif r < 0.25:
            t = raw(rng, 8) if rng.random() < 0.95 else long_raw(rng)
            yield dict(case=C.norm([1, t] + ([1] if rng.random() < 0.3 else [])), kind="unescape")
        elif r < 0.47:
            b = rng.choice([0, 0, 0, 1, 2])
            u = gen_url(rng) if rng.random() < 0.97 else "/?q=" + long_raw(rng)
            yield dict(case=C.norm([2, u] + ([b] if b else [])), kind="parse-url")
        elif r < 0.57:
            u = gen_url(rng, plain=True) if rng.random() < 0.97 else "/p?" + long_raw(rng)
            if rng.random() < 0.1:
                u = "/" + u              # "//x": a path here, not an authority, behind the absolute prefix
            yield dict(case=C.norm([7, u] + rng.choice([[], [1]])), kind="parse-url-integrations")
        elif r < 0.70:
            # third element: bit 0 = keys inserted as &'static str (Cow::Borrowed) instead of owned Strings,
            # bit 1 = ParamsMap::with_capacity
            yield dict(case=C.norm([3, gen_map(rng), rng.randint(0, 3)]), kind="map-roundtrip")
        elif r < 0.77:
            pairs = [[rng.choice(["id", "x", "y"]), raw(rng, 6)] for _ in range(rng.choice([1, 1, 2, 3]))]
            yield dict(case=C.norm([4, pairs, rng.randint(0, 1)]), kind="route-params")
        elif r < 0.84:
            yield dict(case=C.norm([8, gen_steps(rng)]), kind="map-edit")
        elif r < 0.90:
            yield dict(case=C.norm(gen_router_case(rng, False)), kind="nested-route-params")
        elif r < 0.94:
            yield dict(case=C.norm(gen_router_case(rng, True)), kind="flat-route-params")
        else:
            s = "".join(rng.choice(TEXT_CHARS + list("/:@[]?#%")) for _ in range(rng.randint(0, 10)))
            yield dict(case=C.norm([2, s] + rng.choice([[], [], [1], [2]])), kind="malformed-url", compare=False)


# ---------------------------------------------------------------- independent reference decoders
def pct_decode(b):
    out = bytearray()
    i = 0
    while i < len(b):
        if b[i] == 0x25 and i + 2 < len(b):
            h = bytes(b[i + 1:i + 3])
            try:
                if len(h) == 2 and all(chr(c) in HEX for c in h):
                    out.append(int(h.decode(), 16))
                    i += 3
                    continue
            except Exception:
                pass
        out.append(b[i])
        i += 1
    return bytes(out)


def lossy(b):
    return list(b.decode("utf-8", "replace").encode("utf-8"))


def ref_query(url_bytes):
    s = bytes(url_bytes)
    s = s.strip(bytes(range(0, 33)))
    s = bytes(c for c in s if c not in (9, 10, 13))
    s = s.split(b"#", 1)[0]
    if b"?" not in s:
        return None
    return s.split(b"?", 1)[1]


def ref_form(q):
    out = []
    for seq in q.split(b"&"):
        if not seq:
            continue
        if b"=" in seq:
            k, v = seq.split(b"=", 1)
        else:
            k, v = seq, b""
        out.append((lossy(pct_decode(k.replace(b"+", b" "))), lossy(pct_decode(v.replace(b"+", b" ")))))
    return out


def ref_group(pairs):
    m = []
    for k, v in pairs:
        for e in m:
            if e[0] == k:
                e[1].append(v)
                break
        else:
            m.append([k, [v]])
    return m


def plain(m):
    """the (key, values) part of a map observation"""
    return [[e[0], e[1]] for e in m]


def reads_msg(m):
    """the reading API agrees with the contents: get_all(k) = every value of k, in order;
    get(k) = get_str(k) = one of them (upstream: the most recently added)"""
    for e in m:
        k, vs, r = e
        if r[0] != [vs]:
            return "get_all(%r) does not return the values of the key" % C.show_bytes(k)
        if r[1] != r[2]:
            return "get(%r) and get_str(%r) differ" % (C.show_bytes(k), C.show_bytes(k))
        if not r[1] or r[1][0] not in vs:
            return "get(%r) is not one of the values of the key" % C.show_bytes(k)
    return None


def want_query(arg):
    q = ref_query(arg)
    return ref_group(ref_form(q)) if q is not None else []


def chain_names(chain, upto=None):
    """name -> decoded raw segments bound to it, for the levels [0, upto)"""
    out = {}
    for level in chain[:upto]:
        for sg in level:
            if sg[0] in (1, 3):
                out.setdefault(tuple(sg[1]), []).append(lossy(pct_decode(bytes(sg[2]))))
            elif sg[0] == 2 and sg[2]:
                out.setdefault(tuple(sg[1]), []).append(lossy(pct_decode(bytes(sg[2][0]))))
    return out


def typed_msg(got, names, m, what):
    """a typed reader (Params::from_map): Some(v) with v one of the values iff the key exists"""
    if got == [-1]:
        return "%s failed on String fields" % what
    vals = {tuple(k): vs for k, vs in m}
    for n, g in zip(names, got):
        vs = vals.get(tuple(n.encode()))
        if (vs is None) != (g == []):
            return "%s: field %r present/absent wrongly" % (what, n)
        if g and g[0] not in vs:
            return "%s: field %r is not the once-decoded value" % (what, n)
    return None


def router_oracle(case, impl):
    chain, q = case[2], case[3]
    if impl and impl[0] == -3:
        return "the router did not render exactly one view per matched level: %r" % (impl[:2],)
    levels, leaf = impl
    allv = chain_names(chain)
    if len(levels) != len(chain):
        return "one params map per level expected"
    for i, m in enumerate(levels):
        got = {tuple(k): vs for k, vs in plain(m)}
        if len(got) != len(m):
            return "a key occurs twice in the params map"
        need = set(chain_names(chain, i + 1)) if i + 1 < len(levels) else set(allv)
        if not (need <= set(got) <= set(allv)):
            return "level %d: the params map does not have the names bound by the matched routes" % i
        for k, vs in got.items():
            if not vs or any(v not in allv[k] for v in vs):
                return "level %d: a route parameter is not the once-decoded raw segment" % i
            if i + 1 == len(levels) and any(w not in vs for w in allv[k]):
                return "leaf: a captured segment is missing from the values of its name"
        msg = reads_msg(m)
        if msg:
            return "level %d: %s" % (i, msg)
    qmap, locq, tparams, tquery, qsig = leaf
    want = ref_group(ref_form(ref_query(b"/?" + bytes(q[0])) or b"")) if q else []
    for name, m in (("use_query_map", qmap), ("use_location().query", locq)):
        if plain(m) != want:
            return "%s differs from decoding each query component exactly once" % name
        msg = reads_msg(m)
        if msg:
            return "%s: %s" % (name, msg)
    msg = typed_msg(tparams, PNAMES, plain(levels[-1]), "use_params::<T>")
    if msg:
        return msg
    msg = typed_msg(tquery, ["q", "a", "k", ""], want, "use_query::<T>")
    if msg:
        return msg
    return typed_msg([qsig], ["q"], want, "query_signal")


def oracle(item, impl):
    case = item["case"]
    op, arg = case[0], case[1]
    if isinstance(impl, str):
        if impl.startswith("!panic"):
            return "panic while decoding: " + impl
        return "harness error: " + impl
    if op == 0:
        # the property asks for unescape(escape(s)) == s; which characters get escaped is not
        # constrained here (the query-string round trip, op 3, is what needs '+', '&', '=' … escaped)
        if list(pct_decode(bytes(impl))) != arg:
            return "escape() output does not percent-decode to the input"
        return None
    if op == 1:
        want = lossy(pct_decode(bytes(arg)))
        return None if impl == want else "unescape() is not one percent-decoding of its input"
    if op in (2, 7):
        if item.get("kind") == "malformed-url":
            return None  # Ok or Err are both fine; only a panic is a failure
        if impl and impl[0] == -1:
            return "structured URL rejected: " + C.show_bytes(impl[1])
        if plain(impl) != want_query(arg):
            return "search_params differ from decoding each query component exactly once"
        return reads_msg(impl)
    if op == 3:
        if impl and impl[0] == -1:
            return "could not re-parse the written query string: %r" % (impl,)
        qs, back, built = impl
        if plain(built) != arg:
            return "insert(k, escape(v)) did not build the intended map"
        if plain(back) != arg:
            return "to_query_string() + parse is not the identity on this map"
        return reads_msg(built) or reads_msg(back)
    if op in (5, 6):
        return router_oracle(case, impl)
    if op == 4:
        want = ref_group([(k, lossy(pct_decode(bytes(v)))) for k, v in arg])
        if plain(impl) != want:
            return "route parameter is not the once-decoded raw segment"
        return reads_msg(impl)
    if op == 8:
        removed, m, qs, back = impl
        sim, sim_removed = {}, []
        for st in arg:
            k = tuple(st[1])
            if st[0] == 0:
                sim.setdefault(k, []).append(lossy(pct_decode(bytes(st[2]))))
            elif st[0] == 1:
                sim[k] = [lossy(pct_decode(bytes(st[2])))]
            else:
                sim_removed.append([sim.pop(k)] if k in sim else [])
        if removed != sim_removed:
            return "remove() did not return the values of the removed key"
        got = {tuple(k): vs for k, vs in plain(m)}
        if len(got) != len(m) or got != sim:
            return "insert / replace / remove: the map does not hold the once-decoded values"
        if back and back[0] == -1:
            return "could not re-parse the written query string"
        if plain(back) != plain(m):
            return "to_query_string() + parse is not the identity on the edited map"
        return reads_msg(m) or reads_msg(back)
    return None


def nontrivial(item, model):
    case = item["case"]
    if item.get("kind") == "malformed-url":
        return False
    flat_in = C.sx(case[1])
    return C.sx(model) != flat_in and 37 in _flat(case[1:])


def _flat(v):
    if isinstance(v, int):
        return [v]
    out = []
    for x in v:
        out += _flat(x)
    return out


def seg_show(sg):
    if sg[0] == 0:
        return C.show_bytes(sg[1])
    if sg[0] == 1:
        return ":%s=%s" % (C.show_bytes(sg[1]), C.show_bytes(sg[2]))
    if sg[0] == 2:
        return ":%s?=%s" % (C.show_bytes(sg[1]), C.show_bytes(sg[2][0]) if sg[2] else "<absent>")
    return "*%s=%s" % (C.show_bytes(sg[1]), C.show_bytes(sg[2]))


def describe(it):
    case = it["case"]
    op = case[0]
    names = {0: "escape", 1: "unescape", 2: "RequestUrl::parse", 3: "map->query->parse", 4: "collect raw params",
             5: "nested router", 6: "flat router", 7: "RequestUrl::parse(http://leptos[.dev] + ..)", 8: "map edit"}
    a = case[1]
    if op in (0, 1, 2, 7):
        extra = ""
        if op == 1 and len(case) > 2 and case[2] == 1:
            extra = " [unescape_minimal]"
        if op == 2 and len(case) > 2 and case[2]:
            extra = " [parse_with_base #%d]" % case[2]
        if op == 7:
            extra = " [leptos_axum]" if len(case) > 2 and case[2] == 1 else " [leptos_actix]"
        return "%s(%r)%s" % (names[op], C.show_bytes(a), extra)
    if op in (5, 6):
        mode = ["to_html", "in-order stream", "out-of-order stream"][case[1] & 3]
        return "%s via %s: %s query=%r" % (
            names[op], mode, " > ".join("/".join(seg_show(sg) for sg in lv) for lv in case[2]),
            C.show_bytes(case[3][0]) if case[3] else None)
    if op == 3:
        return "%s(%r) flags=%r" % (names[op], [(C.show_bytes(k), [C.show_bytes(v) for v in vs]) for k, vs in a],
                                    case[2] if len(case) > 2 else 0)
    if op == 8:
        return "%s(%r)" % (names[op], [(["insert", "replace", "remove"][st[0]],) + tuple(C.show_bytes(x) for x in st[1:])
                                       for st in a])
    return "%s(%r)" % (names.get(op), [(C.show_bytes(k), C.show_bytes(v)) for k, v in a])

LEVEL_TEXT = ("Coq proofs, for all byte strings / all well-formed parameter maps, that unescape∘escape is the identity, "
              "that to_query_string followed by the server's URL parse returns the same map, and that query, flat-route and "
              "nested-route parameters are decoded exactly once — about an executable Gallina transcription of Url::escape/"
              "unescape, RequestUrl::parse's query handling, form_urlencoded::parse, from_utf8_lossy and ParamsMap; tied to "
              "/repo by running that model (extracted) and the real functions on the same thousands of generated URLs, raw "
              "strings and maps every run, plus an independent Python RFC 3986/form-urlencoded decoder as oracle. Totality "
              "(no panic) is checked on a separate malformed-URL stream under catch_unwind.")
LEVEL_NOTE = ("Trusted: Coq kernel, ExtrOcamlBasic extraction + OCaml driver, the Rust harness; modelled not verified: "
              "percent_encoding, url::Url::parse (path-absolute subset), form_urlencoded, from_utf8_lossy; the client-side "
              "arms (js_sys) and client navigation (rebuild / hydrate) are outside the check. No axioms.")
TECHNIQUE = "Coq proof (induction over byte strings and maps) + differential correspondence of the extracted model with the Rust code"


def _utf8(b):
    try:
        bytes(b).decode("utf-8")
        return True
    except Exception:
        return False


def _seg_ok(b):
    s = bytes(b)
    # no C0 control / space either: the URL parser trims them at the ends and drops tab/newline
    return (len(s) > 0 and _utf8(s) and pct_decode(s).lower() not in (b".", b"..")
            and not any(c in s for c in b"/\\?#") and all(c > 0x20 and c != 0x7F for c in s))


STATIC_OK = set(b"abcdefghijklmnopqrstuvwxyzABCDEFGHIJKLMNOPQRSTUVWXYZ0123456789.~-_")


def _router_case_ok(case):
    op, flags, chain, q = case
    if flags not in (0, 1, 2) or not (1 <= len(chain) <= (1 if op == 6 else 3)):
        return False
    if not (q == [] or (len(q) == 1 and _utf8(q[0]))):
        return False
    for li, level in enumerate(chain):
        if not level:
            return False
        for si, sg in enumerate(level):
            last = li == len(chain) - 1 and si == len(level) - 1
            k = sg[0]
            if k == 0:
                if not (len(sg) == 2 and all(c in STATIC_OK for c in sg[1]) and bytes(sg[1]) not in (b".", b"..")):
                    return False
                continue
            if not (len(sg) == 3 and sg[1] and _utf8(sg[1]) and 47 not in sg[1]):
                return False
            if k == 1:
                if not _seg_ok(sg[2]):
                    return False
            elif k == 2:
                if not (last and (sg[2] == [] or (len(sg[2]) == 1 and _seg_ok(sg[2][0])))):
                    return False
            elif k == 3:
                if not last:
                    return False
                if sg[2] and not all(_seg_ok(list(p)) for p in bytes(sg[2]).split(b"/")):
                    return False
            else:
                return False
    return True


def valid_case(item):
    """preconditions of the generator that the shrinker has to preserve"""
    case = item["case"]
    try:
        op, arg = case[0], case[1]
        if item.get("kind") == "malformed-url":
            return _utf8(arg) and (len(case) == 2 or case[2] in (1, 2))
        if op in (0, 1):
            return _utf8(arg) and (len(case) == 2 or (op == 1 and case[2] == 1))
        if op == 2:
            s = bytes(arg).strip(bytes(range(0, 33)))
            return (_utf8(arg) and s[:1] == b"/" and s[1:2] not in (b"/", b"\\")
                    and (len(case) == 2 or case[2] in (1, 2)))
        if op == 7:
            return (len(case) == 2 or case[2] == 1) and _utf8(arg) and bytes(arg)[:1] == b"/"
        if op == 3:
            if len(case) > 2 and case[2] not in (0, 1, 2, 3):
                return False
            keys = [tuple(k) for k, vs in arg]
            return (len(set(keys)) == len(keys) and all(len(vs) > 0 for k, vs in arg)
                    and all(_utf8(k) and all(_utf8(v) for v in vs) for k, vs in arg))
        if op == 4:
            return all(_utf8(k) and _utf8(v) for k, v in arg) and (len(case) == 2 or case[2] in (0, 1))
        if op in (5, 6):
            return len(case) == 4 and _router_case_ok(case)
        if op == 8:
            return all((st[0] in (0, 1) and len(st) == 3 and _utf8(st[1]) and _utf8(st[2]))
                       or (st[0] == 2 and len(st) == 2 and _utf8(st[1])) for st in arg)
    except Exception:
        return False
    return False
