"""C07 — streamed HTML equals the fully resolved render for any completion order."""
import itertools
import re

from . import common as C
from . import htmlparse_stream as H

PID = "C07"
PROPS_V = "theories/Props/Properties_C07.v"
MODEL_NAME = "Html/Stream.v"
HARNESS = "stream"
HARNESS_ARGS = ["c07"]
ALLOWED_AXIOMS = []
READY = True
RUN_IMPORT = "Html.StreamRun"

RULE = ("case = (opcode, mode, drive, view tree, futures complete before rendering, schedule). mode: in-order / "
        "out-of-order, the plain or the `_branching` entry point, with or without a nonce. Trees: ~165 hand-written shapes "
        "(text/element siblings on either side of a Suspend, nesting, Suspense-like boundaries, raw push_sync/push_async/"
        "append call patterns, the real leptos ErrorBoundary/Suspense/Transition/Await/Unsuspend, resources read "
        "synchronously or used as views, LocalResources, closures, every container and wrapper of tachys (Vec, Option, "
        "Either*, Result, arrays, StaticVec, Fragment, keyed lists, OwnedView, View, tuples up to arity 26, chained "
        ".child()), every text representation (String, &str, Cow, Arc<str>, Oco, numbers, signals), void elements, "
        "attributes, inner_html, <textarea>/<style> content, spread attributes) plus random trees of 11 families, "
        "all with <= 4 futures and unique text labels; schedules: for the templates every permutation of completions "
        "interleaved with 0..2 polls between completions (all of them in thorough, a seeded sample in quick), random "
        "interleavings for random trees; each in the literal drive (then complete the rest, poll to the end), the executor "
        "drive (poll only after a wake-up) and the executor drive with a new waker for every poll; opcode 1: executor "
        "turns (create / tick / render / poll / complete) under the schedule's control for the leptos components; "
        "opcode 2: the view goes through leptos_integration_utils' from_app (the response pipeline of the integrations). "
        "A case is non-trivial when at least one future is still pending when the view is rendered (so the stream really "
        "has an asynchronous chunk); distinct = distinct case hash.")
TRUSTED = [
    "Coq 8.16.1 kernel (coqc); no axioms: every theorem of Properties_C07.v is 'Closed under the global context'",
    "extraction to OCaml with ExtrOcamlBasic only, ocamlfind ocamlopt, extract/driver.ml sexp I/O",
    "harness/stream (Rust): real tachys views erased with into_any(), futures = futures::channel::oneshot (Shared where a "
    "closure builds its view again), the StreamBuilder polled by hand with a counting std::task::Wake, a harness-owned "
    "deterministic executor; the Suspense-like boundary, the ErrorBoundary-like append wrapper and the raw "
    "push_sync/push_async nodes are harness views that make the same StreamBuilder calls as leptos' SuspenseBoundary / "
    "ErrorBoundary (transcribed, not the leptos components); built with reactive_graph's sandboxed-arenas (as every "
    "integration is)",
    "compared, not proved by induction over their own code: Vec, Option, Either*, Result::Ok, OwnedView, View, arrays, "
    "StaticVec, Fragment, keyed lists, &str/Cow/Arc<str>/Oco/numbers/signals and chained .child() are decoded to the view of "
    "the grammar they render like (StreamRun.view_of) and compared with the real types on every run",
    "judged by the model-independent oracle only (not in the Coq model): the real leptos components (ErrorBoundary, Suspense, "
    "Transition, Await, Unsuspend), closures, resources, LocalResources, void elements, attributes, inner_html, "
    "<textarea>/<style>, add_any_attr, the `_branching` entry points, nonces, the new-waker-per-poll drive, the from_app "
    "pipeline",
    "modelled, not verified: String::find of a marker comment in sync_buf is modelled as search for the marker token "
    "(text is escaped, no other emitted token contains '<!--s-'); html_escape::encode_text (& < > only); u16 overflow "
    "of suspense ids is not modelled; the browser: incremental HTML parsing, <template> inertness, raw-text elements and "
    "the effect of the replacement <script> (Stream.apply_ooo / gen/htmlparse_stream.py re-implement it from reading the "
    "JavaScript)",
]
ASSUMPTIONS = [
    "each future id occurs once in a view (a Rust future is owned by one chunk; views below a closure share it)",
    "futures complete at most once and never fail (oneshot sender kept alive by the harness)",
    "theorems: the task's waker stays valid between polls (every poll of one task uses equivalent wakers); the harness "
    "also drives a new waker per poll (oracle only)",
    "theorems: escape = true everywhere, mark_branches = false, no extra attributes, no nonce (all four are driven and "
    "judged by the oracle, not modelled)",
    "unescaped user text (<style> content, inner_html) does not contain the marker comment '<!--s-' of a pending chunk",
    "a LocalResource is read under a <Suspense>/<Transition> only (outside, leptos_server panics in ssr mode) and not "
    "inside a keyed list (F-C07-i)",
]

# ------------------------------------------------------------------ view constructors
def T(s): return [0, s]
def E(t, c): return [1, t, c]
def Tu(*cs): return [2] + list(cs)
def S(f, c): return [3, f, c]
def B(f, fb, c, some=1): return [4, f, fb, c, some]
def A(c): return [5, c]
def RS(s): return [6, s]
def RA(f, c): return [7, f, c]
def EB(c): return [10, c]                 # real leptos <ErrorBoundary>
def SU(fb, c): return [11, fb, c]         # real leptos <Suspense fallback=fb>
def TR(fb, c): return [12, fb, c]         # real leptos <Transition fallback=fb>
def RES(f, c): return [13, f, c]          # move || res_f.get().map(|_| c): synchronous read of a resource
def LS(f, pre, post, c): return [14, f, pre, post, c]   # Suspend { [local.await;] f.await; [local.await;] c }
def V(*cs): return [8] + list(cs)          # Vec<AnyView>: children, then a <!> end marker
def O(c=None): return [9] if c is None else [9, c]      # Option<AnyView>
def KL(*cs): return [29] + list(cs)       # keyed list (what <For> renders): like Vec
def W(w, c): return [15, w, c]            # transparent wrapper (Either / EitherOfN / Result::Ok / OwnedView / View / [T;1])
def SQ(k, *cs): return [16, k] + list(cs) # [T;N] / StaticVec / Fragment: children, no end marker
def TR_(rep, s): return [26, rep, s]      # text node in another representation (&str, Cow, Arc<str>, Oco, numbers)
def EN(t, *cs): return [27, t] + list(cs) # element built by chained .child() calls
def CL(c): return [17, c]                  # move || c   (ReactiveFunction: built again for every call)
def UN(c): return [18, c]                  # leptos Unsuspend::new(move || c)
def RV(f, s): return [19, f, s]            # leptos_server Resource<String> used as a view
def AW(f, bl, c): return [20, f, bl, c]    # leptos <Await future blocking>
def RE(tag, idl, c): return [21, tag, idl, c]   # element with id attribute / raw-text content (RTAGS)
def VO(k): return [22, k]                  # void element (VOIDS)
def IH(s): return [23, s]                  # div().inner_html(raw)
def WA(c): return [24, c]                  # c.add_any_attr(data-k="v")  (AnyViewWithAttrs)
def LR(c): return [28, c]                  # move || local.get().map(|_| c): synchronous read of a LocalResource
def SA(f, c): return [25, f, c]            # Suspend::new(async { f.await; span().child(c) }).add_any_attr(data-j="v")
RTAGS = ["div", "textarea", "style", "span"]
RAW_TAGS = (1, 2)                          # children rendered with escape = false
VOIDS = ["br", "input", "hr"]
NEVER = -1                                # "future" of a LocalResource: never completes on the server
def Cm(f): return [0, f]
P = [1]
LEPTOS_KINDS = {10, 11, 12, 13, 14, 17, 18, 19, 20, 28}   # spawn tasks / need an executor: oracle only
UNMODELLED = LEPTOS_KINDS | {21, 22, 23, 24, 25}      # tachys views outside the Coq grammar: oracle only
TICK, CREATE, RENDER = [2], [3], [4]      # extra schedule events of opcode 1 (executor turns under control)
TAGS = ["div", "p", "span", "b"]
WRAPS = ["Either::Left", "Either::Right", "EitherOf3::B", "Ok", "OwnedView::new", "into_view", "EitherOf4::D", "[_; 1]"]
REPS = ["&'static str", "Cow::Borrowed", "Cow::Owned", "Arc<str>", "Oco::Borrowed", "Oco::Owned", "Oco::Counted", "u32", "i64",
        "ArcRwSignal", "RwSignal"]
TUPLE_ARITIES = (0, 1, 2, 3, 4, 5, 6, 7, 8, 12, 16, 25, 26)


def futures_of(v):
    k = v[0]
    if k in (0, 6, 26, 22, 23):
        return []
    if k in (8, 9, 15, 16, 27, 17, 18, 21, 24, 28, 29):
        return [f for c in children(v) for f in futures_of(c)]
    if k == 19:
        return [v[1]]
    if k in (20, 25):
        return [v[1]] + futures_of(children(v)[0])
    if k == 1:
        return futures_of(v[2])
    if k == 5:
        return futures_of(v[1])
    if k == 2:
        return [f for c in v[1:] for f in futures_of(c)]
    if k in (3, 7, 13):
        return [v[1]] + futures_of(v[2])
    if k == 14:
        return [v[1]] + futures_of(v[4])
    if k == 4:
        return [v[1]] + futures_of(v[2]) + futures_of(v[3])
    if k == 10:
        return futures_of(v[1])
    if k in (11, 12):
        return futures_of(v[1]) + futures_of(v[2])
    raise ValueError(v)


def kinds_in(v, acc=None):
    acc = set() if acc is None else acc
    acc.add(v[0])
    for c in children(v):
        kinds_in(c, acc)
    return acc


def children(v):
    k = v[0]
    if k in (0, 6, 26, 19, 22, 23):
        return []
    if k in (17, 18, 24, 28):
        return [v[1]]
    if k in (20, 21):
        return [v[3]]
    if k == 25:
        return [v[2]]
    if k in (8, 9, 29):
        return v[1:]
    if k == 15:
        return [v[2]]
    if k in (16, 27):
        return v[2:]
    if k == 1:
        return [v[2]]
    if k == 5:
        return [v[1]]
    if k == 2:
        return v[1:]
    if k in (3, 7, 13):
        return [v[2]]
    if k == 14:
        return [v[4]]
    if k == 4:
        return [v[2], v[3]]
    if k == 10:
        return [v[1]]
    if k in (11, 12):
        return [v[1], v[2]]
    raise ValueError(v)


def norm_tree(v, in_susp=False):
    """the view as the oracle reads it: a Resource used as a view is a Suspend around its text,
    <Await> is <Suspense fallback=()> around a Suspend, the typed Suspend with an attribute is a
    Suspend around a span carrying it, and a Suspend that reads a LocalResource outside any
    <Suspense> gives up: it resolves to None, which renders like ()"""
    k = v[0]
    if k == 19:
        return [3, v[1], [0, v[2]]]
    if k == 20:
        return [11, [2], [3, v[1], norm_tree(v[3], True)]]
    if k == 25:
        return [3, v[1], [24, [1, 2, norm_tree(v[2], False)], "data-j"]]
    if k == 14 and not in_susp:
        return [3, v[1], [2] if (v[2] or v[3]) else norm_tree(v[4], False)]
    if k in (0, 6, 26, 22, 23):
        return v
    if k in (11, 12):
        return [k, norm_tree(v[1], False), norm_tree(v[2], True)] + v[3:]
    if k in (3, 7):
        return [k, v[1], norm_tree(v[2], False)]
    kids = children(v)
    n = len(kids)
    head = v[:len(v) - n] if k != 4 else None
    if k == 4:
        return [4, v[1], norm_tree(v[2], in_susp), norm_tree(v[3], in_susp), v[4]]
    if k in (20, 21):
        return v[:3] + [norm_tree(v[3], in_susp)]
    if k == 14:
        return v[:4] + [norm_tree(v[4], in_susp)]
    if k == 24:
        return [24, norm_tree(v[1], in_susp)] + v[2:]
    return head + [norm_tree(c, in_susp) for c in kids]


def raw_async_under_ooo(v, inside=False):
    """push_async used inside the content of an out-of-order chunk (no real view does that)"""
    k = v[0]
    if k == 7 and inside:
        return True
    if k in (3, 7):
        return raw_async_under_ooo(v[2], True)
    if k == 4:
        return raw_async_under_ooo(v[2], inside) or raw_async_under_ooo(v[3], True)
    return any(raw_async_under_ooo(c, inside) for c in children(v))


def show_view(v):
    k = v[0]
    s = lambda b: C.show_bytes(b) if isinstance(b, list) else b
    if k == 0:
        return repr(s(v[1]))
    if k == 1:
        return "<%s>%s</%s>" % (TAGS[v[1] % 4], show_view(v[2]), TAGS[v[1] % 4])
    if k == 2:
        return "(" + ", ".join(show_view(c) for c in v[1:]) + ")"
    if k == 3:
        return "Suspend(f%d -> %s)" % (v[1], show_view(v[2]))
    if k == 4:
        return "Boundary(f%d%s, fallback=%s, %s)" % (v[1], "" if v[4] else " yields None", show_view(v[2]), show_view(v[3]))
    if k == 5:
        return "Append(%s)" % show_view(v[1])
    if k == 6:
        return "push_sync(%r)" % s(v[1])
    if k == 7:
        return "push_async(f%d -> %s)" % (v[1], show_view(v[2]))
    if k == 10:
        return "<ErrorBoundary>%s</ErrorBoundary>" % show_view(v[1])
    if k in (11, 12):
        n = "Suspense" if k == 11 else "Transition"
        if len(v) > 3 and v[3]:
            if k == 11:
                return "<Suspense>%s</Suspense>" % show_view(v[2])
            return "<Transition fallback=%s set_pending>%s</Transition>" % (show_view(v[1]), show_view(v[2]))
        return "<%s fallback=%s>%s</%s>" % (n, show_view(v[1]), show_view(v[2]), n)
    if k == 17:
        return "{move || %s}" % show_view(v[1])
    if k == 18:
        return "Unsuspend(%s)" % show_view(v[1])
    if k == 28:
        return "{move || local.get().map(|_| %s)}" % show_view(v[1])
    if k == 19:
        return "Resource(f%d -> %r)" % (v[1], s(v[2]))
    if k == 20:
        return "<Await future=f%d%s>%s</Await>" % (v[1], " blocking" if v[2] else "", show_view(v[3]))
    if k == 21:
        t = RTAGS[v[1] % 4]
        return "<%s%s>%s</%s>" % (t, ' id="%s"' % s(v[2]) if v[2] else "", show_view(v[3]), t)
    if k == 22:
        return "<%s>" % VOIDS[v[1] % 3]
    if k == 23:
        return "<div inner_html=%r/>" % s(v[1])
    if k == 24:
        return "%s.add_any_attr(data-k)" % show_view(v[1])
    if k == 25:
        return "Suspend(f%d -> <span>%s</span>).add_any_attr(data-j)" % (v[1], show_view(v[2]))
    if k == 13:
        return "{move || res%d.get().map(|_| %s)}" % (v[1], show_view(v[2]))
    if k == 14:
        return "Suspend(%sf%d.await; %s-> %s)" % ("local.await; " if v[2] else "", v[1],
                                                   "local.await; " if v[3] else "", show_view(v[4]))
    if k in (8, 29):
        return ("vec![" if k == 8 else "keyed[") + ", ".join(show_view(c) for c in v[1:]) + "]"
    if k == 9:
        return "Some(%s)" % show_view(v[1]) if len(v) > 1 else "None"
    if k == 15:
        return "%s(%s)" % (WRAPS[v[1] % 8], show_view(v[2]))
    if k == 16:
        return "%s[%s]" % (["array", "StaticVec", "Fragment"][v[1] % 3], ", ".join(show_view(c) for c in v[2:]))
    if k == 26:
        return "%s(%r)" % (REPS[v[1] % 11], s(v[2]))
    if k == 27:
        t = TAGS[v[1] % 4]
        return "%s()%s" % (t, "".join(".child(%s)" % show_view(c) for c in v[2:]))
    return "?"


# ------------------------------------------------------------------ generation
class Lab:
    """unique text labels, none a substring of another"""
    def __init__(self, rng):
        self.n = 0
        self.rng = rng

    def text(self):
        self.n += 1
        r = self.rng.random()
        base = "%s%d_" % (self.rng.choice("abcdxyz"), self.n)
        if r < 0.06:
            return ""
        if r < 0.12:
            return base + self.rng.choice(["<", "&", ">", "<!--s-1-o-->", "</p>"])
        return base

    def number(self, signed):
        """a unique decimal label (fixed width: none is a substring of another)"""
        self.n += 1
        return ("-" if signed and self.rng.random() < 0.4 else "") + "%d" % (7000 + self.n)


# containers / wrappers / text representations of tachys (modelled by desugaring, see StreamRun.view_of)
CONT = {8, 9, 15, 16, 26, 27, 29}
FBOK = CONT | {21, 22, 23, 24}      # besides text / elements / tuples: what a fallback may contain


def gen_raw(rng, lab, fut, depth, allow, in_fallback):
    """content of a <textarea>/<style>: text, tuples, Vec, Option, wrappers, Suspend"""
    opts = [0, 0, 0, 2] if depth <= 0 else [0, 0, 2, 2, 8, 9, 15, 16]
    if fut[0] < fut[1] and 3 in allow:
        opts += [3, 3, 3]
    if 17 in allow and not in_fallback and depth > 0:
        opts += [17]
    k = rng.choice(opts)
    rec = lambda d=depth - 1: gen_raw(rng, lab, fut, d, allow, in_fallback)
    if k == 0:
        t = lab.text()
        return T(t.replace("<!--s-1-o-->", "<!--x-->"))
    if k == 2:
        return Tu(*[rec() for _ in range(rng.choice([0, 1, 2, 2, 3]))])
    if k == 8:
        return V(*[rec() for _ in range(rng.choice([0, 1, 2]))])
    if k == 9:
        return O() if rng.random() < 0.3 else O(rec())
    if k == 15:
        return W(rng.randrange(8), rec())
    if k == 16:
        return SQ(rng.randrange(3), *[rec() for _ in range(rng.choice([0, 1, 2]))])
    if k == 17:
        return CL(rec())
    f = fut[0]
    fut[0] += 1
    return S(f, rec())


def gen_view(rng, lab, fut, depth, allow, in_fallback=False, in_susp=False, top=True):
    """allow: set of node kinds; fut: [next free future id, limit]; in_susp: directly among the
    children of a <Suspense>/<Transition>; top: no boundary encloses this place at all"""
    leafy = depth <= 0
    opts = [0, 0, 1] if leafy else [0, 1, 1, 2, 2, 2]
    more = fut[0] < fut[1]
    if leafy:
        for ck in (22, 23):
            if ck in allow and rng.random() < 0.3:
                opts += [ck]
    if not leafy or rng.random() < 0.5:
        if more:
            if 3 in allow:
                opts += [3, 3, 3]
            if 4 in allow and not in_fallback:
                opts += [4, 4]
            if 7 in allow and not in_fallback:
                opts += [7]
        if 5 in allow and not in_fallback:
            opts += [5]
        if 6 in allow and not in_fallback:
            opts += [6]
        if 10 in allow and not in_fallback:
            opts += [10]
        if 11 in allow and not in_fallback:
            opts += [11, 11]
        if 12 in allow and not in_fallback:
            opts += [12]
        if 13 in allow and in_susp and not in_fallback and more:
            opts += [13, 13, 13]
        if 14 in allow and in_susp and not in_fallback and more:
            opts += [14, 14]
        if 28 in allow and in_susp and not in_fallback:
            opts += [28]
        for ck in (8, 9, 15, 16, 27, 29, 21, 21, 22, 23, 24):
            if ck in allow:
                opts += [ck]
        if not in_fallback:
            for ck in (17, 17, 18):
                if ck in allow:
                    opts += [ck]
            if more:
                for ck in (19, 20, 25):
                    if ck in allow:
                        opts += [ck]
    k = rng.choice(opts)
    rec = lambda d=depth - 1, al=allow, fb=in_fallback, su=in_susp, tp=top: gen_view(rng, lab, fut, d, al, fb, su, tp)
    simple = lambda: gen_view(rng, lab, fut, min(depth - 1, 1), {0, 1, 2} | (allow & FBOK), True, False, False)
    def newf():
        f = fut[0]
        fut[0] += 1
        return f
    if k == 0:
        if 26 in allow and rng.random() < 0.2:
            rep = rng.randrange(11)
            return TR_(rep, lab.number(rep == 8) if rep in (7, 8) else lab.text())
        return T(lab.text())
    if k in (8, 16, 27, 29):
        n = rng.choice([0, 1, 2, 2, 3]) if k in (8, 29) else rng.choice([0, 1, 2, 3, 4]) if k == 16 else rng.choice([2, 2, 3, 4])
        # (a keyed list hides LocalResource reads from its <Suspense> as well — F-C07-i; only the
        # resource reads are generated there)
        cs = [rec(depth - 1, allow - {14, 28} if k == 29 else allow) for _ in range(n)]
        return V(*cs) if k == 8 else KL(*cs) if k == 29 else SQ(rng.randrange(3), *cs) if k == 16 else EN(rng.randrange(4), *cs)
    if k == 9:
        return O() if rng.random() < 0.3 else O(rec())
    if k == 15:
        return W(rng.randrange(8), rec())
    if k == 17:
        return CL(rec())
    if k == 18:
        return UN(simple())
    if k == 28:
        return LR(simple())
    if k == 19:
        return RV(newf(), lab.text())
    if k == 20:
        f = newf()
        return AW(f, rng.randrange(2), simple())
    if k == 21:
        tag = rng.choice([0, 3, 1, 1, 2, 2])
        idl = "" if rng.random() < 0.4 else "i%d_" % lab.n
        if tag in RAW_TAGS:
            return RE(tag, idl, gen_raw(rng, lab, fut, min(depth - 1, 2), allow, in_fallback))
        return RE(tag, idl, rec())
    if k == 22:
        return VO(rng.randrange(3))
    if k == 23:
        lab.n += 1
        return IH("" if rng.random() < 0.2 else "<i>h%d_</i>" % lab.n)
    if k == 24:
        return WA(rec(depth - 1, allow & (SIMPLE | {3, 4, 11, 12, 13, 17, 25})))
    if k == 25:
        f = newf()
        return SA(f, simple())
    if k == 1:
        return E(rng.randrange(4), rec())
    if k == 2:
        n = rng.choice([0, 1, 2, 2, 3, 3, 4])
        if 27 in allow and rng.random() < 0.03:
            # the macro-generated tuple impls up to the largest one
            n = rng.choice([5, 6, 7, 8, 12, 16, 25, 26])
            return Tu(*[rec(0) for _ in range(n)])
        return Tu(*[rec() for _ in range(n)])
    if k == 3:
        f = newf()
        return S(f, rec(depth - 1, allow, in_fallback, False))
    if k == 13:
        f = newf()
        return RES(f, simple())
    if k == 14:
        f = newf()
        pre, post = rng.choice([(1, 0), (0, 1), (0, 1), (1, 1), (0, 0)])
        return LS(f, pre, post, simple())
    if k == 4:
        f = newf()
        some = 0 if rng.random() < 0.15 else 1
        # a boundary that yields None keeps its fallback: that fallback has no asynchronous parts
        fb = gen_view(rng, lab, fut, min(depth - 1, 1),
                      (allow & ({0, 1, 2, 3} | FBOK)) if some else ({0, 1, 2} | (allow & FBOK)), True, False, False)
        return B(f, fb, gen_view(rng, lab, fut, depth - 1, allow, False, False, False), some)
    if k == 5:
        return A(gen_view(rng, lab, fut, depth - 1, allow, False, False, top))
    if k == 6:
        lab.n += 1
        return RS("<i>r%d_</i>" % lab.n)
    if k == 7:
        f = newf()
        return RA(f, gen_view(rng, lab, fut, depth - 1, allow, False, False, top))
    if k == 10:
        return EB(rec(depth - 1, allow, False, in_susp))
    if k in (11, 12):
        flag = rng.random() < 0.25
        fb = Tu() if (flag and k == 11) else simple()
        return [k, fb, gen_view(rng, lab, fut, depth - 1, allow, False, True, False)] + ([1] if flag else [])


def templates():
    """hand-written shapes: (name, tree)"""
    t = []
    a, b, c = T("a"), T("b"), T("c")
    p = lambda x: E(1, x)
    d = lambda x: E(0, x)
    # siblings text/element on either side of a Suspend whose content starts/ends in text/element
    for li, left in enumerate([None, T("l"), p(T("l"))]):
        for ri, right in enumerate([None, T("r"), p(T("r"))]):
            for ci, content in enumerate([T("m"), p(T("m")), Tu(T("m"), p(T("n"))), Tu(p(T("m")), T("n")), Tu()]):
                kids = [x for x in (left, S(1, content), right) if x is not None]
                t.append(("sib-%d%d%d" % (li, ri, ci), d(Tu(*kids))))
    t.append(("two", Tu(S(1, p(T("x"))), d(T("m")), S(2, p(T("y"))))))
    t.append(("three", d(Tu(S(1, p(T("x"))), S(2, p(T("y"))), S(3, p(T("z")))))))
    t.append(("four", d(Tu(S(1, p(T("w"))), S(2, p(T("x"))), p(T("m")), S(3, p(T("y"))), S(4, p(T("z")))))))
    t.append(("nest2", d(S(1, Tu(p(T("o")), S(2, p(T("i"))), E(2, T("z")))))))
    t.append(("nest3", d(S(1, Tu(p(T("o")), S(2, Tu(p(T("i")), S(3, E(3, T("k"))))), E(2, T("z")))))))
    t.append(("nest-sib", d(Tu(S(1, d(S(2, p(T("i"))))), S(3, d(S(4, p(T("j")))))))))
    t.append(("bound", d(Tu(p(T("h")), B(1, E(2, T("L1")), E(3, T("C1")))))))
    t.append(("bound-none", d(Tu(p(T("h")), B(1, E(2, T("L1")), E(3, T("C1")), 0)))))
    t.append(("bound-nest", d(B(1, p(T("L1")), Tu(p(T("C1")), B(2, E(2, T("L2")), E(3, T("C2"))), p(T("D1")))))))
    t.append(("bound-sib", d(Tu(B(1, p(T("L1")), p(T("C1"))), B(2, p(T("L2")), p(T("C2"))), B(3, p(T("L3")), p(T("C3")))))))
    t.append(("bound-susp", d(B(1, p(T("L1")), Tu(p(T("C1")), S(2, p(T("i"))))))))
    t.append(("bound-fb-susp", d(B(1, Tu(p(T("L1")), S(2, p(T("i")))), p(T("C1"))))))
    t.append(("append", d(Tu(p(T("h")), A(S(1, p(T("x")))), E(2, T("t"))))))
    t.append(("append-sib", Tu(A(S(1, p(T("x")))), S(2, E(2, T("y"))))))
    # the appended builder starts with an out-of-order chunk and also holds an in-order one (seed C07-10)
    t.append(("append-ooo-async", d(Tu(p(T("h")), A(Tu(B(1, p(T("L1")), p(T("C1"))), S(2, p(T("x"))))), E(2, T("t"))))))
    t.append(("append-ooo-async2", d(Tu(p(T("h")), A(Tu(B(1, p(T("L1")), p(T("C1"))), p(T("m")), S(2, p(T("x"))), B(3, p(T("L3")), p(T("C3"))))), E(2, T("t"))))))
    t.append(("append-text", d(Tu(T("a"), A(p(T("x"))), T("c")))))
    t.append(("raw", Tu(RS("<i>r</i>"), RA(1, Tu(RS("<u>s</u>"), RA(2, RS("<em>t</em>")))), RS("<s>u</s>"))))
    # the real leptos components (oracle only, no model)
    t.append(("l-eb", d(Tu(p(T("h")), EB(S(1, p(T("x")))), E(2, T("t"))))))
    t.append(("l-eb-sib", Tu(EB(S(1, p(T("x")))), S(2, E(2, T("y"))))))
    t.append(("l-eb-ooo-async", d(Tu(p(T("h")), EB(Tu(SU(E(2, T("L1")), S(1, E(3, T("C1")))), S(2, p(T("x"))))), E(2, T("t"))))))
    t.append(("l-susp", d(Tu(p(T("h")), SU(E(2, T("L1")), S(1, E(3, T("C1")))), E(2, T("t"))))))
    t.append(("l-susp2", d(SU(E(2, T("L1")), Tu(S(1, E(3, T("C1"))), p(T("m")), S(2, E(3, T("C2"))))))))
    t.append(("l-susp-nest", d(SU(p(T("L1")), Tu(S(1, p(T("C1"))), SU(E(2, T("L2")), S(2, E(3, T("C2")))))))))
    t.append(("l-susp-sib", d(Tu(SU(p(T("L1")), S(1, p(T("C1")))), SU(p(T("L2")), S(2, p(T("C2")))), SU(p(T("L3")), S(3, p(T("C3"))))))))
    t.append(("l-eb-susp", d(Tu(p(T("h")), EB(SU(E(2, T("L1")), S(1, E(3, T("C1"))))), E(2, T("t"))))))
    t.append(("l-eb-susp-sib", Tu(EB(SU(E(2, T("L1")), S(1, E(3, T("C1"))))), SU(E(2, T("L2")), S(2, E(3, T("C2")))))))
    t.append(("l-susp-susp-in-susp", d(SU(E(2, T("L1")), S(1, Tu(E(3, T("C1")), S(2, p(T("in")))))))))
    t.append(("l-trans", d(Tu(p(T("h")), TR(E(2, T("L1")), S(1, E(3, T("C1")))), E(2, T("t"))))))
    t.append(("l-susp-text", d(Tu(T("a"), SU(T("L1"), S(1, T("C1"))), T("c")))))
    # children that read a resource synchronously (move || res.get())
    t.append(("l-res", d(Tu(E(2, T("x")), SU(E(3, T("L1")), RES(1, E(3, T("C1")))), E(2, T("t"))))))
    t.append(("l-res-trans", d(Tu(E(2, T("x")), TR(E(3, T("L1")), RES(1, E(3, T("C1")))), E(2, T("t"))))))
    t.append(("l-res-susp", d(SU(p(T("L1")), Tu(RES(1, p(T("C1"))), S(2, p(T("C2"))))))))
    t.append(("l-res2", d(SU(p(T("L1")), Tu(RES(1, p(T("C1"))), p(T("m")), RES(2, p(T("C2"))))))))
    t.append(("l-res-sib", d(Tu(SU(p(T("L1")), RES(1, p(T("C1")))), SU(p(T("L2")), RES(2, p(T("C2"))))))))
    t.append(("l-res-nest", d(SU(p(T("L1")), Tu(RES(1, p(T("C1"))), SU(E(2, T("L2")), RES(2, E(3, T("C2")))))))))
    t.append(("l-res-eb", d(Tu(p(T("h")), EB(SU(E(2, T("L1")), RES(1, E(3, T("C1"))))), E(2, T("t"))))))
    # Suspend bodies that read a LocalResource (always pending on the server): the boundary gives
    # up and keeps its fallback — also when the read happens only after another await
    for nm, pre, post in (("first", 1, 0), ("after", 0, 1), ("both", 1, 1), ("none", 0, 0)):
        t.append(("l-local-" + nm, d(Tu(E(2, T("x")), SU(E(3, T("L1")), LS(1, pre, post, E(3, T("C1")))), E(2, T("t"))))))
    t.append(("l-local-trans", d(Tu(E(2, T("x")), TR(E(3, T("L1")), LS(1, 0, 1, E(3, T("C1")))), E(2, T("t"))))))
    t.append(("l-local-two", d(SU(p(T("L1")), Tu(LS(1, 0, 1, p(T("C1"))), p(T("m")), LS(2, 0, 1, p(T("C2"))))))))
    t.append(("l-local-mixed", d(SU(p(T("L1")), Tu(S(1, p(T("C1"))), LS(2, 0, 1, p(T("C2"))))))))
    t.append(("l-local-nest-inner", d(SU(p(T("L1")), Tu(S(1, p(T("C1"))), SU(E(2, T("L2")), LS(2, 0, 1, E(3, T("C2")))))))))
    t.append(("l-local-nest-outer", d(SU(p(T("L1")), Tu(LS(1, 0, 1, p(T("C1"))), SU(E(2, T("L2")), S(2, E(3, T("C2")))))))))
    t.append(("l-local-sib", d(Tu(SU(p(T("L1")), LS(1, 0, 1, p(T("C1")))), SU(p(T("L2")), S(2, p(T("C2"))))))))
    # containers, wrappers and text representations of tachys (modelled by desugaring)
    t.append(("vec", d(V(T("a"), S(1, p(T("x"))), T("c")))))
    t.append(("vec-text", d(Tu(V(T("a"), S(1, T("m"))), T("r")))))
    t.append(("vec-empty", d(Tu(T("l"), V(), S(1, T("m")), V(S(2, T("n"))), T("r")))))
    t.append(("opt", d(Tu(O(S(1, p(T("x")))), O(), T("r"), O(S(2, T("y"))), T("s")))))
    t.append(("keyed", d(Tu(T("l"), KL(T("a"), S(1, p(T("x"))), T("c"), S(2, T("m"))), T("r"), KL()))))
    t.append(("keyed-susp", d(SU(p(T("L1")), Tu(KL(S(1, p(T("C1"))), p(T("k")), CL(S(2, p(T("C2"))))), E(2, T("t")))))))
    t.append(("keyed-res", d(SU(p(T("L1")), KL(p(T("k")), RES(1, p(T("C1"))))))))
    for w in range(8):
        t.append(("wrap-%d" % w, d(Tu(T("l"), W(w, S(1, T("m"))), T("r")))))
    t.append(("wrap-nest", d(W(0, W(3, W(4, Tu(p(T("o")), W(5, S(1, W(2, S(2, p(T("i")))))), E(2, T("z")))))))))
    for k in range(3):
        t.append(("seq-%d" % k, d(Tu(T("l"), SQ(k, S(1, T("m")), T("n")), T("r")))))
        t.append(("seq-empty-%d" % k, d(Tu(T("l"), SQ(k), S(1, T("m")), SQ(k), T("r")))))
    t.append(("seq-bound", d(SQ(1, B(1, p(T("L1")), SQ(2, p(T("C1")), S(2, T("i")))), V(B(3, T("L3"), T("C3")))))))
    t.append(("text-reps", d(Tu(TR_(0, "l"), S(1, TR_(4, "m")), TR_(7, "7001"), S(2, TR_(8, "-7002")), TR_(6, "r")))))
    t.append(("text-reps2", d(Tu(S(1, TR_(1, "K")), TR_(2, ""), TR_(3, "B<"), S(2, TR_(5, "C&")), TR_(0, "")))))
    t.append(("chained", EN(0, T("l"), S(1, T("m")), T("r"))))
    t.append(("chained4", EN(1, S(1, p(T("x"))), T("a"), EN(2, T("b"), S(2, T("y"))), T("c"))))
    big = [T("t%d" % i) if i % 3 else E(i % 4, T("e%d" % i)) for i in range(26)]
    big[4], big[5], big[20] = S(1, T("m")), T("n"), S(2, p(T("x")))
    t.append(("tuple-26", d(Tu(*big))))
    t.append(("tuple-25", d(Tu(*big[:25]))))
    t.append(("tuple-16", Tu(*big[:16])))
    t.append(("tuple-12", Tu(*big[3:15])))
    # closures (called again for dry_resolve / resolve / render), Unsuspend, resources as views, <Await>
    t.append(("cl-bare", d(Tu(T("l"), CL(S(1, p(T("x")))), T("r")))))
    t.append(("cl-bare2", d(Tu(CL(S(1, T("m"))), CL(Tu(T("n"), CL(S(2, T("o"))))), T("r")))))
    t.append(("cl-susp", d(Tu(p(T("h")), SU(E(2, T("L1")), CL(S(1, E(3, T("C1"))))), E(2, T("t"))))))
    t.append(("cl-susp2", d(SU(E(2, T("L1")), Tu(CL(S(1, E(3, T("C1")))), p(T("m")), CL(V(CL(S(2, E(3, T("C2")))))))))))
    t.append(("cl-trans", d(TR(E(2, T("L1")), CL(O(S(1, E(3, T("C1")))))))))
    t.append(("cl-res", d(SU(p(T("L1")), CL(Tu(RES(1, p(T("C1"))), S(2, p(T("C2")))))))))
    t.append(("cl-eb", d(Tu(p(T("h")), EB(CL(SU(E(2, T("L1")), CL(S(1, E(3, T("C1"))))))), E(2, T("t"))))))
    t.append(("unsuspend", d(SU(p(T("L1")), Tu(UN(p(T("U1"))), S(1, p(T("C1"))), UN(T("U2")))))))
    t.append(("unsuspend-bare", d(Tu(T("l"), UN(Tu(T("u"), p(T("v")))), S(1, T("m")), T("r")))))
    t.append(("resview-bare", d(Tu(T("l"), RV(1, "x"), T("r"), RV(2, "y")))))
    t.append(("resview-susp", d(Tu(p(T("h")), SU(E(2, T("L1")), Tu(RV(1, "x"), p(T("m")), RV(2, "y"))), E(2, T("t"))))))
    t.append(("resview-trans", d(TR(E(2, T("L1")), Tu(E(3, RV(1, "x")), S(2, p(T("C2"))))))))
    for bl in (0, 1):
        t.append(("await-%d" % bl, d(Tu(p(T("h")), AW(1, bl, E(3, T("C1"))), E(2, T("t"))))))
    t.append(("await-text", d(Tu(T("a"), AW(1, 0, T("C1")), T("c")))))
    t.append(("await-sib", d(Tu(AW(1, 0, p(T("C1"))), AW(2, 1, p(T("C2"))), SU(p(T("L3")), S(3, p(T("C3"))))))))
    t.append(("await-in-susp", d(SU(p(T("L1")), Tu(S(1, p(T("C1"))), AW(2, 0, E(3, T("C2"))))))))
    t.append(("susp-nofallback", d(Tu(p(T("h")), [11, Tu(), S(1, E(3, T("C1"))), 1], E(2, T("t"))))))
    t.append(("susp-nofallback-text", d(Tu(T("a"), [11, Tu(), S(1, T("C1")), 1], T("c")))))
    t.append(("trans-setpending", d(Tu(p(T("h")), [12, E(2, T("L1")), Tu(S(1, E(3, T("C1"))), RES(2, p(T("C2")))), 1], E(2, T("t"))))))
    # elements: attributes, void elements, inner_html, <textarea>/<style>, spread attributes
    t.append(("el-attr", RE(0, "i1", Tu(T("l"), S(1, RE(3, "i2", T("m"))), VO(0), T("r")))))
    t.append(("el-void", d(Tu(T("l"), VO(0), S(1, Tu(VO(1), T("m"))), VO(2), T("r")))))
    t.append(("el-inner", d(Tu(T("l"), IH("<i>h1_</i>"), S(1, IH("")), T("r")))))
    for tag in RAW_TAGS:
        nm = RTAGS[tag]
        t.append((nm, d(Tu(p(T("h")), RE(tag, "", Tu(T("a<b"), S(1, T("m&n")), T("c>"))), E(2, T("t"))))))
        t.append((nm + "-unit", d(RE(tag, "i1", Tu(Tu(), V(T("v")), O(), S(1, Tu(T("m"), V())), W(0, S(2, T("n"))))))))
        t.append((nm + "-susp", d(SU(p(T("L1")), Tu(RE(tag, "", Tu(T("a<"), S(1, T("m&")))), S(2, p(T("C2"))))))))
        t.append((nm + "-nest", d(RE(tag, "", S(1, Tu(T("o<"), S(2, T("i&")), T("z")))))))
        t.append((nm + "-bound", d(B(1, RE(tag, "", T("L<1")), RE(tag, "", Tu(T("C&1"), S(2, T("i"))))))))
    t.append(("attr-spread", WA(Tu(T("a"), p(T("b")), S(1, Tu(E(2, T("x")), VO(0), T("y"))), SA(2, T("z")), V(E(3, T("w")))))))
    t.append(("attr-spread-nest", d(WA(S(1, WA(Tu(p(T("o")), S(2, E(2, T("i"))), CL(E(3, T("z"))))))))))
    t.append(("attr-suspend", d(Tu(T("l"), SA(1, Tu(T("m"), p(T("n")))), T("r")))))
    t.append(("attr-bound", d(WA(B(1, Tu(p(T("L1")), VO(0)), Tu(E(2, T("C1")), S(2, E(3, T("i")))))))))
    t.append(("attr-susp", d(SU(p(T("L1")), WA(Tu(S(1, p(T("C1"))), E(2, T("m"))))))))
    t.append(("attr-typed", d(Tu(WA(Tu(p(T("a")), S(1, p(T("x"))))), WA(Tu(S(2, E(2, T("y"))), T("t"), VO(0))), WA(V(p(T("v")))), WA(O(E(3, T("o"))))))))
    t.append(("attr-typed-susp", d(Tu(WA(SU(p(T("L1")), S(1, p(T("C1"))))), WA(TR(p(T("L2")), Tu(S(2, p(T("C2"))), E(2, T("m")))))))))
    t.append(("attr-typed-local", d(WA(WA(SU(p(T("L1")), LS(1, 0, 1, p(T("C1")))))))))
    t.append(("local-sync", d(Tu(E(2, T("x")), SU(E(3, T("L1")), Tu(LR(E(3, T("C1"))), S(1, p(T("C2"))))), E(2, T("t"))))))
    t.append(("local-sync-trans", d(TR(E(3, T("L1")), LR(T("C1"))))))
    t.append(("signals", d(Tu(TR_(9, "l"), S(1, TR_(10, "m")), TR_(9, ""), SU(T("L1"), S(2, TR_(10, "C2")))))))
    t.append(("F-C07", Tu(a, S(1, b), c)))
    t.append(("F-C07-before", Tu(S(1, a), b)))
    return t


def schedules(futs, rng, limit):
    """every permutation of the completions, with 0..2 polls before each completion and after the
    last; at most `limit` of them (evenly sampled with rng)"""
    out = []
    n = len(futs)
    for perm in itertools.permutations(futs):
        for polls in itertools.product(range(3), repeat=n + 1):
            s = []
            for i, f in enumerate(perm):
                s += [P] * polls[i] + [Cm(f)]
            s += [P] * polls[n]
            out.append(s)
    if limit is not None and len(out) > limit:
        out = rng.sample(out, limit)
    return out


def tick_schedules(tree, rng, limit):
    """opcode 1: create / tick* / render, then every distinct order of the completions, two
    executor turns and two polls; also 'resource already loaded before the render'"""
    futs = futures_of(tree)
    res = [f for f in futs if f in res_futures(tree)]
    out = []
    pres = [[], [CREATE], [CREATE, TICK]]
    if res:
        pres += [[CREATE] + [Cm(f) for f in res] + [TICK], [CREATE] + [Cm(f) for f in res]]
    for pre in pres:
        done = {e[1] for e in pre if e[0] == 0}
        rest = [Cm(f) for f in futs if f not in done]
        pool = rest + [TICK, TICK, P, P]
        seen = set()
        perms = itertools.permutations(range(len(pool)))
        if len(pool) > 6:
            perms = (rng.sample(range(len(pool)), len(pool)) for _ in range(400))
        for perm in perms:
            seq = tuple(tuple(pool[i]) for i in perm)
            if seq in seen:
                continue
            seen.add(seq)
            out.append(pre + [RENDER] + [list(e) for e in seq])
    if limit is not None and len(out) > limit:
        out = rng.sample(out, limit)
    return out


def res_futures(v, acc=None):
    acc = set() if acc is None else acc
    if v[0] == 13:
        acc.add(v[1])
    for c in children(v):
        res_futures(c, acc)
    return acc


def rand_tick_schedule(rng, tree):
    futs = futures_of(tree)
    res = sorted(res_futures(tree))
    pre = rng.choice([[], [CREATE], [CREATE, TICK], [CREATE] + [Cm(f) for f in res] + [TICK],
                      [CREATE] + [Cm(f) for f in res]])
    done = {e[1] for e in pre if e[0] == 0}
    rest = [f for f in futs if f not in done]
    rng.shuffle(rest)
    if rest and rng.random() < 0.2:
        rest = rest[: rng.randrange(len(rest) + 1)]
    s = []
    for f in rest:
        s += [rng.choice([P, TICK]) for _ in range(rng.choice([0, 0, 1, 1, 2, 3]))]
        s.append(Cm(f))
    s += [rng.choice([P, TICK]) for _ in range(rng.choice([0, 1, 2]))]
    return pre + [RENDER] + s


def rand_pipeline_schedule(rng, futs):
    """opcode 2: completions, polls of the handler / body and executor turns in any order
    (completions first = complete before the app is rendered: it is rendered by the first poll)"""
    fs = list(futs)
    rng.shuffle(fs)
    if fs and rng.random() < 0.25:
        fs = fs[: rng.randrange(len(fs) + 1)]
    s = []
    for f in fs:
        s += [rng.choice([P, P, TICK]) for _ in range(rng.choice([0, 0, 1, 1, 2, 3]))]
        s.append(Cm(f))
    s += [rng.choice([P, TICK]) for _ in range(rng.choice([0, 1, 2]))]
    return s


def rand_schedule(rng, futs):
    fs = list(futs)
    rng.shuffle(fs)
    if fs and rng.random() < 0.2:
        fs = fs[: rng.randrange(len(fs) + 1)]          # leave some for the drain phase
    s = []
    for f in fs:
        s += [P] * rng.choice([0, 0, 1, 1, 2, 3])
        s.append(Cm(f))
    s += [P] * rng.choice([0, 1, 2])
    return s


FAMILIES = [
    ("real", {0, 1, 2, 3}),
    ("boundary", {0, 1, 2, 3, 4}),
    ("api", {0, 1, 2, 3, 4, 5, 6, 7}),
    ("leptos", {0, 1, 2, 3, 10, 11, 12, 13, 14}),
    ("cont", {0, 1, 2, 3} | CONT),
    ("cont-boundary", {0, 1, 2, 3, 4, 5} | CONT),
    ("cont-leptos", {0, 1, 2, 3, 10, 11, 12, 13, 14} | CONT),
    ("closures-leptos", {0, 1, 2, 3, 10, 11, 12, 13, 14, 17, 18, 19, 20, 28} | CONT),
    ("elems", {0, 1, 2, 3, 21, 22, 23, 24, 25} | CONT),
    ("elems-boundary", {0, 1, 2, 3, 4, 5, 21, 22, 23, 24, 25} | CONT),
    ("all-leptos", {0, 1, 2, 3, 10, 11, 12, 13, 14, 17, 18, 19, 20, 21, 22, 23, 24, 25, 28} | CONT),
]


def comparable(tree):
    """is the view in the Coq model (directly or by the desugaring of StreamRun.view_of)?
    The real leptos components are not modelled: oracle only.  An empty [T;0] / StaticVec /
    Fragment renders nothing at all, which no modelled view does: oracle only."""
    if kinds_in(tree) & UNMODELLED:
        return False
    return not has_empty_seq(tree)


def has_empty_seq(v):
    if v[0] == 16 and len(v) == 2:
        return True
    return any(has_empty_seq(c) for c in children(v))


def item(mode, drive, tree, init, sched, kind, op=0):
    """mode: bit 0 out-of-order, bit 1 the `_branching` entry point, bit 2 a nonce is provided;
    drive 2 (new waker for every poll), branching and nonces are not in the model: oracle only"""
    return dict(case=C.norm([op, mode, drive, tree, init, sched]), kind=kind,
                compare=comparable(tree) and mode < 2 and drive != 2 and op == 0)


def res_placement_ok(v, in_susp=False, top=True):
    """a synchronous resource read is only streamed correctly under a <Suspense>/<Transition>
    (and not inside the content of a Suspend, which nobody re-resolves); a Suspend that reads a
    LocalResource: under a boundary, or where no boundary encloses it at all"""
    k = v[0]
    if k in (13, 28):
        return in_susp
    if k == 14:
        # (outside every <Suspense> reading a LocalResource is a usage error: leptos_server panics
        # "Reading from a LocalResource outside Suspense in `ssr` mode" unless the Suspend happens
        # to be still pending at its first poll)
        return in_susp
    if k in (11, 12):
        return res_placement_ok(v[1], False, False) and res_placement_ok(v[2], True, False)
    if k == 20:
        return res_placement_ok(v[3], True, False)
    if k in (3, 7, 25):
        return res_placement_ok(v[2], False, top)
    return all(res_placement_ok(c, in_susp, top) for c in children(v))


SIMPLE = {0, 1, 2, 8, 9, 15, 16, 26, 27, 29, 21, 22, 23, 24}     # views without futures or components
RAW_CHILD = {0, 26, 2, 3, 8, 9, 15, 16, 17}                  # what may stand in a <textarea>/<style>


def raw_children_ok(v, in_raw=False, in_style=False):
    k = v[0]
    if k == 29 and kinds_in(v) & {14, 28}:
        return False      # see gen_view
    if in_raw and k not in RAW_CHILD:
        return False
    if in_style and k in (0, 26) and b"<!--s-" in bytes(v[2] if k == 26 else v[1]):
        return False
    if k == 21:
        t = v[1] % 4
        return raw_children_ok(v[3], in_raw or t in RAW_TAGS, in_style or t == 2)
    return all(raw_children_ok(c, in_raw, in_style) for c in children(v))


def valid_case(it):
    """generator preconditions (the shrinker keeps only candidates satisfying them)"""
    try:
        case = it["case"]
        if len(case) != 6 or case[0] not in (0, 1, 2) or case[1] not in range(8) or case[2] not in (0, 1, 2):
            return False
        if case[1] & 4 and not case[1] & 1:
            return False      # a nonce only matters for the scripts of an out-of-order stream
        if case[1] & 2 and 29 in kinds_in(case[3]):
            return False      # branch markers of a keyed list need tachys' `islands` feature (it panics without)
        tree = case[3]
        if not wf_view(tree, False) or not res_placement_ok(tree) or not raw_children_ok(tree):
            return False
        futs = futures_of(tree)
        if len(futs) != len(set(futs)) or len(futs) > 6:
            return False
        ks = kinds_in(tree)
        if (ks & LEPTOS_KINDS) and (ks & {4, 5, 6, 7}):
            return False      # the harness' call-pattern views do not resolve their children
        if case[0] == 2:
            # the real response pipeline (from_app): any view, oracle only
            if case[2] != 0 or case[4] != [] or it.get("compare", True):
                return False
            for e in case[5]:
                if not (e in ([1], [2]) or (len(e) == 2 and e[0] == 0 and e[1] in futs)):
                    return False
            return True
        if case[0] == 1:
            # executor turns under the schedule's control: leptos components only, oracle only
            if case[2] != 0 or case[4] != [] or not (ks & LEPTOS_KINDS) or it.get("compare", True):
                return False
            for e in case[5]:
                if not (e in ([1], [2], [3], [4]) or (len(e) == 2 and e[0] == 0 and e[1] in futs)):
                    return False
            return True
        if any(f not in futs for f in case[4]):
            return False
        for e in case[5]:
            if not (e == [1] or (len(e) == 2 and e[0] == 0 and e[1] in futs)):
                return False
        return bool(it.get("compare", True)) == (comparable(tree) and case[1] < 2 and case[2] != 2)   # (op 0)
    except Exception:
        return False


def wf_view(v, in_fallback):
    if not isinstance(v, list) or not v or not isinstance(v[0], int):
        return False
    k = v[0]
    if k in (0, 6):
        return len(v) == 2 and _bytes(v[1]) and (k == 0 or not in_fallback)
    if k == 1:
        return len(v) == 3 and isinstance(v[1], int) and 0 <= v[1] < 4 and wf_view(v[2], in_fallback)
    if k == 2:
        return (len(v) - 1) in TUPLE_ARITIES and all(wf_view(c, in_fallback) for c in v[1:])
    if k in (8, 29):
        return all(wf_view(c, in_fallback) for c in v[1:])
    if k == 9:
        return len(v) <= 2 and all(wf_view(c, in_fallback) for c in v[1:])
    if k == 15:
        return len(v) == 3 and v[1] in range(8) and wf_view(v[2], in_fallback)
    if k == 16:
        return len(v) >= 2 and v[1] in (0, 1, 2) and (v[1] != 0 or len(v) <= 6) \
            and all(wf_view(c, in_fallback) for c in v[2:])
    if k == 26:
        if not (len(v) == 3 and v[1] in range(11) and _bytes(v[2])):
            return False
        if v[1] in (7, 8):
            t = bytes(v[2]).decode()
            return bool(re.fullmatch(r"[1-9][0-9]{0,8}" if v[1] == 7 else r"-?[1-9][0-9]{0,8}", t))
        return True
    if k == 27:
        return 4 <= len(v) <= 6 and v[1] in range(4) and all(wf_view(c, in_fallback) for c in v[2:])
    if k == 3:
        return len(v) == 3 and isinstance(v[1], int) and v[1] > 0 and wf_view(v[2], in_fallback)
    if k == 21:
        return len(v) == 4 and v[1] in range(4) and _bytes(v[2]) \
            and re.fullmatch(rb"[a-z0-9_]*", bytes(v[2])) is not None and wf_view(v[3], in_fallback)
    if k == 22:
        return len(v) == 2 and v[1] in range(3)
    if k == 23:
        return len(v) == 2 and _bytes(v[1]) and re.fullmatch(rb"(<i>[a-z0-9_]*</i>)?", bytes(v[1])) is not None
    if k == 24:
        return len(v) == 2 and wf_view(v[1], in_fallback) and not (kinds_in(v[1]) - (SIMPLE | {3, 4, 11, 12, 13, 17, 25}))
    if in_fallback:
        return False
    if k == 17:
        return len(v) == 2 and wf_view(v[1], False)
    if k in (18, 28):
        return len(v) == 2 and wf_view(v[1], True) and not (kinds_in(v[1]) - SIMPLE)
    if k == 19:
        return len(v) == 3 and isinstance(v[1], int) and v[1] > 0 and _bytes(v[2])
    if k == 20:
        return len(v) == 4 and isinstance(v[1], int) and v[1] > 0 and v[2] in (0, 1) \
            and wf_view(v[3], True) and not (kinds_in(v[3]) - SIMPLE)
    if k == 25:
        return len(v) == 3 and isinstance(v[1], int) and v[1] > 0 and wf_view(v[2], True) \
            and not (kinds_in(v[2]) - SIMPLE)
    if k == 4:
        return len(v) == 5 and isinstance(v[1], int) and v[1] > 0 and v[4] in (0, 1) \
            and wf_view(v[2], True) and wf_view(v[3], False) and (v[4] == 1 or not futures_of(v[2]))
    if k in (5, 10):
        return len(v) == 2 and wf_view(v[1], False)
    if k == 7:
        return len(v) == 3 and isinstance(v[1], int) and v[1] > 0 and wf_view(v[2], False)
    if k in (11, 12):
        if len(v) == 4:
            # <Suspense> without a fallback prop (fallback must be ()) / <Transition set_pending>
            if v[3] not in (0, 1) or (k == 11 and v[3] and v[1] != [2]):
                return False
        elif len(v) != 3:
            return False
        return wf_view(v[1], True) and not futures_of(v[1]) and wf_view(v[2], False)
    if k == 13:
        return len(v) == 3 and isinstance(v[1], int) and v[1] > 0 and wf_view(v[2], True) \
            and not futures_of(v[2])
    if k == 14:
        return len(v) == 5 and isinstance(v[1], int) and v[1] > 0 and v[2] in (0, 1) and v[3] in (0, 1) \
            and wf_view(v[4], True) and not futures_of(v[4])
    return False


def _bytes(b):
    return isinstance(b, list) and all(isinstance(x, int) and 0 <= x < 256 for x in b) and _utf8(b)


def _utf8(b):
    try:
        bytes(b).decode("utf-8")
        return True
    except Exception:
        return False


def mode_name(mode):
    return ("ooo" if mode & 1 else "io") + ("-br" if mode & 2 else "") + ("-nonce" if mode & 4 else "")


NONCE_KINDS = {4, 11, 12, 20}        # boundaries whose replacement script gets the nonce


def generate(rng, tier):
    quick = tier == "quick"
    # 1. templates x schedules
    for name, tree in templates():
        futs = futures_of(tree)
        lim = (16 if len(futs) <= 2 else 10) if quick else (None if len(futs) <= 3 else 1500)
        ks = kinds_in(tree)
        for ooo in (0, 1):
            scheds = schedules(futs, rng, lim)
            for s in scheds:
                yield item(ooo, 0, tree, [], s, "tpl-" + ("ooo" if ooo else "io"))
            for perm in itertools.permutations(futs):
                yield item(ooo, 1, tree, [], [Cm(f) for f in perm], "tpl-exec-" + ("ooo" if ooo else "io"))
                # the same completions, every poll with a new waker (only the newest is live)
                yield item(ooo, 2, tree, [], [Cm(f) for f in perm], "tpl-fresh-" + ("ooo" if ooo else "io"))
            for k in range(len(futs)):
                for init in itertools.combinations(futs, k + 1):
                    rest = [f for f in futs if f not in init]
                    yield item(ooo, rng.choice([0, 1]), tree, list(init), rand_schedule(rng, rest),
                               "tpl-init-" + ("ooo" if ooo else "io"))
            if ks & LEPTOS_KINDS:
                # executor turns controlled by the schedule
                for s in tick_schedules(tree, rng, 60 if quick else None):
                    yield item(ooo, 0, tree, [], s, "tpl-ticks-" + ("ooo" if ooo else "io"), op=1)
            # through the response pipeline of the integrations (ExtendResponse::from_app)
            if not (ks & {5, 6, 7}):
                for mode in [ooo] + ([ooo | 4] if ooo and (ks & NONCE_KINDS) and rng.random() < 0.5 else []):
                    for _ in range(3 if quick else 30):
                        yield item(mode, 0, tree, [], rand_pipeline_schedule(rng, futs), "tpl-pipeline-" + mode_name(mode), op=2)
            # the `_branching` entry points, and a nonce for the replacement scripts
            modes = [ooo | 2] + ([ooo | 4, ooo | 6] if ooo and (ks & NONCE_KINDS) else [])
            if 29 in ks:
                modes = [m for m in modes if not m & 2]
            for mode in modes:
                for s in schedules(futs, rng, 3 if quick else 40):
                    yield item(mode, 0, tree, [], s, "tpl-" + mode_name(mode))
                perms = list(itertools.permutations(futs))
                for perm in perms if not quick else rng.sample(perms, min(2, len(perms))):
                    yield item(mode, rng.choice([1, 2]), tree, [], [Cm(f) for f in perm], "tpl-exec-" + mode_name(mode))
    # 2. random trees
    n = 12000 if quick else 130000
    for i in range(n):
        fam, allow = FAMILIES[rng.choice([0, 0, 0, 0, 1, 1, 1, 2, 2, 3, 3, 4, 4, 4, 5, 5, 6, 7, 7, 8, 8, 9, 10, 10])]
        lab = Lab(rng)
        fut = [1, 1 + rng.choice([1, 2, 2, 3, 3, 4, 4])]
        tree = gen_view(rng, lab, fut, rng.choice([2, 3, 3, 4]), allow)
        futs = futures_of(tree)
        ks = kinds_in(tree)
        mode = rng.choice([0, 1])
        if rng.random() < 0.12 and 29 not in ks:
            mode |= 2
        if mode & 1 and (ks & NONCE_KINDS) and rng.random() < 0.15:
            mode |= 4
        init = [f for f in futs if rng.random() < 0.12]
        rest = [f for f in futs if f not in init]
        reps = 1 if not futs else rng.choice([1, 2, 3])
        for _ in range(reps):
            drive = rng.choice([0, 0, 0, 0, 1, 1, 2])
            yield item(mode, drive, tree, init, rand_schedule(rng, rest), "rnd-%s-%s" % (fam, mode_name(mode)))
        if fam.endswith("leptos") and (ks & LEPTOS_KINDS):
            for _ in range(reps):
                yield item(mode, 0, tree, [], rand_tick_schedule(rng, tree), "rnd-ticks-%s" % mode_name(mode), op=1)
        if rng.random() < 0.15 and not (ks & {5, 6, 7}):
            yield item(mode, 0, tree, [], rand_pipeline_schedule(rng, futs), "rnd-pipeline-%s" % mode_name(mode), op=2)


# ------------------------------------------------------------------ oracle
def dec(b):
    return C.bs(b).decode("utf-8", "replace")


def unpack(case):
    """(out-of-order?, drive, view as the oracle reads it, init, schedule)"""
    return case[1] & 1, case[2], norm_tree(case[3]), case[4], [tuple(e) if len(e) > 1 else (1,) for e in case[5]]


def branching(case): return bool(case[1] & 2)
def with_nonce(case): return bool(case[1] & 4)


def completion_order(case):
    """the future completed by each (3 w) entry of the log, in log order"""
    ooo, drive, tree, init, sched = unpack(case)
    futs = futures_of(tree)
    if drive == 0:          # (drive 2 = executor with a new waker for every poll: same order as 1)
        order = [e[1] for e in sched if e[0] == 0]
        done = set(init) | set(order)
        return order + sorted(f for f in set(futs) if f not in done)
    seq = [e[1] for e in sched if e[0] == 0] + sorted(set(futs))
    seen = set(init)
    order = []
    for f in seq:
        if f not in seen:
            seen.add(f)
            order.append(f)
    return order


def html_escape(s):
    return s.replace("&", "&amp;").replace("<", "&lt;").replace(">", "&gt;")


def text_of_node(v):
    t = v[2] if v[0] == 26 else v[1]
    return dec(t) if isinstance(t, list) else t


def py_render(v, flag, dropped=frozenset(), attrs="", esc=True):
    """the document of the fully awaited view, written from the RenderHtml impls of
    &str / HtmlElement / tuples / () / Vec / Option / Suspend / Either … — independent of the Coq
    model.  flag = position is NextChildAfterText.  Returns (html, flag).
    `dropped`: Suspend futures rendered as nothing (used only to recognise findings F-C07-f/g).
    `attrs`: extra attributes on their way to the next elements (add_any_attr).
    `esc`: false inside <textarea>/<style> (no <!> markers, text written as it is)."""
    k = v[0]
    R = lambda c, fl, at=attrs, e=esc: py_render(c, fl, dropped, at, e)
    def seq(cs, fl):
        out = []
        for c in cs:
            h, fl = R(c, fl)
            out.append(h)
        return "".join(out), fl
    unit = ("<!>", False) if esc else ("", flag)
    if k in (0, 26):
        s = text_of_node(v)
        if not esc:
            return s, True
        return ("<!>" if flag else "") + (" " if s == "" else html_escape(s)), True
    if k in (1, 27):
        if k == 1:
            inner = R(v[2], False, "", True)[0]
        else:
            inner, fl = [], False
            for c in v[2:]:
                h, fl = R(c, fl, "", True)
                inner.append(h)
            inner = "".join(inner)
        t = TAGS[v[1] % 4]
        return "<%s%s>%s</%s>" % (t, attrs, inner, t), False
    if k == 21:
        t = RTAGS[v[1] % 4]
        own = ' id="%s"' % text_of_label(v[2]) if v[2] else ""
        if v[1] % 4 in RAW_TAGS:
            inner = R(v[3], False, "", False)[0]
            if v[1] % 4 == 1:
                inner = html_escape(inner)       # a <textarea>'s content is escaped as a whole
        else:
            inner = R(v[3], False, "", True)[0]
        return "<%s%s%s>%s</%s>" % (t, own, attrs, inner, t), False
    if k == 22:
        return "<%s%s>" % (VOIDS[v[1] % 3], attrs), False
    if k == 23:
        return "<div%s>%s</div>" % (attrs, text_of_label(v[1])), False
    if k == 24:
        mine = attrs + ' %s="v"' % (v[2] if len(v) > 2 else "data-k")
        c = v[1]
        if c[0] in (11, 12) and not (len(c) > 3 and c[3]) and reads_local(c[2]):
            # AddAnyAttr for SuspenseBoundary hands the attribute to the children only; what was
            # already on its way (extra_attrs) reaches the fallback as well
            return R(c[1], flag, attrs)
        return R(c, flag, mine)
    if k in (8, 16, 29):
        # Vec / keyed list: the children, then a <!> end marker; arrays / StaticVec / Fragment: just the children
        h, fl = seq(children(v), flag)
        if k in (8, 29) and esc:
            return h + "<!>", False
        return h, fl
    if k == 9:
        # Option: Some(v) is v, None is ()
        return R(v[1], flag) if len(v) > 1 else unit
    if k == 15:
        return R(v[2], flag)
    if k in (17, 18):
        return R(v[1], flag)
    if k == 28:
        return unit           # None on the server (and its <Suspense> keeps the fallback anyway)
    if k == 2:
        if len(v) == 1:
            return unit
        return seq(v[1:], flag)
    if k == 3:
        if v[1] in dropped:
            return "", flag
        return R(v[2], flag)
    if k == 4:
        return R(v[3] if v[4] else v[2], flag)
    if k in (5, 10):
        # ErrorBoundary (no error): its children, and the position they leave (/repo d34c527)
        return R(v[1], flag)
    if k == 7:
        # the raw push_async node renders its content on a copy of the position
        inner, _ = R(v[2], flag)
        return inner, flag
    if k == 6:
        return text_of_node(v), flag
    if k in (11, 12):
        # a boundary that reads a LocalResource can never resolve on the server: it keeps its fallback
        return R(v[1] if reads_local(v[2]) else v[2], flag)
    if k == 13:
        if v[1] in dropped:
            return unit           # read too early: None
        return R(v[2], flag)      # closure -> Option::Some(view): transparent
    if k == 14:
        return R(v[4], flag)      # only reached without a local read
    raise ValueError(v)


def text_of_label(b):
    return dec(b) if isinstance(b, list) else b


def reads_local(v):
    """does a boundary with these children read a LocalResource (in a Suspend it awaits itself)"""
    k = v[0]
    if k == 14:
        return bool(v[2] or v[3])
    if k == 28:
        return True
    if k in (3, 11, 12, 4, 7, 13):
        return False
    return any(reads_local(c) for c in children(v))


def awaited(v):
    """futures a <Suspense> waits for: the Suspends among its children that are not inside
    another Suspend's content or a nested Suspense"""
    k = v[0]
    if k in (3, 13):
        return [v[1]]
    if k == 14:
        return [v[1]] + ([NEVER] if v[2] or v[3] else [])
    if k == 28:
        return [NEVER]
    if k in (11, 12, 4, 7):
        return []
    return [f for c in children(v) for f in awaited(c)]


def label_scopes(v, chain, out, raw=False):
    """for every non-empty Text label: the asynchronous scopes enclosing it —
    ('content', [futures that must all be complete]) / ('fallback', [futures; gone only when all complete]).
    raw: inside a <style> (text is written as it is)"""
    k = v[0]
    if k in (0, 26):
        s = text_of_node(v)
        if s:
            out.append((s if raw else html_escape(s), list(chain)))
    elif k in (3, 7, 13):
        label_scopes(v[2], chain + [("content", [v[1]])], out, raw)
    elif k == 14:
        label_scopes(v[4], chain + [("content", [v[1]] + ([NEVER] if v[2] or v[3] else []))], out, raw)
    elif k == 4:
        label_scopes(v[2], chain + [("fallback", [v[1]])], out, raw)
        if v[4]:
            label_scopes(v[3], chain + [("content", [v[1]])], out, raw)
    elif k in (11, 12):
        aw = awaited(v[2])      # contains NEVER if a LocalResource is read: the children never show
        label_scopes(v[1], chain + [("fallback", aw)], out, raw)
        label_scopes(v[2], chain + [("content", aw)], out, raw)
    elif k == 28:
        label_scopes(v[1], chain + [("content", [NEVER])], out, raw)
    elif k == 21:
        label_scopes(v[3], chain, out, v[1] % 4 == 2)
    else:
        for c in children(v):
            label_scopes(c, chain, out, raw)


def check_timeline(case, events):
    """feeds the chunks to an incrementally parsing document (scripts run when parsed) and checks
    'nothing of a future's content before it completes' / 'a fallback stays while its future is
    pending'.  returns (document, error message or None)"""
    ooo, drive, tree, init, sched = unpack(case)
    labels = []
    label_scopes(tree, [], labels)
    done = set(init)
    order = completion_order(case)
    oi = 0
    doc = H.Doc()
    doc.lenient = case[0] == 2     # the pipeline appends the <script>s that resolve resources
    seen_fallback = {}
    for e in events:
        if e[0] == 3:
            if oi < len(order):
                done.add(order[oi])
            oi += 1
        elif e[0] == 1:
            try:
                doc.feed(dec(e[1]))
            except H.ScriptError as ex:
                return None, "replacement script fails in the browser: %s" % ex
            except ValueError as ex:
                return None, "stream is not well-formed HTML: %s" % ex
            if doc.pending:
                continue
            txt = H.text_of(H.visible(doc.body))
            for lab, chain in labels:
                vis = lab in txt
                blockers = [f for (role, fs) in chain if role == "content" for f in fs if f not in done]
                if vis and blockers:
                    return None, "content %r is in the document before future %d completed" % (lab, blockers[0])
                if chain and chain[-1][0] == "fallback":
                    fs = chain[-1][1]
                    if vis:
                        seen_fallback[lab] = fs
                    elif lab in seen_fallback and any(f not in done for f in fs):
                        return None, "fallback %r disappeared while future %d is still pending" % (
                            lab, [f for f in fs if f not in done][0])
    try:
        doc.finish()
    except ValueError as ex:
        return None, "stream is not well-formed HTML: %s" % ex
    return doc, None


def tree_of(s):
    return H.visible(H.parse(s).body)


def oracle(item, impl):
    case = item["case"]
    if isinstance(impl, str):
        return "harness error / panic: " + impl[:200]
    ooo, drive, tree, init, sched = unpack(case)
    raw_kinds = kinds_in(case[3])
    ref, ref2, events = impl
    if ooo and 7 in kinds_in(tree):
        return None            # push_async in an out-of-order stream: not a call pattern of any view
                               # (model and code are still compared)
    want = py_render(tree, False)[0]
    exp = tree_of(want)
    # ---- the two ways of rendering the fully awaited view with the real code
    if ref and (isinstance(ref[0], list) or ref[0] < 0):
        return "the stream of the already complete view did not end"
    try:
        got_ref = tree_of(dec(ref))
    except (ValueError, H.ScriptError) as ex:
        return "in-order stream of the already complete view is not well-formed HTML (%s): %r" % (ex, dec(ref))
    if got_ref != exp:
        return "in-order document differs from the resolved render (every future complete before rendering): got %r want %r" % (dec(ref), want)
    if ref2:
        if not isinstance(ref2[0], list):
            return "resolve() of the fully completed view did not finish"
        try:
            got_ref2 = tree_of(dec(ref2[0]))
        except (ValueError, H.ScriptError) as ex:
            return "resolve().await.to_html() is not well-formed HTML (%s)" % ex
        if got_ref2 != exp:
            return "resolve().await.to_html() = %r, expected %r" % (dec(ref2[0]), want)
    # ---- termination / stream discipline
    if any(e[0] == 8 for e in events):
        return "lost wake-up: every future is complete, the stream has not ended and its task was not woken"
    if any(e[0] in (9, 10, 11) for e in events):
        return "stream did not end within 64 polls after all futures completed"
    polls = [e for e in events if e[0] in (0, 1, 2)]
    if not polls or polls[-1][0] != 2:
        return "stream did not end with None"
    first_none = next(i for i, e in enumerate(polls) if e[0] == 2)
    if any(e[0] != 2 for e in polls[first_none:]):
        return "stream yielded again after returning None"
    # ---- wake-ups (literal drive; with opcode 1 the executor turns are explicit and the drain
    # phase alternates turns and polls, so only termination is checked there)
    if drive not in (1, 2) and case[0] == 0:
        futs = set(futures_of(tree))
        order = completion_order(case)
        done = set(init)
        oi = 0
        pending_at = None           # [futures incomplete at the Pending, wakes since]
        for e in events:
            if e[0] == 3:
                if oi < len(order):
                    done.add(order[oi])
                oi += 1
                if pending_at is not None:
                    pending_at[1] += e[1]
                    if pending_at[0] <= done and pending_at[1] == 0:
                        return ("lost wake-up: the stream returned Pending, then every future completed and its "
                                "task was never woken")
            elif e[0] == 4:
                if pending_at is not None:
                    pending_at[1] += e[1]
            else:
                pending_at = None
                if e[0] == 0:
                    inc = futs - done
                    if not inc and not (raw_kinds & LEPTOS_KINDS):
                        return "stream returned Pending although every future is complete"
                    pending_at = [inc, 0]
    # ---- the document
    doc, err = check_timeline(case, events)
    if err:
        return err
    got = H.visible(doc.body)
    if branching(case):
        # the `_branching` entry points add <!--bo-ID-->/<!--bc-ID--> comments around every branch:
        # properly nested, and without them the document is the resolved render
        err = H.branch_error(got)
        if err:
            return "branching stream: " + err
        got = H.strip_branch(got)
    if got != exp:
        return "%s document differs from the resolved render: got %r want %r" % (
            "out-of-order (after its scripts)" if ooo else "in-order", render_tree(got), want)
    if ooo:
        ids = [s for s, _ in doc.scripts_run]
        if len(ids) != len(set(ids)):
            return "a replacement chunk was emitted twice (ids %r)" % ids
    if with_nonce(case):
        # under a Content-Security-Policy a replacement script only runs with the response's nonce
        nonce = [dec(e[1]) for e in events if e[0] == 12]
        if len(nonce) != 1:
            return "harness did not log the nonce"
        must = not bare_chunks(tree)
        for (sid, _), attrs in zip(doc.scripts_run, doc.script_attrs):
            if "nonce" in attrs and attrs["nonce"] != nonce[0]:
                return "replacement script of chunk %s carries nonce %r, the response's nonce is %r" % (
                    sid, attrs["nonce"], nonce[0])
            if must and "nonce" not in attrs:
                return "replacement script of chunk %s has no nonce although one was provided (%r)" % (sid, nonce[0])
    return None


def bare_chunks(v, in_susp=False):
    """is there a Suspend that is a chunk of its own (outside every <Suspense>)?  Its replacement
    script has no nonce (upstream TODO in tachys/src/reactive_graph/suspense.rs)"""
    k = v[0]
    if k in (3, 14) and not in_susp:
        return True
    if k in (11, 12):
        return bare_chunks(v[1], False) or bare_chunks(v[2], True)
    if k in (3, 7):
        return bare_chunks(v[2], False)
    return any(bare_chunks(c, in_susp) for c in children(v))


def render_tree(t):
    out = []
    for n in t:
        if n[0] == "text":
            out.append(n[1])
        elif n[0] == "comment":
            out.append("<!--%s-->" % n[1] if n[1] else "<!>")
        else:
            attrs = "".join(' %s="%s"' % kv for kv in (n[3] if len(n) > 3 else ()))
            if n[1] in H.VOID:
                out.append("<%s%s>" % (n[1], attrs))
            else:
                out.append("<%s%s>%s</%s>" % (n[1], attrs, render_tree(n[2]), n[1]))
    return "".join(out)


# ------------------------------------------------------------------ known findings
def end_flag(v, flag, dropped=frozenset()):
    """is the position NextChildAfterText after the resolved render of v entered with `flag`"""
    return py_render(v, flag, dropped)[1]


def pos_free(ooo, v, flag, init, strict, in_suspense=False, dropped=frozenset()):
    """no asynchronous node that may be pending when it is rendered hands back a position whose
    'after text' bit differs from the one its resolved content leaves (mirrors
    StreamProofs.pf for the modelled kinds)"""
    k = v[0]
    rec = lambda c, fl, st, ins=in_suspense: pos_free(ooo, c, fl, init, st, ins, dropped)
    if k in (0, 6, 26, 22, 23):
        return True
    if k == 1:
        return rec(v[2], False, strict)
    if k == 21:
        # inside <textarea>/<style> nothing depends on the position (no <!> markers)
        return v[1] % 4 in RAW_TAGS or rec(v[3], False, strict)
    if k in (9, 15, 17, 18, 24):
        return all(rec(c, flag, strict) for c in children(v))
    if k in (2, 8, 16, 27, 29):
        if k == 27:
            flag = False
        for c in children(v):
            if not rec(c, flag, strict):
                return False
            flag = end_flag(c, flag, dropped)
        return True
    if k in (3, 4):
        content = v[2] if k == 3 else (v[3] if v[4] else v[2])
        if k == 3 and v[1] in dropped:
            return True
        if k == 3 and in_suspense:
            return rec(content, flag, strict)      # never a chunk of its own
        if not strict and v[1] in init:
            return rec(content, flag, strict)
        handed = flag if ooo else False
        return end_flag(content, flag, dropped) == handed and rec(content, flag, True)
    if k in (5, 10):
        return rec(v[1], flag, strict)
    if k == 13:
        return rec(v[2], flag, strict)
    if k == 14:
        return rec(v[4], flag, strict)
    if k == 7:
        return rec(v[2], flag, True)
    if k in (11, 12):
        handed = flag if ooo else False
        shown = v[1] if reads_local(v[2]) else v[2]
        return end_flag(shown, flag, dropped) == handed and rec(shown, flag, True, True)
    return True


def nested_suspends(v, in_suspense=False, in_suspend=False, out=None):
    """Suspends inside the content of a Suspend inside a <Suspense>: nobody awaits them"""
    out = [] if out is None else out
    k = v[0]
    if k == 3:
        if in_suspense and in_suspend:
            out.append(v[1])
        nested_suspends(v[2], in_suspense, in_suspense, out)
    elif k in (11, 12):
        nested_suspends(v[2], True, False, out)
    else:
        for c in children(v):
            nested_suspends(c, in_suspense, in_suspend, out)
    return out


def classify(item, impl, model):
    try:
        return _classify(item, impl, model)
    except (ValueError, H.ScriptError):
        return None


def _classify(item, impl, model):
    case = item["case"]
    if isinstance(impl, str):
        return None
    ooo, drive, tree, init, sched = unpack(case)
    msg = oracle(item, impl)
    if not msg:
        return None
    ref, ref2, events = impl
    # F-C07-g: out-of-order stream, a pending Suspend that is a chunk of its own inside a
    # <textarea>/<style>: the placeholder comments cannot exist there
    rawp = raw_text_chunks(tree)
    if ooo and rawp and "every future complete before rendering" not in msg:
        if "replacement script fails" in msg and "marker comment not found" in msg:
            return "F-C07-g"
        if "document differs" in msg:
            doc, err = check_timeline(case, events)
            if not err:
                got = H.visible(doc.body)
                if branching(case):
                    got = H.strip_branch(got)
                want = tree_of(py_render(tree, False)[0])
                if H.strip_markers(blank_raw(got)) == H.strip_markers(blank_raw(want)):
                    return "F-C07-g"
    # F-C07-i: a resource read synchronously inside an item of a keyed list under <Suspense> is not
    # registered (Keyed::dry_resolve is empty): the boundary resolves before the resource has loaded
    kres = keyed_reads(tree)
    if kres and "every future complete before rendering" not in msg:
        m = re.search(r"before future (\d+) completed|while future (\d+) is still pending", msg)
        if m and int(m.group(1) or m.group(2)) in kres:
            return "F-C07-i"
        if "document differs" in msg:
            doc, err = check_timeline(case, events)
            if not err:
                got = H.visible(doc.body)
                for r in range(1, len(kres) + 1):
                    for sub in itertools.combinations(kres, r):
                        want = tree_of(py_render(tree, False, frozenset(sub))[0])
                        if H.strip_markers(got) == H.strip_markers(want):
                            return "F-C07-i"
    if "document differs" not in msg:
        return None
    if "every future complete before rendering" in msg:
        # only the leptos components are pending although every future is complete
        if not (kinds_in(case[3]) & LEPTOS_KINDS):
            return None
        got = tree_of(dec(ref))
        init = futures_of(tree)
        ooo = 0                      # the reference stream is always in-order
    else:
        doc, err = check_timeline(case, events)
        if err:
            return None
        got = H.visible(doc.body)
        if branching(case):
            got = H.strip_branch(got)
    # F-C07-f: exactly the content of some un-awaited nested Suspends is missing;
    # F-C07-a: a pending asynchronous node handed back a stale position, and the documents differ
    # only in <!> separators next to text.  (Both can occur in one case.)
    # (F-C07-i, reads inside a keyed list that rendered None, can occur together with both.)
    ns = nested_suspends(tree)
    cand = ns + [f for f in kres if f not in ns] if "every future complete before rendering" not in msg else ns
    for r in range(0, len(cand) + 1):
        for sub in itertools.combinations(cand, r):
            name = "F-C07-f" if any(f in ns for f in sub) else "F-C07-i"
            sub = frozenset(sub)
            want = tree_of(py_render(tree, False, sub)[0])
            if r > 0 and got == want:
                return name
            stale = not pos_free(ooo, tree, False, set(init), False, False, sub)
            if stale and H.strip_markers(got) == H.strip_markers(want):
                return name if r > 0 else "F-C07-a"
    return None


def raw_text_chunks(v, in_susp=False, in_raw=False, out=None):
    """futures of the Suspends that are chunks of their own inside a <textarea>/<style>"""
    out = [] if out is None else out
    k = v[0]
    if k == 3 and in_raw and not in_susp:
        out.append(v[1])
    if k in (11, 12):
        raw_text_chunks(v[1], False, in_raw, out)
        raw_text_chunks(v[2], True, in_raw, out)
    elif k == 21:
        raw_text_chunks(v[3], in_susp, in_raw or v[1] % 4 in RAW_TAGS, out)
    else:
        for c in children(v):
            raw_text_chunks(c, in_susp, in_raw, out)
    return out


def keyed_reads(v, in_susp=False, in_keyed=False, out=None):
    """futures of the resources read synchronously inside a keyed list among the children of a <Suspense>"""
    out = [] if out is None else out
    k = v[0]
    if k == 13 and in_susp and in_keyed:
        out.append(v[1])
    if k in (11, 12):
        keyed_reads(v[1], False, False, out)
        keyed_reads(v[2], True, False, out)
    elif k in (3, 7):
        keyed_reads(v[2], False, False, out)
    else:
        for c in children(v):
            keyed_reads(c, in_susp, in_keyed or k == 29, out)
    return out


def blank_raw(tree):
    """canonical tree with the content of every <textarea>/<style> removed"""
    out = []
    for n in tree:
        if n[0] == "el":
            n = ("el", n[1], [] if n[1] in ("textarea", "style") else blank_raw(n[2])) + tuple(n[3:])
        out.append(n)
    return out


def nontrivial(item, model):
    case = item["case"]
    ooo, drive, tree, init, sched = unpack(case)
    return bool(set(futures_of(tree)) - set(init))


def describe(it):
    case = it["case"]
    ooo, drive, tree, init, sched = unpack(case)
    names = {1: "poll", 2: "tick", 3: "create-resources", 4: "render"}
    ev = " ".join("done(f%d)" % e[1] if e[0] == 0 else names.get(e[0], "?") for e in case[5])
    return "%s stream, %s, view %s, complete before render %r, schedule: %s" % (
        ("out-of-order" if ooo else "in-order") + (" branching" if branching(case) else "")
        + (" with a nonce" if with_nonce(case) else ""),
        "response pipeline (from_app), executor turns in the schedule" if case[0] == 2 else
        "executor turns in the schedule" if case[0] == 1 else
        ("executor drive" if drive == 1 else "executor drive, new waker for every poll" if drive == 2 else "literal drive"),
        show_view(case[3]), init, ev)


def coverage_extra(results):
    futs = {}
    shapes = set()
    for r in results:
        case = r["item"]["case"]
        n = len(futures_of(case[3]))
        futs[n] = futs.get(n, 0) + 1
        shapes.add(C.sx(case[3]))
    return dict(cases_by_number_of_futures=futs, distinct_trees=len(shapes),
                leptos_component_cases_oracle_only=sum(1 for r in results if not r["item"].get("compare", True)))


LEVEL_TEXT = ("Coq proofs about an executable Gallina transcription of tachys' StreamBuilder (push_*/append/finish/"
              "take_chunks, poll_next with its pending / pending_ooo / in-place-splice / template branches) and of the "
              "streaming renderers of text, elements, tuples, Suspend, a Suspense-like boundary and ErrorBoundary-like append: "
              "for ALL views and ALL schedules of completions and polls — no lost wake-up (a Pending poll leaves the waker "
              "with an incomplete future owned by the stream; a wake-driven executor never stalls), termination within "
              "4|v|+4 polls once all futures are complete, and, outside the decidable class of finding F-C07-a (refuted by "
              "witness inside it), in-order chunks concatenate to the resolved render and the out-of-order stream after its "
              "replacement scripts (modelled by their effect on the document) is the resolved render, with exactly one fallback "
              "region per unresolved chunk at every moment; for every well-formed view the scripts always find their markers "
              "and leave no marker behind (suspense ids are unique: antichain invariant). Tied to /repo by running the extracted "
              "model and the real code (real tachys views and StreamBuilder, oneshot-controlled futures, hand-polled stream, "
              "counting waker) on the same thousands of trees x schedules every run, plus a model-independent oracle that parses "
              "the streamed bytes like a browser (incremental parse, inert <template>, re-implemented replacement script), "
              "also applied to the real leptos Suspense/Transition/ErrorBoundary/Await/Unsuspend components, closures, resources, "
              "element variants (void, attributes, inner_html, <textarea>/<style>), spread attributes, the _branching entry "
              "points, nonces and the integrations' from_app pipeline; tachys' containers, wrappers and text representations "
              "are compared with the model through a decoding to the view grammar.")
LEVEL_NOTE = ("Trusted: Coq kernel, ExtrOcamlBasic extraction + OCaml driver, the Rust harness (its Suspense-like boundary and "
              "append wrapper transcribe leptos' call patterns), the browser semantics encoded in Stream.apply_ooo / "
              "gen/htmlparse_stream.py; String::find of a marker is modelled as a token search. Compared with the model through "
              "a decoding to the grammar (not proved over their own code): tachys' containers, wrappers and text "
              "representations. Judged by the oracle only (not modelled): the real leptos components, closures, resources, "
              "element variants (void, attributes, inner_html, <textarea>/<style>), spread attributes, the _branching entry "
              "points, nonces, a new waker per poll, the from_app response pipeline. No axioms. coverage/C07.md lists every "
              "entry point of the anchor files with what drives and judges it.")
TECHNIQUE = ("Coq proof (invariants of the poll_next state machine, induction over views and schedules) + differential "
             "correspondence of the extracted model with the Rust code")
