"""C14 — the router matches exactly the paths its route table declares."""
import itertools

from . import common as C

PID = "C14"
PROPS_V = "theories/Props/Properties_C14.v"
MODEL_NAME = "Router/Match.v"
HARNESS = "router"
HARNESS_ARGS = ["c14"]
ALLOWED_AXIOMS = []
RUN_IMPORT = "Router.MatchRun"
READY = True
SHRINK_PREFIX = 1

RULE = ("one case = (base?, route table, path). Route tables: 27 fixed tables (upstream's own test tables, one "
        "shape per segment kind / nesting / optional placement) x EVERY path over {/, a, b, e-acute} that starts "
        "with '/' up to 6 (quick) / 7 (thorough; 8 for the first eight tables) characters, plus PRNG-drawn tables (VERIF_SEED; static/param/"
        "optional/wildcard/unit segments, tuples of arity 1-12 nested up to depth 2, nested routes to depth 3 with "
        "up to 12 siblings held in real tuples or in a StaticVec, with and without base) x paths built from the table's own flat routes with parameter "
        "values substituted (kind 'built') and mutations of those (trailing/double/removed slashes, appended and "
        "inserted characters, truncation) plus random short paths; a stream of strings without leading '/' is "
        "compared model-vs-code only. Opcode-2 cases drive the REAL path builder (StaticPath::into_paths, "
        "static_routes.rs) on every generated flat route, as registered ([Static(base)] + segments) and on each "
        "of its expand_optionals() variants, with PRNG-drawn value lists per parameter name; every built path is "
        "fed back to match_route; the prerendered params are None, inserted (a repeated name replaces) or collected with "
        "FromIterator (first entry wins), and the builder is called directly or through RouteListing::into_static_paths. "
        "Every op-0/op-2 case carries PRNG-drawn representation flags: sibling lists as tuples (1-16) or StaticVec, segments "
        "plain / Box<dyn PossibleRouteMatch> / Arc<dyn ..>, StaticSegment<&str> or StaticSegment<user AsPath type>, base as "
        "String or &'static str; bases include \"\" (what <Routes>/<FlatRoutes> always pass) and a relative one; routes may "
        "end in .child(()). Opcode 3 calls PossibleRouteMatch::test directly on a segment value (partition, is_complete). "
        "Opcode 4 renders a real <Router base?><Routes|FlatRoutes> app holding the case's route tree through "
        "RouteList::generate, leptos_axum::generate_route_list_with_exclusions and leptos_actix::.. and compares the "
        "registered table (segments and path patterns) with the table the oracle's reference assumes. Opcode 5 checks 40 "
        "literals compiled through the path! macro against an independent parse. "
        "A case is non-trivial when some route matched; distinct = distinct case hash.")
TRUSTED = [
    "Coq 8.16.1 kernel (coqc); no axioms: every theorem of Properties_C14.v is 'Closed under the global context'",
    "extraction to OCaml with ExtrOcamlBasic only, ocamlfind ocamlopt, extract/driver.ml sexp I/O",
    "harness/router/src/c14.rs: builds real leptos_router values (StaticSegment/ParamSegment/OptionalParamSegment/"
    "WildcardSegment/(), real tuples of arity 1-12 through a forwarding enum, NestedRoute::new(..).child(<real tuple "
    "of 1-12 AnyNestedRoute, or StaticVec<AnyNestedRoute>>), RouteDefs::new/new_with_base) and calls RouteDefs::match_route, "
    "MatchNestedRoutes::match_nested, generate_routes, ExpandOptionals::expand_optionals; route ids are read from "
    "RouteMatchId's Debug form and made relative to the first id of the case",
    "harness op 2: leptos_router::static_routes::{StaticPath::new(..).into_paths(Some(StaticParamsMap)), "
    "ResolvedStaticPath} on the generated segments, built paths fed to RouteDefs::match_route",
    "modelled, not verified: str::chars / split_at / trim_end_matches / strip_prefix / trim_start_matches semantics on "
    "UTF-8 byte strings (transcribed in Router/Match.v, compared with the real functions on every case)",
    "the reference semantics of a flat route (Router/Flat.v and, independently, gen/c14.py): the path pattern "
    "to_axum_path/to_actix_path build from it, matched literally, one trailing '/' of the request path tolerated; "
    "that the integrations really register this pattern for every table is compared on every op-4 case (real "
    "generate_route_list of leptos_axum and leptos_actix), not proved; how axum/matchit and actix-router interpret a "
    "pattern stays trusted",
    "compared, not proved: routes ending in .child(()) (oracle only: the Coq route type has no unit child), the path! "
    "macro (op 5, fixed literals against an independent parse), sibling tuples of 13-16 routes (harness-side forwarding "
    "wrappers supply the Clone that std tuples lack above 12)",
]
ASSUMPTIONS = [
    "request paths start with '/' (other strings are compared model-vs-code only)",
    "parameter and wildcard names are non-empty and do not start with '/'; a WildcardSegment is the last segment of "
    "its route (documented requirement of leptos_router)",
    "segment texts, names and paths are valid UTF-8",
    "segment tuples have arity <= 12 (their impl requires Self: Debug, which std provides up to 12: larger ones cannot "
    "be instantiated); sibling tuples 1..16 (all the impls there are)",
]
LEVEL_TEXT = ("Coq proofs about an executable Gallina transcription of leptos_router's matcher (StaticSegment/Param/"
              "OptionalParam/Wildcard tests, the tuple macro with its include_optionals back-off, NestedRoute::"
              "match_nested with the optional-parent fallback, sibling choice, RouteDefs::match_route with base, "
              "generate_routes, expand_optionals), tied to /repo by running the extracted model and the real code on "
              "the same route tables x paths every run, plus an independent Python reference (segment-wise matcher "
              "over the implementation's own generate_routes() output) as oracle.")
LEVEL_NOTE = ("Trusted: Coq kernel, ExtrOcamlBasic extraction + OCaml driver, the Rust harness. The plain statement "
              "'router matches iff a flat route matches' is refuted by the faithful model (witnesses proved by "
              "vm_compute); the proved form excludes four decidable known classes (open findings F-C14-a..d), of which "
              "k_optional is the placement of OptionalParamSegments the matcher does not handle like the table (optional "
              "followed by another segment of its tuple, inside a nested tuple, or in a route with children; each "
              "inhabited by a proved witness); optionals as a top-level suffix of a leaf route's tuple are inside the "
              "theorems. All theorems are stated with and without base path (the empty base that <Routes>/<FlatRoutes> "
              "always pass is inside them) and for tables with any number of routes. "
              "No axioms.")
TECHNIQUE = "Coq proof (structural induction over nested segment tuples and route trees) + differential correspondence of the extracted model with the Rust code"

# ---------------------------------------------------------------- case construction
# seg   : [0,s] static  [1,n] param  [2,n] optional  [3,n] wildcard  [4] unit  [5,[seg..]] tuple
# route : [seg,0] | [seg,1,[route..]] (children = a tuple) | [seg,2,[route..]] (children = StaticVec)
#         | [seg,3] (.child(()): the unit child)
# case  : [0, base?, [route..], path] (+ [flags]: bit 1 = the top-level siblings are a StaticVec,
#         2 / 4 = segments as Box<dyn> / Arc<dyn>, 8 = StaticSegment<user AsPath type>, 16 = &'static str base,
#         op 2 only: 32 = into_paths(None), 64 = params collected (FromIterator), 128 = through RouteListing)
#         [3, seg, path, flags]  PossibleRouteMatch::test on a segment value
#         [4, base?, [route..], flags, [excluded path..]]  the registered route table (flag 256 = <FlatRoutes>)
#         [5, i]  the i-th literal compiled through path!


def S(s):
    return [0, s]


def P(n):
    return [1, n]


def O(n):
    return [2, n]


def W(n):
    return [3, n]


U = [4]


def T(*a):
    return [5, list(a)]


def R(seg, kids=None, vec=False):
    return [seg, 0] if kids is None else [seg, 2 if vec else 1, list(kids)]


def mk(routes, path, base=None, vec=False):
    return C.norm([0, [] if base is None else [base], routes, path] + ([1] if vec else []))


def flags_of(c):
    if c[0] in (0, 2):
        return c[4] if len(c) > 4 else 0
    if c[0] == 3:
        return c[3] if len(c) > 3 else 0
    if c[0] == 4:
        return c[3]
    return 0


def flags_str(f):
    names = [(1, "vec"), (2, "Box<dyn>"), (4, "Arc<dyn>"), (8, "AsPath-type"), (16, "&str-base"), (32, "params=None"),
             (64, "params-collected"), (128, "via-RouteListing"), (256, "FlatRoutes")]
    on = [n for b, n in names if f & b]
    return ("[" + ",".join(on) + "] ") if on else ""


def txt(v):
    return C.show_bytes(v)


def seg_str(s):
    k = s[0]
    if k == 0:
        return "Static(%r)" % txt(s[1])
    if k == 1:
        return ":" + txt(s[1])
    if k == 2:
        return ":" + txt(s[1]) + "?"
    if k == 3:
        return "*" + txt(s[1])
    if k == 4:
        return "()"
    return "(" + ", ".join(seg_str(x) for x in s[1]) + ("," if len(s[1]) == 1 else "") + ")"


def route_str(r):
    s = "Route[" + seg_str(r[0]) + "]"
    if r[1] == 3:
        return s + "{()}"
    if r[1]:
        s += ("vec{" if r[1] == 2 else "{") + "; ".join(route_str(c) for c in r[2]) + "}"
    return s


def describe(item):
    c = item["case"]
    if c[0] == 5:
        return "path! literal #%d" % c[1]
    fl = flags_str(flags_of(c))
    if c[0] == 3:
        return "TEST %s%s on %r" % (fl, seg_str(c[1]), txt(c[2]))
    base = ("base=%r " % txt(c[1][0])) if c[1] else ""
    if c[0] == 4:
        return "LISTING %s%sroutes=(%s) excluded=%r" % (fl, base, "; ".join(route_str(r) for r in c[2]),
                                                      [txt(x) for x in c[4]])
    if c[0] == 2:
        return "BUILD %s%sroutes=(%s) values=%r" % (
            fl, base, "; ".join(route_str(r) for r in c[2]),
            [(txt(k), [txt(v) for v in vs]) for k, vs in c[3]])
    return "%s%sroutes=(%s) path=%r" % (fl, base, "; ".join(route_str(r) for r in c[2]), txt(c[3]))


# ---------------------------------------------------------------- structure helpers (on the case, not on any model)
def leaves_preorder(routes):
    """pre-order ids of the leaf routes, in declaration (depth-first) order"""
    out = []
    counter = [0]

    def go(r):
        my = counter[0]
        counter[0] += 1
        if r[1] in (1, 2):
            for c in r[2]:
                go(c)
        else:
            out.append(my)

    for r in routes:
        go(r)
    return out


def leaf_seglists(routes):
    """for each leaf, the list of (non-tuple) declared segments from the root to it"""
    out = []

    def flat(seg, acc):
        if seg[0] == 5:
            for x in seg[1]:
                flat(x, acc)
        else:
            acc.append(seg)

    def go(r, prefix):
        acc = list(prefix)
        flat(r[0], acc)
        if r[1] in (1, 2):
            for c in r[2]:
                go(c, acc)
        elif r[1] == 3:
            out.append(acc + [[4, 1]])   # the unit child generates PathSegment::Unit
        else:
            out.append(acc)

    for r in routes:
        go(r, [])
    return out


# ---------------------------------------------------------------- the reference: the server's route table
# A flat route is what generate_routes() returned (plus Static(base) in front, the way the
# router registers it).  Its meaning is the path pattern the server integrations build from
# it (to_axum_path / to_actix_path): every segment contributes "/"+text unless its text is
# empty or already starts with "/"; a param stands for one non-empty run of non-'/' bytes;
# a splat, which must come last, for the rest of the path (it may be absent altogether).
# A request path matches when it matches the pattern literally, or does so after removing
# ONE trailing "/" (the router's documented tolerance: "remaining is empty or /").
PAR, WILD = "PAR", "WILD"


def expand(flat):
    """every way of dropping / keeping each OptionalParam (kept ones become Param)"""
    out = [[]]
    for seg in flat:
        if seg[0] == 2:
            out = [e + x for e in out for x in ([[1, seg[1]]], [])]
        else:
            out = [e + [seg] for e in out]
    return out


def pattern(flat):
    toks = []
    for seg in flat:
        k = seg[0]
        if k == 4:
            continue
        raw = seg[1]
        if raw and raw[0] != 47:
            toks.append(47)
        if k == 0:
            toks.extend(raw)
        elif k == 1:
            toks.append((PAR, tuple(raw)))
        elif k == 3:
            toks.append((WILD, tuple(raw)))
        else:
            raise ValueError("pattern() wants an expanded route")
    if not toks:
        toks = [47]
    return toks


def strict(toks, path):
    """bindings if path matches the pattern exactly, else None"""
    i = 0
    binds = []
    n = len(toks)
    t = 0
    while t < n:
        tok = toks[t]
        # "/" + splat at the end: the rest of the path, or nothing at all
        if tok == 47 and t + 1 < n and isinstance(toks[t + 1], tuple) and toks[t + 1][0] == WILD:
            if t + 2 != n:
                return None          # splat not last: not a registrable route
            if i == len(path):
                binds.append((list(toks[t + 1][1]), []))
                return binds
            if path[i] != 47:
                return None
            binds.append((list(toks[t + 1][1]), path[i + 1:]))
            return binds
        if isinstance(tok, tuple):
            if tok[0] == WILD:
                return None
            j = i
            while j < len(path) and path[j] != 47:
                j += 1
            if j == i:
                return None
            binds.append((list(tok[1]), path[i:j]))
            i = j
        else:
            if i >= len(path) or path[i] != tok:
                return None
            i += 1
        t += 1
    return binds if i == len(path) else None


def ref_match(flat, path):
    toks = pattern(flat)
    b = strict(toks, path)
    if b is None and len(path) > 0 and path[-1] == 47:
        b = strict(toks, path[:-1])
    return b


def table(base, flats):
    return [([[0, base[0]]] if base else []) + f for f in flats]


def ref_lookup(base, flats, path):
    """(index of the first flat route that matches, list of admissible bindings) or None"""
    for i, f in enumerate(table(base, flats)):
        bs = [b for b in (ref_match(e, path) for e in expand(f)) if b is not None]
        if bs:
            return i, bs
    return None


# ---------------------------------------------------------------- oracle
def _judge_match(base, routes, flats, path, m):
    """the iff / first-wins / parameter / partition demands on one match_route result"""
    if m == [-1]:
        return "match_route panicked"
    want = ref_lookup(base, flats, path)
    got = m != []
    if got and want is None:
        return "path is matched by the router but by none of its flat routes"
    if want is not None and not got:
        return "path matches flat route #%d but the router does not match it" % want[0]
    if got:
        chain, params = m[1], m[2]
        if chain and chain[-1][0] == -2:
            # the `()` child of a .child(()) route: matches everything, consumes nothing
            if chain[-1][1] != [] or len(chain) < 2:
                return "the unit child matched some text"
            chain = chain[:-1]
        leaves = leaves_preorder(routes)
        if len(leaves) != len(flats):
            return "generate_routes() does not list one flat route per leaf definition"
        leaf = chain[-1][0]
        if leaf not in leaves:
            return "the innermost matched route is not a leaf definition"
        idx = leaves.index(leaf)
        if idx != want[0]:
            return ("first match does not win: router chose flat route #%d, first matching is #%d"
                    % (idx, want[0]))
        pv = [(k, v) for k, v in params]
        if not any([(k, v) for k, v in b] == pv for b in want[1]):
            return "parameter values are not the corresponding path segments"
        # matched parts and remainder partition the (base-stripped) path
        joined = [x for _, part in chain for x in part]
        stripped = path
        if base:
            b = base[0]
            if path[:len(b)] == b:
                stripped = path[len(b):]
        if not (stripped[:len(joined)] == joined and stripped[len(joined):] in ([], [47])):
            return "matched parts + remainder do not partition the path"
    return None


def effective_pmap(case):
    """the prerendered params the builder sees: none at all (flag 32), the entries as collected
    (flag 64: duplicates stay, the first one is found), or inserted one by one (a later insert
    replaces the values of the name, in place)"""
    f = flags_of(case)
    if f & 32:
        return []
    if f & 64:
        return case[3]
    out = []
    for k, vs in case[3]:
        for e in out:
            if e[0] == k:
                e[1] = vs
                break
        else:
            out.append([k, vs])
    return out


def pm_get(pmap, name):
    for k, vs in pmap:
        if k == name:
            return vs
    return None


def build_failures(item, impl):
    """op 2 (the real path builder): yields (message, built path or None) for every demand of
    the property's third sentence that fails: a path built from a route's segments with given
    parameter values (non-empty, free of '/'; a splat value may contain but not start with
    '/') is matched by its own table entry, hence by the router; the first table entry that
    matches wins; and if that is the route the path was built from, the returned values are
    the given ones.  Every built request path is also judged like any other path."""
    case = item["case"]
    base, routes = case[1], case[2]
    pmap = effective_pmap(case)
    g_base, flats, per_route = impl
    if g_base != base:
        yield "generate_routes() reports a different base", None
        return
    reg = ([[0, base[0]]] if base else [])
    for i, (f, (unexp, exps)) in enumerate(zip(flats, per_route)):
        if unexp == [-1]:
            if any(sg[0] == 2 for sg in f):
                yield "StaticPath::into_paths panics (todo!) on a route with an OptionalParam", None
            else:
                yield "StaticPath::into_paths panicked", None
        for e, built in exps:
            if built == [-1]:
                yield "StaticPath::into_paths panicked on an expanded route", None
                continue
            names = [(sg[0], sg[1]) for sg in e if sg[0] in (1, 3)]
            lists = [pm_get(pmap, n) for _, n in names]
            if any(l is None for l in lists):
                continue          # no values given for some parameter: nothing to build
            combos = list(itertools.product(*lists))
            if len(built) != len(combos):
                yield "the builder did not produce one path per combination of the given values", None
                continue
            for (path, m), vals in zip(built, combos):
                if not path or path[0] != 47:
                    continue      # not a request path (the root route builds "")
                msg = _judge_match(base, routes, flats, path, m)
                if msg:
                    yield msg, path
                    continue
                ok_vals = all(v and (47 not in v if k == 1 else v[0] != 47) for (k, _), v in zip(names, vals))
                if not ok_vals:
                    continue
                if ref_match(reg + e, path) is None:
                    yield "a path built from the route's segments is not matched by its own table entry", path
                    continue
                if m == []:
                    yield "a path built from the route's segments is not matched", path
                    continue
                want = ref_lookup(base, flats, path)
                if want is not None and want[0] == i and [v for _, v in m[2]] != [list(v) for v in vals]:
                    yield "a path built from the route's segments does not return the given values", path


def oracle(item, impl):
    if isinstance(impl, str):
        return "harness error: " + impl
    case = item["case"]
    if case[0] == 2:
        for msg, _ in build_failures(item, impl):
            return msg
        return None
    if case[0] == 3:
        return test_oracle(case, impl)
    if case[0] == 4:
        return listing_oracle(case, impl)
    if case[0] == 5:
        return macro_oracle(case, impl)
    base, routes, path = case[1], case[2], case[3]
    g_base, flats, expanded, m, nested = impl
    kind = item.get("kind", "")
    if kind == "ref-xcheck":
        return None      # the same case is judged under its own kind; see coverage_extra
    if not path or path[0] != 47:
        return None      # not a request path: outside the property (correspondence only)
    if g_base != base:
        return "generate_routes() reports a different base"
    # the table the integrations register: optional segments expanded
    for f, ex in zip(flats, expanded):
        if sorted(map(C.sx, ex)) != sorted(map(C.sx, expand(f))):
            return "expand_optionals() is not 'every optional dropped or kept as a param'"
    if m == [-1]:
        return "match_route panicked"
    msg = _judge_match(base, routes, flats, path, m)
    if msg:
        return msg
    if nested == [-1]:
        return "match_nested panicked"
    if nested[0] == 1:
        joined = [x for _, part in nested[2] for x in part]
        if joined + nested[1] != path:
            return "match_nested: matched parts + remaining do not partition the path"
    elif nested[1] != path:
        return "match_nested: no match but remaining is not the whole path"
    return None


def test_oracle(case, impl):
    """PossibleRouteMatch::test on a segment value: the matched prefix and the remainder partition
    the path; is_complete() says the rest is empty or "/" """
    path = case[2]
    if impl == [-1]:
        return "PossibleRouteMatch::test panicked"
    if impl == []:
        return None
    _, matched, remaining, params, complete = impl
    if matched + remaining != path:
        return "test(): matched + remaining do not partition the path"
    if bool(complete) != (remaining in ([], [47])):
        return "is_complete() disagrees with 'remaining is empty or /'"
    return None


def render(flat, actix):
    """a table entry as the integrations write it: the concatenation rule of pattern() with
    {name} for a param and {*name} (axum) / {name:.*} (actix) for a splat; "" becomes "/" """
    out = []
    for tok in pattern(flat):
        if isinstance(tok, tuple):
            n = list(tok[1])
            if tok[0] == PAR:
                out += [123] + n + [125]
            elif actix:
                out += [123] + n + [58, 46, 42, 125]
            else:
                out += [123, 42] + n + [125]
        else:
            out.append(tok)
    return out


def listing_oracle(case, impl):
    """the table the server registers for a real app holding these routes is the table the
    reference assumes: [Static(base or "")] + generate_routes(), optionals expanded, written
    as path patterns; excluded paths are taken out and listed at the end"""
    base, routes, flags, excluded = case[1], case[2], case[3], case[4]
    listing, axum, actix = impl
    if listing == [-1]:
        return "RouteList::generate returned nothing"
    reg = [[0, base[0] if base else []]]
    want = [reg + f for f in declared_flat_units(routes)]
    # what RouteList::generate registered, read as patterns (a Static("") more or less is the same entry)
    def pats(f):
        return sorted(C.sx(render(e, False)) for e in expand([s for s in f if s[0] != 4]))
    if len(listing) != len(want) or any(pats(a) != pats(b) for a, b in zip(listing, want)):
        return "the registered RouteListing paths do not spell Static(base) + the generated routes, in order"
    for name, got, is_actix in (("leptos_axum", axum, False), ("leptos_actix", actix, True)):
        paths = [p for p, _ in got]
        n_ex = len(excluded)
        if n_ex and paths[len(paths) - n_ex:] != excluded:
            return "%s: excluded routes are not listed at the end" % name
        kept = paths[:len(paths) - n_ex] if n_ex else paths
        i = 0
        for f in want:
            group = [render(e, is_actix) for e in expand([s for s in f if s[0] != 4])]
            group = [p for p in group if p not in excluded]
            if sorted(map(C.sx, kept[i:i + len(group)])) != sorted(map(C.sx, group)):
                return ("%s: the route table does not list exactly the expansions of flat route %s"
                        % (name, "/".join(seg_str(x) for x in f)))
            i += len(group)
        if i != len(kept):
            return "%s: the route table has entries that no route definition generates" % name
    return None


def declared_flat_units(routes):
    """like declared_flat, with the Unit segments kept (what RouteListing::path() shows)"""
    return [[[4] if s[0] == 4 else [s[0], s[1]] for s in segs if s != [4]] for segs in leaf_seglists(routes)]


def parse_path_literal(lit):
    """independent reading of a path! literal: '/'-separated pieces, ':x' param, ':x?' optional
    param, '*x' splat, anything else static; a trailing '/' (on anything but the root) is a
    StaticSegment("/"); "" / "/" / "*" / "/*" have no segments"""
    text = bytes(lit).decode()
    core = text.strip("/")
    segs = []
    if core not in ("", "*"):
        for piece in core.split("/"):
            if piece.startswith(":") and piece.endswith("?"):
                segs.append([2, list(piece[1:-1].encode())])
            elif piece.startswith(":"):
                segs.append([1, list(piece[1:].encode())])
            elif piece.startswith("*"):
                segs.append([3, list(piece[1:].encode())])
            else:
                segs.append([0, list(piece.encode())])
    if text.endswith("/") and text != "/":
        segs.append([0, [47]])
    return segs


N_PATH_LITERALS = 40


def macro_oracle(case, impl):
    if case[1] >= N_PATH_LITERALS:
        return None if impl == [] else "more path! literals than expected"
    if impl == []:
        return "path! literal #%d missing from the harness" % case[1]
    lit, segs = impl
    if segs != parse_path_literal(lit):
        return "path!(%r) does not expand to the segments its text spells" % txt(lit)
    return None


# ---------------------------------------------------------------- known-finding classes
# syntactic predicates on (base, routes, path); the same predicates are the KnownClass of
# Props/Properties_C14.v (Router/Flat.v: k_boundary, k_slash_static, k_optional, k_dslash)
def tree_leaf_segs(routes):
    out = []
    for segs in leaf_seglists(routes):
        out.extend(segs)
    return out


def split_comps(path):
    out, cur = [], []
    for c in path:
        if c == 47:
            out.append(cur)
            cur = []
        else:
            cur.append(c)
    out.append(cur)
    return out


def static_core(t):
    return t[1:] if t and t[0] == 47 else t


def k_boundary(base, routes, path):
    """some static text (or base component) is a proper prefix of a path component"""
    cores = [static_core(s[1]) for s in tree_leaf_segs(routes) if s[0] == 0]
    if base:
        cores += split_comps(base[0])
    comps = split_comps(path)
    for core in cores:
        if not core or 47 in core:
            continue
        for c in comps:
            if len(c) > len(core) and c[:len(core)] == core:
                return True
    return False


def k_slash_static(base, routes):
    """a static text with a '/' after its first byte, a StaticSegment("/") that is not the
    last contributing segment of its flat route, or a base that is not /x(/y)*"""
    for segs in leaf_seglists(routes):
        for i, s in enumerate(segs):
            if s[0] != 0:
                continue
            t = s[1]
            if 47 in t[1:]:
                return True
            if t == [47] and any(not (x[0] == 4 or (x[0] == 0 and x[1] == [])) for x in segs[i + 1:]):
                return True
    if base and base[0]:     # the empty base (what <Routes> passes without <Router base>) is tame
        b = base[0]
        if b[0] != 47 or b[-1] == 47 or any(b[i] == 47 and b[i + 1] == 47 for i in range(len(b) - 1)):
            return True
    return False


def seg_optional(s):
    if s[0] == 2:
        return True
    if s[0] == 5:
        return any(seg_optional(x) for x in s[1])
    return False


def opt_tail_seg(s):
    """optionals, if any, are a top-level suffix of the segment tuple"""
    if s[0] != 5:
        return True
    l = s[1]
    for i, x in enumerate(l):
        if seg_optional(x):
            return all(y[0] == 2 for y in l[i:])
    return True


def opt_ok_route(r):
    if r[1] in (0, 3):
        return opt_tail_seg(r[0])
    return (not seg_optional(r[0])) and all(opt_ok_route(c) for c in r[2])


def k_optional(routes):
    """an OptionalParamSegment anywhere but in a top-level suffix of the segment tuple of a
    route without children (= Router/Flat.v k_optional)"""
    return not all(opt_ok_route(r) for r in routes)


def k_dslash(path):
    return any(path[i] == 47 and path[i + 1] == 47 for i in range(len(path) - 1))


def known_class_of(case):
    """the known-finding class (a purely syntactic predicate on base, routes, path)"""
    base, routes, path = case[1], case[2], case[3]
    if k_boundary(base, routes, path):
        return "F-C14-a"
    if k_slash_static(base, routes):
        return "F-C14-b"
    if k_optional(routes):
        return "F-C14-c"
    if k_dslash(path):
        return "F-C14-d"
    return None


def classify(item, impl, model):
    """a failing case belongs to a known finding only if the implementation still does
    exactly what the faithful model (= the recorded behaviour) does on it; a failure with a
    different observation is a new violation even inside a known class"""
    if impl != model:
        return None
    case = item["case"]
    if case[0] == 2:
        for msg, path in build_failures(item, impl):
            if path is None:
                return "F-C14-e" if "todo!" in msg else None
            return known_class_of([0, case[1], case[2], path])
        return None
    if case[0] == 3:
        # the same syntactic classes, read off the segment value as a one-route table (what can
        # fail here is the mid-component panic of F-C14-a / F-C14-b)
        return known_class_of([0, [], [[case[1], 0]], case[2]])
    if case[0] != 0:
        return None
    return known_class_of(case)


def _utf8(v):
    try:
        bytes(v).decode("utf-8")
        return all(isinstance(x, int) and 32 <= x < 256 for x in v)
    except Exception:
        return False


def _seg_valid(s):
    k = s[0]
    if k == 4:
        return len(s) == 1
    if k == 0:
        return len(s) == 2 and _utf8(s[1])
    if k in (1, 2, 3):
        return len(s) == 2 and _utf8(s[1]) and len(s[1]) > 0 and s[1][0] != 47
    if k == 5:
        return len(s) == 2 and 1 <= len(s[1]) <= 12 and all(_seg_valid(x) for x in s[1])
    return False


def _flat_segs(s):
    if s[0] == 5:
        out = []
        for x in s[1]:
            out += _flat_segs(x)
        return out
    return [s] if s[0] != 4 else []


def valid_case(item):
    """generator preconditions (kept by the shrinker): shape of the case, arities 1..12, valid
    UTF-8 everywhere, names non-empty and not starting with '/', a wildcard only as the very
    last segment of a leaf route"""
    try:
        c = item["case"]
        if c[0] == 5:
            return len(c) == 2 and 0 <= c[1] <= N_PATH_LITERALS
        if c[0] == 3:
            return (len(c) == 4 and 0 <= c[3] < 16 and _utf8(c[2]) and _seg_valid(c[1])
                    and not any(x[0] == 3 for x in _flat_segs(c[1])[:-1]))
        if c[0] == 4:
            c = [4, c[1], c[2], [], c[3], c[4]]     # same layout as the others from here on
            if not (0 <= c[4] < 512 and c[4] & 0xF0 in (0, 256) and all(_utf8(x) for x in c[5])):
                return False
        elif len(c) not in (4, 5) or c[0] not in (0, 1, 2) or (len(c) == 5 and not (
                0 <= c[4] < (256 if c[0] == 2 else 32))):
            return False
        base, routes, path = c[1], c[2], c[3]
        if not (base == [] or (len(base) == 1 and _utf8(base[0]))):
            return False
        if c[0] == 2:
            for kv in path:
                if not (len(kv) == 2 and _utf8(kv[0]) and kv[0] and all(_utf8(v) for v in kv[1])):
                    return False
        elif not _utf8(path):
            return False

        seg_ok = _seg_valid

        def route_ok(r):
            if not seg_ok(r[0]):
                return False
            if r[1] in (0, 3):
                return len(r) == 2
            return r[1] in (1, 2) and len(r) == 3 and 1 <= len(r[2]) <= 16 and all(route_ok(x) for x in r[2])

        if not (1 <= len(routes) <= 16 and all(route_ok(r) for r in routes)):
            return False
        for segs in leaf_seglists(routes):
            real = [x for x in segs if x[0] != 4]
            if any(x[0] == 3 for x in real[:-1]):
                return False
        # while shrinking: a failure outside the known classes must not be "minimised" into
        # a known-finding case, and a new failure inside a known class (implementation and
        # model differ there) is reported as generated: shrinking by the oracle alone would
        # drift to the recorded behaviour of that class
        if "known" in item and c[0] == 0:
            if item["known"] is None:
                return known_class_of(c) is None
            return C.case_hash(c) == item.get("orig")
        return True
    except Exception:
        return False


def nontrivial(item, model):
    # a case is non-trivial when something matched (either matcher entry point)
    if item.get("kind") == "ref-xcheck":
        return False
    if item["case"][0] == 3:
        return model not in ([], [-1])
    if item["case"][0] in (4, 5):
        return False
    if item["case"][0] == 2:
        try:
            return any(m != [] for _, exps in model[2] for _, built in exps if built != [-1] for _, m in built)
        except Exception:
            return False
    try:
        return model[3] != [] or model[4][0] == 1
    except Exception:
        return False


# ---------------------------------------------------------------- generator
ALPHA = ["/", "a", "b", "\u00e9"]
STATICS = ["a", "b", "ab", "a", "b", "", "/", "/a", "/b", "\u00e9", "a\u00e9"]
EXOTIC_STATICS = ["a/b", "/a/b", "a/", "//"]
NAMES = ["x", "y", "z", "w"]
VALUES = ["a", "b", "ab", "\u00e9", "ba", "a\u00e9b", "x", "\u20ac", "\U0001F600", "a\u20acb"]
# "" is what <Routes>/<FlatRoutes> pass to new_with_base when <Router> has no base; "b" takes the
# other arm of the base strip (a base without leading '/')
BASES = [None, None, None, None, None, "", "", "/b", "/\u00e9", "/a/b", "/", "b"]


def all_paths(maxlen, alpha=ALPHA):
    """every string over alpha that starts with '/' and has at most maxlen characters"""
    out = []
    for n in range(0, maxlen):
        for t in itertools.product(alpha, repeat=n):
            out.append("/" + "".join(t))
    return out


def gen_leaf(rng, wild_ok):
    r = rng.random()
    if r < 0.46:
        if rng.random() < 0.04:
            return S(rng.choice(EXOTIC_STATICS))
        return S(rng.choice(STATICS))
    if r < 0.66:
        return P(rng.choice(NAMES))
    if r < 0.84:
        return O(rng.choice(NAMES))
    if r < 0.92:
        return U
    if wild_ok:
        return W(rng.choice(NAMES))
    return S(rng.choice(STATICS))


def gen_seg(rng, depth, wild_ok):
    """a segment value; a wildcard can only end up as the very last leaf"""
    r = rng.random()
    if depth <= 0 or r < 0.35:
        return gen_leaf(rng, wild_ok)
    n = rng.choice([1, 2, 2, 2, 2, 3, 3, 3, 4, 5, 6]) if rng.random() < 0.25 else rng.choice([1, 2, 2, 3])
    if rng.random() < 0.03:
        n = rng.randint(7, 12)
    items = []
    for i in range(n):
        last = i == n - 1
        if rng.random() < 0.08:
            items.append(gen_seg(rng, depth - 1, wild_ok and last))
        else:
            items.append(gen_leaf(rng, wild_ok and last))
    return T(*items)


def gen_plain_leaf(rng):
    r = rng.random()
    if r < 0.6:
        return S(rng.choice(STATICS))
    if r < 0.9:
        return P(rng.choice(NAMES))
    return U


def gen_opt_tail(rng):
    """a leaf-route segment whose optionals are a top-level suffix: the shape outside F-C14-c"""
    pre = []
    for _ in range(rng.choice([0, 1, 1, 2, 3])):
        if rng.random() < 0.12:
            pre.append(T(*[gen_plain_leaf(rng) for _ in range(rng.choice([1, 2, 3]))]))
        else:
            pre.append(gen_plain_leaf(rng))
    opts = [O(rng.choice(NAMES)) for _ in range(rng.choice([1, 1, 2, 3]))]
    if not pre and len(opts) == 1 and rng.random() < 0.5:
        return opts[0]
    return T(*(pre + opts))


def gen_route(rng, depth, budget):
    """budget: mutable [remaining number of routes]"""
    budget[0] -= 1
    if depth > 0 and budget[0] > 0 and rng.random() < 0.45:
        seg = gen_seg(rng, 2, False)
        if rng.random() < 0.5 and seg_optional(C.norm(seg)):
            seg = gen_plain_leaf(rng)
        n = rng.choice([1, 1, 2, 2, 3, 4])
        if rng.random() < 0.04:
            n = rng.randint(7, 10)
            budget[0] += n
        elif rng.random() < 0.012:
            n = rng.randint(13, 16)      # EitherOf13..EitherOf16
            budget[0] += n
        kids = []
        for _ in range(n):
            if budget[0] <= 0 and kids:
                break
            kids.append(gen_route(rng, depth - 1, budget))
        return R(seg, kids, vec=rng.random() < 0.2)
    if rng.random() < 0.3:
        r = R(gen_opt_tail(rng))
    else:
        r = R(gen_seg(rng, 2, True))
    if rng.random() < 0.02:
        r = [r[0], 3]                    # .child(())
    return r


def gen_routes(rng):
    budget = [rng.choice([1, 2, 3, 4, 6, 8])]
    n = rng.choice([1, 1, 2, 2, 3, 4])
    if rng.random() < 0.04:
        n = rng.randint(7, 12)
        budget[0] = n + 2
    elif rng.random() < 0.012:
        n = rng.randint(13, 16)
        budget[0] = n + 2
    out = []
    for _ in range(n):
        if budget[0] <= 0 and out:
            break
        out.append(gen_route(rng, 2, budget))
    return C.norm(out)


def gen_pmap(rng, odd):
    """prerendered values for the parameter names; odd: also empty / slash-carrying values; a
    name may be listed twice (insert: the later entry replaces; FromIterator: the first is found)"""
    out = []
    for n in NAMES + ([rng.choice(NAMES)] if rng.random() < 0.25 else []):
        if rng.random() < 0.08:
            continue              # no values for this name: routes using it build nothing
        pool = VALUES + (["", "/a", "a/b", "a/", "/"] if odd else [])
        vs = [rng.choice(pool) for _ in range(rng.choice([1, 1, 2]))]
        out.append([n, vs])
    return C.norm(out)


def rep_flags(rng):
    """representation flags of a case (bits 1..16); bit 1 (StaticVec at the top) is drawn separately"""
    f = rng.choice([0, 0, 0, 2, 4])
    if rng.random() < 0.25:
        f |= 8
    if rng.random() < 0.3:
        f |= 16
    return f


def axum_join(flat, values):
    """the path obtained from a flat route by the integrations' concatenation rule, with the
    given values substituted for params (a splat value may contain '/')"""
    out = []
    vi = 0
    for seg in flat:
        k = seg[0]
        if k == 4:
            continue
        raw = seg[1]
        if raw and raw[0] != 47:
            out.append(47)
        if k == 0:
            out.extend(raw)
        else:
            out.extend(values[vi])
            vi += 1
    return out or [47]


def declared_flat(routes):
    """flat segment lists as PathSegment-like [kind, text] read off the case itself"""
    return [[[{0: 0, 1: 1, 2: 2, 3: 3}[s[0]], s[1]] for s in segs if s[0] != 4]
            for segs in leaf_seglists(routes)]


def has_unit_child(routes):
    return any(r[1] == 3 or (r[1] in (1, 2) and has_unit_child(r[2])) for r in routes)


def strip_unit_child(routes):
    return [[r[0], 0] if r[1] == 3 else ([r[0], r[1], strip_unit_child(r[2])] if r[1] else r) for r in routes]


def mutate(rng, p):
    """p: list of characters"""
    p = list(p)
    r = rng.random()
    if r < 0.25:
        return p + ["/"]
    if r < 0.32:
        return p + ["/", "/"]
    slashes = [i for i, c in enumerate(p) if c == "/"]
    if r < 0.45 and slashes:
        i = rng.choice(slashes)
        return p[:i] + ["/"] + p[i:]
    if r < 0.62 and len(slashes) > 1:
        i = rng.choice(slashes[1:])
        return p[:i] + p[i + 1:]
    if r < 0.80:
        return p + [rng.choice(["a", "b", "\u00e9", "x"])]
    if r < 0.90 and len(p) > 1:
        i = rng.randrange(1, len(p) + 1)
        return p[:i] + [rng.choice(["a", "/", "\u00e9"])] + p[i:]
    if len(p) > 1:
        return p[:rng.randrange(1, len(p))]
    return p


def targeted(rng, base, routes, n):
    """paths built from the declared flat routes, plain and mutated"""
    flats = declared_flat(routes)
    out = []
    for _ in range(n):
        f = rng.choice(flats)
        e = rng.choice(expand(f))
        vals = []
        for seg in e:
            if seg[0] == 1:
                vals.append(list(rng.choice(VALUES).encode()))
            elif seg[0] == 3:
                vals.append(list(rng.choice(["", "a", "a/b", "a//b", "\u00e9/", "/", "\u20ac/\U0001F600"]).encode()))
        p = list(((base or "").encode() + bytes(axum_join(e, vals))).decode())
        built = True
        while rng.random() < 0.5:
            p = mutate(rng, p)
            built = False
        if not p or p[0] != "/":
            p = ["/"] + p
            built = False
        out.append((C.norm("".join(p)), built))
    return out


FIXED = [
    # upstream's own test tables
    [R(S("/"), [R(S("")), R(S("about"))]), R(S("/blog"), [R(S("")), R(T(S("post"), P("id")))])],
    [R(S("/"), [R(S("/")), R(S("a"))]), R(S("/b"), [R(S("")), R(S("a")), R(T(S("ab"), P("x")))]),
     R(T(S("/ab"), W("w")))],
    [R(S(""), [R(T(S("a"), S("b")))])],
    [R(T(S("a"), S("b")))],
    [R(T(S("a"), P("x"))), R(T(S("a"), S("b"), O("y")))],
    [R(T(O("x"), S("a")))],
    [R(T(O("x"), S("a"), O("y")))],
    [R(T(O("x"), O("y"), S("a")))],
    [R(O("x"), [R(S("a"))])],
    [R(T(O("x"), O("y")), [R(S("a")), R(P("z"))])],
    [R(T(S("a"), O("x")), [R(S("b")), R(T(O("y"), S("a")))])],
    [R(T(T(S("a"), O("x")), S("b")))],
    [R(T(U, T(S("a")), U, T(U, U), S("b"), U))],
    [R(T(S("a"), W("w")))],
    [R(W("w"))],
    [R(P("x"), [R(S("")), R(S("a")), R(P("y"))])],
    [R(T(S("a"), S("/")))],
    [R(S("a")), R(P("x")), R(T(P("x"), S("b"))), R(W("w"))],
    [R(S("\u00e9")), R(T(S("a"), P("x")))],
    [R(T(P("x"), O("y"))), R(T(S("a"), S("a"), S("a")))],
    [R(S("a"), [R(S("b"), [R(S("a")), R(O("x"))]), R(P("y"), [R(S(""))])])],
    [R(O("x"), [R(O("y"), [R(O("z"))])])],
    [R(T(S("a"), O("x")), [R(S("a"))])],
    [R(S(""))],
    [R(S("/"))],
    [R(T(O("x"),))],
    [R(T(S("a/b")))],
    # optionals as a top-level suffix of a leaf route (outside F-C14-c)
    [R(T(S("a"), O("x")))],
    [R(T(S("a"), O("x"), O("y")))],
    [R(O("x"))],
    [R(T(O("x"), O("y"))), R(T(S("a"), S("b"), S("a")))],
    [R(S("a"), [R(O("x")), R(T(S("b"), O("y")))]), R(T(P("z"), O("x"), O("y")))],
    [R(S(""), [R(T(O("x"),)), R(S("a"))])],
    [R(T(T(S("a"), P("x")), O("y"))), R(T(S("a"), S("b"), O("y"), O("z")))],
    # arities beyond 6 (9-tuple of segments, 8 siblings) and StaticVec children
    [R(T(S("a"), U, S("b"), P("x"), U, S("a"), S(""), P("y"), O("z"))),
     R(S("b")), R(S("ab")), R(T(S("a"), S("a"))), R(P("x")), R(T(S("b"), P("y"))), R(S("")), R(W("w"))],
    [R(S("a"), [R(S("")), R(S("b")), R(P("x"), [R(S("a")), R(O("y"))], vec=True)], vec=True), R(W("w"))],
]


def generate(rng, tier):
    """cases outside the known classes first, so that the first reported failure (the one
    the driver shrinks and writes a replay for) is one outside them whenever there is one"""
    items = list(_generate(rng, tier))
    # every 25th case once more with opcode 1: the model then prints Router/Flat.v's verdicts
    # (flat_any, matches, the four class predicates, wf) instead of the observation; the
    # harness ignores the opcode.  coverage_extra compares them with this module's own
    # reference and class predicates (two independent formulations of the reference).
    extra = []
    for it in items[::25]:
        if it["kind"] != "raw-path" and it["case"][0] == 0 and not has_unit_child(it["case"][2]):
            extra.append(dict(case=[1] + it["case"][1:], kind="ref-xcheck", compare=False))
    items += extra
    for it in items:
        c = it["case"]
        if c[0] == 2 and has_unit_child(c[2]):
            c[2] = strip_unit_child(c[2])
        if c[0] not in (0, 1):
            continue
        it["known"] = known_class_of(c)
        if has_unit_child(c[2]):
            # .child(()) is not modelled: judged by the oracle alone, and only outside the
            # known classes (classify() recognises a known finding by impl == model)
            if it["known"] is not None or it["kind"] == "raw-path":
                c[2] = strip_unit_child(c[2])
            else:
                it["compare"] = False
        if it["known"] is not None:
            it["orig"] = C.case_hash(c)
    items.sort(key=lambda it: it.get("known") is not None)
    return items


def with_flags(rng, case, op2=False):
    """append the flags element: representation bits, StaticVec bit, (op 2) params / entry bits"""
    f = rep_flags(rng)
    if rng.random() < 0.15:
        f |= 1
    if op2:
        r = rng.random()
        if r < 0.08:
            f |= 32
        elif r < 0.35:
            f |= 64
        if rng.random() < 0.3:
            f |= 128
    return case + ([f] if f else [])


def gen_excluded(rng, base, routes):
    """paths to exclude from the listing: some of the expected entries (without a splat, whose
    spelling differs between axum and actix), sometimes a path the app does not have"""
    reg = [[0, base[0] if base else []]]
    cands = []
    for f in declared_flat(routes):
        for e in expand(reg + f):
            if not any(sg[0] == 3 for sg in e):
                cands.append(render(e, False))
    out = []
    if cands and rng.random() < 0.5:
        out.append(rng.choice(cands))
        if rng.random() < 0.3:
            out.append(rng.choice(cands))
    if rng.random() < 0.15:
        out.append(C.norm("/nope"))
    uniq = []
    for p in out:
        if p not in uniq:
            uniq.append(p)
    return uniq


def _generate(rng, tier):
    quick = tier == "quick"
    plen = 6 if quick else 7
    paths = [C.norm(p) for p in all_paths(plen)]
    fixed = [C.norm(t) for t in FIXED]
    # 1. fixed tables x every path up to the bound (each table under one drawn representation)
    longer = paths if quick else [C.norm(p) for p in all_paths(plen + 1)]
    for ti, routes in enumerate(fixed):
        fl = rep_flags(rng) & ~16
        tail = [fl] if fl else []
        for p in (longer if ti < 8 else paths):
            yield dict(case=[0, [], routes, p] + tail, kind="exhaustive")
    for routes in fixed[:6]:
        for b in (C.norm("/b"), C.norm("")):
            for p in paths[: len(paths) // 4]:
                yield dict(case=with_flags(rng, [0, [b], routes, b + p]), kind="exhaustive-base")
    # 2. random tables x (targeted paths + random paths)
    n_tables = 2500 if quick else 12000
    short = [C.norm(p) for p in all_paths(4)]
    for _ in range(n_tables):
        routes = gen_routes(rng)
        base = rng.choice(BASES)
        nb = [C.norm(base)] if base is not None else []
        proto = with_flags(rng, [0, nb, routes, None])
        for p, built in targeted(rng, base, routes, 14):
            yield dict(case=[0, nb, routes, p] + proto[4:], kind="built" if built else "targeted")
        for _ in range(6):
            p = rng.choice(short)
            if base and rng.random() < 0.8:
                p = C.norm(base) + p
            yield dict(case=[0, nb, routes, p] + proto[4:], kind="random")
    # 3. the real path builder: StaticPath::into_paths on every flat route (and each of its
    #    expansions) with generated parameter values, every built path fed back to match_route
    for ti, routes in enumerate(fixed):
        for b in ([], [C.norm("/b")], [C.norm("")]):
            yield dict(case=with_flags(rng, [2, b, routes, gen_pmap(rng, False)], op2=True), kind="build")
    for _ in range(1500 if quick else 12000):
        routes = gen_routes(rng)
        base = rng.choice(BASES)
        nb = [C.norm(base)] if base is not None else []
        odd = rng.random() < 0.15
        yield dict(case=with_flags(rng, [2, nb, routes, gen_pmap(rng, odd)], op2=True),
                   kind="build-odd-values" if odd else "build")
    # 4. arbitrary strings as paths (no leading '/'): correspondence only
    for _ in range(2000 if quick else 20000):
        routes = gen_routes(rng)
        p = C.norm("".join(rng.choice(ALPHA + ["a", "b"]) for _ in range(rng.randint(0, 6))))
        yield dict(case=[0, [], routes, p], kind="raw-path")
    # 5. PossibleRouteMatch::test called directly on segment values (tuples of any nesting)
    for _ in range(1500 if quick else 15000):
        seg = C.norm(gen_seg(rng, 2, True) if rng.random() < 0.7 else gen_opt_tail(rng))
        flat = [[x[0], x[1]] for x in _flat_segs(seg)]
        for _ in range(3):
            if flat and rng.random() < 0.8:
                p = targeted(rng, None, [[seg, 0]], 1)[0][0]
            else:
                p = rng.choice(short)
            yield dict(case=[3, seg, p, rep_flags(rng) & 15], kind="segment-test")
    # 6. the route table the server integrations register for a real app with these routes
    for ti, routes in enumerate(fixed):
        yield dict(case=[4, [], routes, 0, []], kind="listing", compare=False)
    for _ in range(400 if quick else 4000):
        routes = gen_routes(rng)
        base = rng.choice(BASES)
        nb = [C.norm(base)] if base is not None else []
        fl = (rep_flags(rng) & 15) | (1 if rng.random() < 0.15 else 0) | (256 if rng.random() < 0.4 else 0)
        yield dict(case=[4, nb, routes, fl, gen_excluded(rng, nb, routes)], kind="listing", compare=False)
    # 7. literals compiled through the path! macro
    for i in range(N_PATH_LITERALS + 1):
        yield dict(case=[5, i], kind="path-macro", compare=False)


def _shape_stats(case):
    big = vec = False
    if case[0] in (3, 5):
        return False, False
    if flags_of(case) & 1:
        vec = True
    if len(case[2]) > 6:
        big = True

    def seg(s):
        nonlocal big
        if s[0] == 5:
            if len(s[1]) > 6:
                big = True
            for x in s[1]:
                seg(x)

    def route(r):
        nonlocal big, vec
        seg(r[0])
        if r[1] in (1, 2):
            if r[1] == 2:
                vec = True
            if len(r[2]) > 6:
                big = True
            for c in r[2]:
                route(c)

    for r in case[2]:
        route(r)
    return big, vec


def max_siblings(routes):
    return max([len(routes)] + [max_siblings(r[2]) for r in routes if r[1] in (1, 2)])


def coverage_extra(results):
    n = bad = inst = inst_bad = 0
    n_big = n_vec = n_opt_inside = n_built = n_built_matched = 0
    n_13 = n_unit = n_dyn = n_aspath = n_empty_base = n_listed = 0
    examples = []
    for r in results:
        it = r["item"]
        c = it["case"]
        if c[0] in (0, 2, 4) and it.get("kind") != "raw-path":
            n_13 += max_siblings(c[2]) > 12
            n_unit += has_unit_child(c[2])
            n_dyn += bool(flags_of(c) & 6)
            n_aspath += bool(flags_of(c) & 8)
            n_empty_base += c[1] == [[]]
            if c[0] == 4 and not isinstance(r["impl"], str):
                n_listed += len(r["impl"][1]) + len(r["impl"][2])
        if it.get("kind") not in ("ref-xcheck", "raw-path"):
            big, vec = _shape_stats(it["case"])
            n_big += big
            n_vec += vec
            if it["case"][0] == 0 and it.get("known") is None and any(
                    s[0] == 2 for s in tree_leaf_segs(it["case"][2])):
                n_opt_inside += 1
            if it["case"][0] == 2 and not isinstance(r["impl"], str):
                for _, exps in r["impl"][2]:
                    for _, built in exps:
                        if built != [-1]:
                            n_built += len(built)
                            n_built_matched += sum(1 for _, m in built if m not in ([], [-1]))
        if it.get("kind") != "ref-xcheck" or isinstance(r["impl"], str) or isinstance(r["model"], str):
            continue
        n += 1
        base, routes, path = it["case"][1], it["case"][2], it["case"][3]
        impl, m = r["impl"], r["model"]
        want = ref_lookup(base, impl[1], path) is not None
        py = [int(want), int(impl[3] != [] and impl[3] != [-1]), int(k_boundary(base, routes, path)),
              int(k_slash_static(base, routes)), int(k_optional(routes)), int(k_dslash(path))]
        if list(m[:6]) != py:
            bad += 1
            if len(examples) < 3:
                examples.append(describe(it))
        if not any(m[2:6]) and m[6] == 1:
            inst += 1
            if m[0] != m[1] or impl[3] == [-1]:
                inst_bad += 1
    return dict(cases_with_13_to_16_siblings=n_13, cases_with_unit_child=n_unit,
                cases_with_dyn_segments=n_dyn, cases_with_user_aspath_type=n_aspath,
                cases_with_empty_base=n_empty_base, route_table_entries_of_real_integrations_checked=n_listed,
                cases_with_arity_above_6=n_big, cases_with_static_vec_children=n_vec,
                cases_with_optionals_outside_known_classes=n_opt_inside,
                paths_built_by_the_real_builder=n_built, built_paths_matched=n_built_matched,
                reference_crosscheck_cases=n, reference_python_vs_coq_disagreements=bad,
                reference_disagreement_examples=examples,
                theorem_instances_outside_known_classes=inst, theorem_instances_violated=inst_bad)
