"""C16 — store writes notify exactly the fields on the written path (reactive_stores)."""
from . import common as C

PID = "C16"
PROPS_V = "theories/Props/Properties_C16.v"
MODEL_NAME = "Store/Paths.v + Store/Keyed.v + Store/Sim.v"
HARNESS = "stores"
HARNESS_ARGS = ["c16"]
ALLOWED_AXIOMS = []
RUN_IMPORT = "Store.PathsRun"
READY = True
IMPL_SHARDS = 16

RULE = ("one PRNG (VERIF_SEED). A case = (initial Root value, reader chains, history, executor schedule, "
        "FieldKeys visiting orders, per reader: read entry point / subscriber kind / kept handle). Families: allpairs "
        "(one reader effect per field path of a populated store — structs, a tuple struct, Option, Vec, keyed Vec, a keyed "
        "Vec nested in a keyed item, a tuple, Box, enums with unit / tuple / struct variants, depth up to 8 — then a write "
        "through every writable path in turn, so every (written path, read path) pair is exercised; readers of collections "
        "either read them whole or iterate with iter_unkeyed / the keyed iterator, forwards, with rev() or alternately "
        "from both ends; any field on a chain may be handed on as a type-erased ArcField::from(x) / Field::from(x), a chain "
        "may start from the ArcStore handle, a Box field is followed with deref_field, an Option with unwrap() or "
        "map_untracked(), an enum variant field with the generated Option<Subfield> accessor; every reader is one of "
        "Effect::new / ImmediateEffect / RenderEffect / Memo read by an Effect / Effect::new_isomorphic, reads through one "
        "of try_read / try_get / try_with / track + untracked read / track_field + reader / iterate / "
        "OptionStoreExt::map / invert / Signal::from(subfield) / the enum's bool accessors, and either builds its "
        "accessors afresh in every run or keeps the handle it was given; every write goes through one of "
        "*try_write() / Set::try_set / Update::try_update / try_maybe_update(true) / StoreField::writer()), random (random "
        "reader subsets in random creation order, histories mixing set / patch / poke / untracked writes "
        "(try_write_untracked, try_update_untracked, try_maybe_update(false)) at random reachable paths, "
        "Option and Vec becoming empty and populated again, enums changing variant, non-FIFO schedules), keyed (histories of "
        "insert / remove / reorder through the keyed field's own write guard, tracked or untracked, with readers on items and "
        "item sub-fields, writes to items after each change, update_keys() by hand, segment reports op 3), keyed-exact "
        "(at most one key added and one removed per update, so FieldKeys' hash order cannot matter: raw path "
        "segments compared, op 2), keyed-nested (the same for the collection inside a keyed item), keyed-large (6 .. 40 "
        "keys, around the growth steps of FieldKeys' hash map), nested (outer collection losing and gaining items — a new "
        "item takes over the path segment of a removed one — while the nested collections are restructured and their items "
        "read and written by key), patch (Patch::patch of structs/options/vectors/tuples with partial changes, a "
        "#[patch] closure, PatchField for (), structs whose skipped field comes first / in the middle), huge (a vector of "
        "65537 .. 70000 items, readers and writes / patches at positions i and i + 65536), keyed-ancestor (a keyed collection reordered through an ancestor's guard: open "
        "finding F-C16-e), patch-keyed (Patch of a keyed collection whose items changed in place, before and after a "
        "reorder: open finding F-C16-n). A case is non-trivial when at least one write wakes some but not all of the readers; distinct "
        "= distinct case hash.")
TRUSTED = [
    "Coq 8.16.1 kernel (coqc); no axioms: every theorem of Properties_C16.v is 'Closed under the global context'",
    "extraction to OCaml with ExtrOcamlBasic only, ocamlfind ocamlopt 4.13.1, extract/driver.ml sexp I/O",
    "harness/stores (Rust): fixed #[derive(Store, Patch)] shapes Root/Mid/Sub/Item/Tag/Leaf/Choice, a type-erased accessor "
    "layer over the public API (field getters of named and tuple structs, enum variant accessors, OptionStoreExt::{unwrap, "
    "map_untracked}, StoreFieldIterator::at_unkeyed, AtKeyed::new, ArcField::from, Field::from, ArcStore / Store::from, "
    "DerefField::deref_field, OptionStoreExt::{map, invert}, Signal::from(subfield), Get / With / Track / "
    "StoreField::{track_field, reader, writer}, Read::try_read, Write::{try_write, try_write_untracked}, Set, Update, "
    "UpdateUntracked, Patch::patch, KeyedSubfield::update_keys, StoreField::path), one subscriber per reader, a FIFO/"
    "scheduled single-threaded executor installed with Executor::init_local_custom_executor",
    "modelled, not verified (Store/Sim.v, compared with the real crates on every case): reactive_graph's ArcTrigger "
    "subscriber set (ordered Vec, emptied by notify), Effect re-run/clear_sources/re-subscribe, channel wake-up; "
    "the executor of the harness; the shape-directed value tree standing for the Rust structs and enums",
    "FieldKeys' FxHashMap iteration order is a parameter of the model (theorems quantify over it); the check feeds "
    "the model random orders and requires the observation not to depend on them",
    "compared, not modelled separately: the write entry points Set / Update / maybe_update / raw StoreField::writer and the "
    "read entry points Signal::from / reversed and double-ended iteration / map_untracked / the enum's bool accessors are "
    "the same model transitions as try_write / try_read / iterate / unwrap / a tracked read; a kept handle is the same "
    "model reader as freshly built accessors (the model has no notion of a cached path)",
    "not drivable natively: the wasm32 branch of KeyMap (Rc<RefCell<HashMap>> instead of DashMap)",
]
ASSUMPTIONS = [
    "a keyed collection is restructured (insert/remove/reorder) only through its own write guard "
    "(KeyedSubfield::write / write_untracked, which call update_keys); writes through ancestors keep its key sequence "
    "(otherwise: open finding F-C16-e, exercised by the separate family keyed-ancestor) - for a collection nested in a "
    "keyed item the outer collection's guard counts as an ancestor: an outer item that stays keeps its nested keys, a "
    "new outer item brings its own; an item written through AtKeyed keeps its key; keys within one collection are distinct",
    "a keyed collection is accessed by key only: at_unkeyed(i) / iter_unkeyed() on a keyed field address the items by "
    "index segments, which alias the key segments of the same collection by construction",
    "with a Memo-backed reader in a case the schedule is FIFO (the effect behind a memo is polled a second time when "
    "the memo's value changed, which would shift a scheduled order); order between an ImmediateEffect and a scheduled "
    "reader is not compared (the former always runs inside the notification)",
    "effects run on a single-threaded executor that drains all woken effects between two writes; 'woken before' "
    "is observed as the order of first wake-ups at the executor (all schedules) and as run order (FIFO schedule); "
    "'readers of ancestors before readers of descendants' is demanded for every pair of notified readers whose paths "
    "are in the proper-prefix relation (the sub-case where both lie strictly below the written field is the open "
    "finding F-C16-g)",
    "Patch::patch does not change a keyed collection or its items (PatchField for Vec names items by index segments, "
    "keyed readers subscribe by key segments: open finding F-C16-n, exercised by the separate family patch-keyed)",
    "untracked writes (try_write_untracked, try_update_untracked, maybe_update -> false): the property speaks about "
    "notifying writes; of an untracked one the oracle demands that no UNRELATED reader is notified, that every reader that "
    "runs later sees the current value and that keyed readers keep following their key; that the related readers stay "
    "asleep is compared with the model only. A reader left behind by an untracked write is judged again (who is "
    "notified) after its next run; a type-erased handle of a keyed item is not kept across an untracked write",
    "enum variant field accessors are called under untrack() (the accessor itself does a tracked read of the enum "
    "field: built inside the reader it would make it a reader of the whole enum); a kept handle is built under the "
    "case's owner, not the effect's (an arena-allocated Field dies with its owner)",
    "manual Notify::notify() on a field and the raw StoreField::writer() of the store itself / of a keyed collection are "
    "not writes through a store field in the sense of the property and are not judged",
]

# ------------------------------------------------------------------------------------------ schema
INT = ("int",)
UNIT = ("unit",)     # a #[store(skip)] field of type (): value [], no accessor, keeps its declaration index
LEAF = ("struct", [INT, UNIT, INT], ["0", "_", "2"])     # tuple struct Leaf(i64, #[store(skip)] (), i64)
TAG = ("struct", [INT, INT], ["id", "n"])           # item of the keyed collection nested in a keyed item
ITEM = ("struct", [INT, INT, LEAF, ("keyed", TAG)], ["id", "n", "l", "kk"])
# enum Choice { A, B(i64, Leaf), C { x: i64, y: i64 } }; value = [tag, fields..]
CHOICE = ("enum", [[], [INT, LEAF], [INT, INT]], ["A", "B", "C"], [[], ["0", "1"], ["x", "y"]])
TUP = ("tuple", [INT, INT])                          # (i64, i64): no accessors; PatchField for (A, B)
# Sub { #[store(skip)] z: (), x, l, v, b, t, e }: the accessors start at path segment 1
SUB = ("struct", [UNIT, INT, LEAF, ("vec", INT), ("box", LEAF), TUP, CHOICE], ["_", "x", "l", "v", "b", "t", "e"])
MID = ("struct", [INT, LEAF, ("opt", LEAF), ("keyed", ITEM)], ["x", "l", "o", "k"])
ROOT = ("struct", [INT, MID, ("opt", SUB), ("vec", SUB), ("keyed", ITEM), CHOICE], ["a", "m", "o", "v", "k", "e"])


def is_item(sch):
    """a struct that is the item type of a keyed collection: its field 0 is the key"""
    return sch is ITEM or sch is TAG


F = lambda i: [0, i]
U = [1, 0]
U1 = [1, 1]         # the same subfield, obtained with OptionStoreExt::map_untracked(|f| f)
V = lambda a, i: [6, 10 * a + i]     # field i of variant a of an enum (generated Option<Subfield> accessor)
I = lambda i: [2, i]
K = lambda k: [3, k]
E = [4, 0]          # hand the field on as a type-erased ArcField (same path)
EF = [4, 1]         # ... as an arena-allocated Field (a handle to such an ArcField)
EA = [4, 2]         # first step only: start from the ArcStore handle of the store
D = [5, 0]          # .deref_field() of a Box field (same path)


def has_child(sch, v, st):
    kind, arg = st
    if kind == 4:
        return sch[0] != "keyed"
    if kind == 5:
        return sch[0] == "box"
    if sch[0] == "struct":
        return kind == 0 and 0 <= arg < len(sch[1]) and sch[1][arg] is not UNIT
    if sch[0] == "opt":
        return kind == 1 and arg in (0, 1) and len(v) == 1
    if sch[0] == "vec":
        return kind == 2 and 0 <= arg < len(v)
    if sch[0] == "keyed":
        return kind == 3 and any(it[0] == arg for it in v)
    if sch[0] == "enum":
        return kind == 6 and v[0] == arg // 10 and arg % 10 < len(sch[1][v[0]])
    return False


def child(sch, v, st):
    """(schema, value, position in the value list) of the child addressed by st (which exists)"""
    kind, arg = st
    if kind == 4:
        return sch, v, None
    if kind == 5:
        return sch[1], v, None
    if sch[0] == "struct":
        return sch[1][arg], v[arg], arg
    if sch[0] == "opt":
        return sch[1], v[0], 0
    if sch[0] == "enum":
        return sch[1][arg // 10][arg % 10], v[1 + arg % 10], 1 + arg % 10
    if kind == 2:
        return sch[1], v[arg], arg
    pos = [i for i, it in enumerate(v) if it[0] == arg][0]
    return sch[1], v[pos], pos


def well_typed(chain):
    """the accessor chain type-checks against the store shapes (keyed collections are
    accessed by key only: at_unkeyed on them would alias the segments of the keys)"""
    sch = ROOT
    prev = None
    for idx, (kind, arg) in enumerate(chain):
        was, prev = prev, (kind, arg)
        if kind == 4:
            if arg == 2:
                if idx != 0:
                    return False
                continue
            if sch[0] == "keyed" or arg not in (0, 1) or was == (4, 1):
                return False
            continue
        if kind == 5:
            if sch[0] != "box" or arg != 0:
                return False
            sch = sch[1]
            continue
        if sch[0] == "struct" and kind == 0 and 0 <= arg < len(sch[1]) and sch[1][arg] is not UNIT:
            sch = sch[1][arg]
        elif sch[0] == "opt" and kind == 1 and arg in (0, 1):
            sch = sch[1]
        elif sch[0] == "enum" and kind == 6 and arg // 10 < len(sch[1]) and arg % 10 < len(sch[1][arg // 10]):
            sch = sch[1][arg // 10][arg % 10]
        elif sch[0] == "vec" and kind == 2 and arg >= 0:
            sch = sch[1]
        elif sch[0] == "keyed" and kind == 3 and arg >= 0:
            sch = sch[1]
        else:
            return False
    return True


def reach(tree, chain):
    """follow chain from the root as far as the value allows: (steps taken, schema, value)"""
    sch, v = ROOT, tree
    for j, st in enumerate(chain):
        if not has_child(sch, v, st):
            return j, sch, v
        sch, v, _ = child(sch, v, st)
    return len(chain), sch, v


def set_at(tree, chain, new):
    def go(sch, v, ch):
        if not ch:
            return new
        s2, v2, pos = child(sch, v, ch[0])
        if pos is None:
            return go(s2, v2, ch[1:])
        out = list(v)
        out[pos] = go(s2, v2, ch[1:])
        return out
    return go(ROOT, tree, chain)


def all_chains(tree, sch=ROOT, v=None, pre=()):
    """every reachable accessor chain of the value (keyed items by key, vector items by index)"""
    v = tree if v is None and sch is ROOT else v
    out = [list(pre)]
    if sch[0] == "struct":
        for i, s in enumerate(sch[1]):
            if s is not UNIT:
                out += all_chains(tree, s, v[i], pre + (F(i),))
    elif sch[0] == "opt":
        if len(v) == 1:
            out += all_chains(tree, sch[1], v[0], pre + (U,))
    elif sch[0] == "vec":
        for i, x in enumerate(v):
            out += all_chains(tree, sch[1], x, pre + (I(i),))
    elif sch[0] == "keyed":
        for x in v:
            out += all_chains(tree, sch[1], x, pre + (K(x[0]),))
    elif sch[0] == "box":
        out += all_chains(tree, sch[1], v, pre + (D,))
    elif sch[0] == "enum":
        for i, s in enumerate(sch[1][v[0]]):
            out += all_chains(tree, s, v[1 + i], pre + (V(v[0], i),))
    return out


def tup(chain):
    """the path a chain addresses: its steps without the type-erasure markers"""
    return tuple((a, 0 if a == 1 else b) for a, b in chain if a not in (4, 5))


def is_prefix(a, b):
    return len(a) <= len(b) and tuple(b[:len(a)]) == tuple(a)


def related(a, b):
    return is_prefix(a, b) or is_prefix(b, a)


def name(chain):
    sch, out = ROOT, "store"
    for kind, arg in chain:
        if kind == 0 and sch[0] == "struct" and arg < len(sch[1]):
            out += "." + sch[2][arg]
            sch = sch[1][arg]
        elif kind == 1:
            out += "?" if arg == 0 else "?u"
            sch = sch[1] if sch[0] == "opt" else INT
        elif kind == 2:
            out += "[%d]" % arg
            sch = sch[1] if sch[0] in ("vec", "keyed") else INT
        elif kind == 3:
            out += "[key %d]" % arg
            sch = sch[1] if sch[0] == "keyed" else INT
        elif kind == 4:
            out += {1: "{Field}", 2: "{ArcStore}"}.get(arg, "{ArcField}")
        elif kind == 5:
            out += "*"
            sch = sch[1] if sch[0] == "box" else INT
        elif kind == 6 and sch[0] == "enum" and arg // 10 < len(sch[1]) and arg % 10 < len(sch[1][arg // 10]):
            out += ".%s.%s" % (sch[2][arg // 10], sch[3][arg // 10][arg % 10])
            sch = sch[1][arg // 10][arg % 10]
        else:
            out += "<%d %d>" % (kind, arg)
    return out


def diff_paths(sch, old, new, pre):
    """reference for Patch: the fields whose value changed, as the finest paths at which the
    two trees differ (a vector whose length changes, or an option that appears/disappears,
    changes as a whole)"""
    if sch[0] == "unit":
        return []
    if sch[0] in ("int", "box", "enum"):
        return [] if old == new else [pre]
    if sch[0] in ("struct", "tuple"):
        out = []
        for i, s in enumerate(sch[1]):
            out += diff_paths(s, old[i], new[i], pre + ((0, i),))
        return out
    if sch[0] == "opt":
        if not old and not new:
            return []
        if not old or not new:
            return [pre]
        return diff_paths(sch[1], old[0], new[0], pre + ((1, 0),))
    if sch[0] == "keyed":
        # items are fields by KEY: with the key sequence unchanged, the items that changed
        if [x[0] for x in old] != [x[0] for x in new]:
            return [pre]
        out = []
        for o, n in zip(old, new):
            out += diff_paths(sch[1], o, n, pre + ((3, o[0]),))
        return out
    if not old and not new:
        return []
    if not old or not new:
        return [pre]
    out = []
    for i in range(min(len(old), len(new))):
        out += diff_paths(sch[1], old[i], new[i], pre + ((2, i),))
    if len(old) != len(new):
        out.append(pre)
    return out


# ------------------------------------------------------------------------------------------ values
def rnd_int(rng):
    return rng.randint(1, 999)


def rnd_value(rng, sch, size=2, keys=None):
    if sch[0] == "int":
        return rnd_int(rng)
    if sch[0] == "unit":
        return []
    if sch[0] == "box":
        return rnd_value(rng, sch[1], size)
    if sch[0] in ("struct", "tuple"):
        return [rnd_value(rng, s, size) for s in sch[1]]
    if sch[0] == "enum":
        a = rng.randrange(len(sch[1]))
        return [a] + [rnd_value(rng, s, size) for s in sch[1][a]]
    if sch[0] == "opt":
        return [] if rng.random() < 0.3 else [rnd_value(rng, sch[1], size)]
    if sch[0] == "vec":
        return [rnd_value(rng, sch[1], size) for _ in range(rng.randint(0, size))]
    ids = rng.sample(range(1, 30), rng.randint(0, size + 1))
    return [keyed_item(rng, k, sch[1]) for k in ids]


def keyed_item(rng, k, sch=None):
    v = rnd_value(rng, sch or ITEM)
    v[0] = k
    return v


def mutate(rng, sch, v, top=True):
    """a new value for a field currently holding v.  Keyed collections below the written
    field keep their key sequence (only their own write guard may restructure them); a
    keyed collection written directly (top) is reordered / grown / shrunk."""
    if sch[0] == "int":
        return v + rng.randint(1, 5)
    if sch[0] == "unit":
        return v
    if sch[0] == "box":
        return mutate(rng, sch[1], v, False)
    if sch[0] in ("struct", "tuple"):
        out = list(v)
        idxs = [i for i in range(len(sch[1])) if not (is_item(sch) and i == 0) and sch[1][i] is not UNIT]
        for i in rng.sample(idxs, rng.randint(1, len(idxs))):
            out[i] = mutate(rng, sch[1][i], v[i], False)
        return out
    if sch[0] == "enum":
        fields = sch[1][v[0]]
        if not fields or rng.random() < 0.35:
            while True:
                new = rnd_value(rng, sch)
                if new != v:
                    return new
        out = list(v)
        for i in rng.sample(range(len(fields)), rng.randint(1, len(fields))):
            out[1 + i] = mutate(rng, fields[i], v[1 + i], False)
        return out
    if sch[0] == "opt":
        r = rng.random()
        if not v:
            return [rnd_value(rng, sch[1])] if r < 0.8 else []
        if r < 0.25:
            return []
        return [mutate(rng, sch[1], v[0], False)]
    if sch[0] == "vec":
        r = rng.random()
        out = list(v)
        if r < 0.3 or not out:
            if len(out) < 4:
                out.insert(rng.randint(0, len(out)), rnd_value(rng, sch[1]))
            return out if out != v else out + [rnd_value(rng, sch[1])]
        if r < 0.5:
            del out[rng.randrange(len(out))]
            return out
        if r < 0.6:
            return []
        i = rng.randrange(len(out))
        out[i] = mutate(rng, sch[1], out[i], False)
        return out
    # keyed
    if not top:
        return [mutate(rng, sch[1], it, False) if rng.random() < 0.5 else it for it in v]
    return keyed_change(rng, v, rng.choice(["insert", "remove", "reorder", "mixed", "mixed", "replace"]), sch=sch[1])


def fresh_key(rng, used):
    while True:
        k = rng.randint(1, 60)
        if k not in used:
            return k


def keep_old_items(old, new):
    """an item whose key is in the collection before and after one write keeps its content (a
    key removed and added again within one write is, for FieldKeys, a key that stayed: the
    collections nested in the item would change their keys through an ancestor's guard)"""
    olds = dict((x[0], x) for x in old)
    return [olds.get(x[0], x) for x in new]


def keyed_change(rng, v, how, ever=(), sch=None):
    """a restructured copy of the keyed collection v (item schema sch); items that stay keep
    their content (so the collections nested in them keep their keys)"""
    return keep_old_items(v, _keyed_change(rng, v, how, ever, sch))


def _keyed_change(rng, v, how, ever=(), sch=None):
    sch = sch or ITEM
    out = list(v)
    used = set(it[0] for it in v)
    if how == "insert" or (not out and how in ("remove", "reorder")):
        k = fresh_key(rng, used) if rng.random() < 0.7 or not ever else rng.choice(list(ever))
        if k in used:
            k = fresh_key(rng, used)
        out.insert(rng.randint(0, len(out)), keyed_item(rng, k, sch))
    elif how == "remove":
        del out[rng.randrange(len(out))]
    elif how == "reorder":
        if len(out) < 2:
            out.insert(0, keyed_item(rng, fresh_key(rng, used), sch))
        else:
            while out == list(v):
                rng.shuffle(out)
    elif how == "replace":
        n = rng.randint(0, 3)
        out = [keyed_item(rng, k, sch) for k in rng.sample([k for k in range(1, 60) if k not in used], n)]
    else:
        for _ in range(rng.randint(1, 3)):
            out = _keyed_change(rng, out, rng.choice(["insert", "remove", "reorder", "insert"]), ever, sch)
    return out


def rich_init(rng):
    """a store in which every container is populated"""
    def leaf():
        return [rnd_int(rng), [], rnd_int(rng)]
    def tags():
        return [[k, rnd_int(rng)] for k in rng.sample(range(1, 30), rng.randint(1, 2))]
    def items(n):
        return [[k, rnd_int(rng), leaf(), tags()] for k in rng.sample(range(1, 30), n)]
    def choice():
        return rng.choice([[1, rnd_int(rng), leaf()], [2, rnd_int(rng), rnd_int(rng)]])
    def sub():
        return [[], rnd_int(rng), leaf(), [rnd_int(rng) for _ in range(rng.randint(1, 2))], leaf(),
                [rnd_int(rng), rnd_int(rng)], choice()]
    mid = [rnd_int(rng), leaf(), [leaf()], items(rng.randint(2, 3))]
    return [rnd_int(rng), mid, [sub()], [sub() for _ in range(2)], items(rng.randint(2, 3)), choice()]


def writable(chain, tree):
    """may the generator write through this chain?  (not the key field of a keyed item)"""
    j, sch, _ = reach(tree, chain)
    if j != len(chain):
        return False
    t = tup(chain)
    if len(t) >= 2 and t[-1] == (0, 0) and t[-2][0] == 3:
        return False
    return True


def untracked_ok(sch, old, new, exact=False):
    """may this write be an untracked one?  An untracked write leaves the readers it concerns
    subscribed to what they read before.  When it changes the key SET of a keyed collection, which
    path segment a new key takes over - and so which of those left-behind readers a later write
    reaches - depends on the hash order of FieldKeys unless at most one key goes and one comes
    per update (family keyed-exact): elsewhere an untracked write to a keyed collection only
    reorders it / changes items in place."""
    if sch[0] != "keyed" or exact:
        return True
    return set(x[0] for x in old) == set(x[0] for x in new)


def vary_unwrap(rng, chain, p=0.3):
    """some `.unwrap()` steps become `.map_untracked(|f| f)` (same subfield)"""
    return [list(U1) if st[0] == 1 and rng.random() < p else st for st in chain]


def rnd_orders(rng, n):
    out = []
    for _ in range(n):
        if rng.random() < 0.4:
            out.append([[], []])
        else:
            out.append([[rng.randint(0, 7) for _ in range(rng.randint(0, 4))],
                        [rng.randint(0, 7) for _ in range(rng.randint(0, 4))]])
    return out


def rnd_sched(rng):
    if rng.random() < 0.65:
        return []
    return [rng.randint(0, 9) for _ in range(rng.randint(1, 6))]


def step_schema(sch, st):
    kind, arg = st
    if kind == 4:
        return sch
    if sch[0] == "struct":
        return sch[1][arg]
    if sch[0] == "enum":
        return sch[1][arg // 10][arg % 10]
    return sch[1]


def schema_at(chain):
    sch = ROOT
    for st in chain:
        sch = step_schema(sch, st)
    return sch


def erase_randomly(rng, chain, p=0.25):
    """insert type-erasure markers: the field reached so far is handed on as an ArcField / a
    Field; the chain may start from the ArcStore handle"""
    if rng.random() > p:
        return chain
    out, sch = [], ROOT
    if rng.random() < 0.3:
        out.append(list(EA))
    for st in list(chain) + [None]:
        if sch[0] != "keyed" and rng.random() < 0.4:
            out.append(list(rng.choice([E, EF])))
        if st is None:
            break
        out.append(st)
        sch = step_schema(sch, st)
    return out


READ_HOWS = [0, 0, 2, 3, 4, 5, 8]
WRITE_HOWS = [0, 0, 0, 1, 2, 3, 4]      # try_write / Set / Update / maybe_update(true) / StoreField::writer
UNTRACKED_HOWS = [0, 1, 2]              # try_write_untracked / maybe_update(false) / try_update_untracked


def mk(init, readers, steps, sched, orders, kind, rng=None):
    """readers whose chain addresses a collection may iterate over it (iter_unkeyed / keyed
    into_iter, forwards, reversed or from both ends) instead of reading it as a whole; a
    reader may keep the handle it built in its first run (mode 1) instead of building the
    accessors afresh in every run"""
    hows, kinds, modes = [], [], []
    for rd in readers:
        how, k, mode = 0, 0, 0
        if rng is not None and well_typed(rd):
            how = rng.choice(READ_HOWS)
            what = schema_at(rd)[0]
            if what in ("vec", "keyed") and rng.random() < 0.5:
                how = rng.choice([1, 1, 9, 10])
            if what == "opt" and rng.random() < 0.6:
                how = rng.choice([6, 7])
            if what == "enum" and rng.random() < 0.45:
                how = rng.choice([11, 12, 13])
            if kind != "keyed-exact":
                k = rng.choice([0, 0, 0, 1, 1, 2, 3, 4])
            if rng.random() < 0.3:
                mode = 1
        hows.append(how)
        kinds.append(k)
        modes.append(mode)
    if rng is not None:
        if kind != "keyed-exact":
            readers = [erase_randomly(rng, rd) if well_typed(rd) else rd for rd in readers]
            steps = [[st[0], erase_randomly(rng, st[1], 0.15)] + st[2:] if st[0] in (0, 1, 5) else st for st in steps]
        readers = [vary_unwrap(rng, rd) for rd in readers]
        out = []
        for st in steps:
            if st[0] in (0, 1, 5):
                st = [st[0], vary_unwrap(rng, st[1], 0.15)] + st[2:]
            if st[0] == 0 and len(st) == 3:
                st = st + [rng.choice(WRITE_HOWS)]
            elif st[0] == 5 and len(st) == 3:
                st = st + [rng.choice(UNTRACKED_HOWS)]
            out.append(st)
        steps = out
        if any(st[0] == 5 for st in steps):
            # a type-erased handle of a keyed item caches the item's path; kept across an
            # UNTRACKED removal and re-insertion of its key (of which the reader is not told)
            # it would go on using the old path: outside the property (the reader of a removed
            # key is dropped), so such a handle is not kept
            def cached_key_path(rd):
                ks = [i for i, st in enumerate(rd) if st[0] == 3]
                return bool(ks) and any(st[0] == 4 for st in rd[ks[0]:])
            modes = [0 if cached_key_path(rd) else m for rd, m in zip(readers, modes)]
    if 3 in kinds:
        # the effect behind a Memo is polled a second time when the memo's value changed (it is
        # marked dirty while it runs): harmless noise under FIFO, but it shifts a scheduled order
        sched = []
    return dict(case=C.norm([0, init, readers, steps, sched, orders, hows, kinds, modes]), kind=kind, compare=True)


# ------------------------------------------------------------------------------------------ families
def gen_allpairs(rng, chunk=9):
    init = rich_init(rng)
    chains = all_chains(init)
    readers = list(chains)
    rng.shuffle(readers)
    ws = [c for c in chains if writable(c, init)]
    rng.shuffle(ws)
    for a in range(0, len(ws), chunk):
        tree = init
        steps = []
        for w in ws[a:a + chunk]:
            j, sch, v = reach(tree, w)
            if j != len(w):
                continue
            # keep the shape: every reader stays reachable, so all pairs stay meaningful
            new = mutate_same_shape(rng, sch, v)
            steps.append([0, w, new])
            tree = set_at(tree, w, new)
        yield mk(init, readers, steps, [], rnd_orders(rng, len(steps)), "allpairs", rng)


def mutate_same_shape(rng, sch, v):
    if sch[0] == "int":
        return v + rng.randint(1, 5)
    if sch[0] == "unit":
        return v
    if sch[0] == "box":
        return mutate_same_shape(rng, sch[1], v)
    if sch[0] in ("struct", "tuple"):
        return [x if (is_item(sch) and i == 0) else mutate_same_shape(rng, s, x)
                for i, (s, x) in enumerate(zip(sch[1], v))]
    if sch[0] == "enum":
        return [v[0]] + [mutate_same_shape(rng, s, x) for s, x in zip(sch[1][v[0]], v[1:])]
    return [mutate_same_shape(rng, sch[1], x) for x in v]


def pick_readers(rng, tree, n, focus=None):
    chains = all_chains(tree)
    out = []
    if focus:
        out += [c for c in chains if related(c, focus)][:]
        rng.shuffle(out)
        out = out[: max(2, n // 2)]
    while len(out) < n:
        c = rng.choice(chains)
        if rng.random() < 0.2:
            # a chain that is not reachable now (may become so later)
            c2 = c + rng.choice([[U], [I(rng.randint(0, 3))], [K(rng.randint(1, 60))],
                                 [U, F(1)], [I(rng.randint(0, 3)), F(1)], [K(rng.randint(1, 60)), F(1)],
                                 [V(1, 0)], [V(1, 1), F(0)], [V(2, 1)], [K(rng.randint(1, 60)), F(3), K(rng.randint(1, 8))]])
            if well_typed(c2):
                c = c2
        out.append(c)
    rng.shuffle(out)
    return out


def gen_random(rng, n_steps):
    init = rnd_value(rng, ROOT) if rng.random() < 0.6 else rich_init(rng)
    tree = init
    readers = pick_readers(rng, init, rng.randint(3, 14))
    steps = []
    for _ in range(n_steps):
        r = rng.random()
        chains = [c for c in all_chains(tree) if writable(c, tree)]
        if r < 0.12:
            steps.append([4, rng.randrange(len(readers)), 0])
            continue
        if r < 0.2 and rng.random() < 0.5:
            # an unreachable write: no-op
            c = rng.choice(chains) + [rng.choice([U, I(5), K(77)])]
            if well_typed(c) and reach(tree, c)[0] != len(c):
                steps.append([0, c, 0])
                continue
        # prefer paths related to some reader
        cand = [c for c in chains if any(related(c, rd) for rd in readers)]
        w = rng.choice(cand if cand and rng.random() < 0.8 else chains)
        j, sch, v = reach(tree, w)
        if r > 0.85 and not contains_keyed(sch):
            new = mutate(rng, sch, v)
            steps.append([1, w, new])
        elif r > 0.8:
            new = patch_value(rng, sch, v)
            steps.append([1, w, new])
        else:
            new = mutate(rng, sch, v)
            # now and then an untracked write (nobody is told; later notifications show the value)
            steps.append([5 if r < 0.28 and untracked_ok(sch, v, new) else 0, w, new])
        tree = set_at(tree, w, new)
    return mk(init, readers, steps, rnd_sched(rng), rnd_orders(rng, len(steps)), "random", rng)


def contains_keyed(sch):
    if sch[0] == "keyed":
        return True
    if sch[0] in ("struct", "tuple"):
        return any(contains_keyed(s) for s in sch[1])
    if sch[0] == "enum":
        return any(contains_keyed(s) for fs in sch[1] for s in fs)
    if sch[0] in ("opt", "vec", "box"):
        return contains_keyed(sch[1])
    return False


def patch_value(rng, sch, v, keyed_items=False):
    """a new value that changes only some leaves and leaves keyed collections untouched
    (keyed_items: their items may change in place, keys and order kept)"""
    if keyed_items:
        if sch[0] == "keyed":
            return [patch_value(rng, sch[1], x, True) for x in v]
        if sch[0] == "struct":
            return [x if (is_item(sch) and i == 0) else patch_value(rng, s_, x, True)
                    for i, (s_, x) in enumerate(zip(sch[1], v))]
    if sch[0] == "unit":
        return v
    if sch[0] == "int":
        return v + (rng.randint(1, 5) if rng.random() < 0.5 else 0)
    if sch[0] == "box":
        return patch_value(rng, sch[1], v)
    if sch[0] in ("struct", "tuple"):
        return [x if (is_item(sch) and i == 0) else patch_value(rng, s, x)
                for i, (s, x) in enumerate(zip(sch[1], v))]
    if sch[0] == "enum":
        return mutate(rng, sch, v, False) if rng.random() < 0.4 else v
    if sch[0] == "keyed":
        return v
    if sch[0] == "opt":
        r = rng.random()
        if not v:
            return [rnd_value(rng, sch[1])] if r < 0.4 else []
        return [] if r < 0.15 else [patch_value(rng, sch[1], v[0])]
    out = [patch_value(rng, sch[1], x) for x in v]
    r = rng.random()
    if r < 0.15 and out:
        out.pop()
    elif r < 0.3 and len(out) < 4:
        out.append(rnd_value(rng, sch[1]))
    elif r < 0.35:
        out = []
    return out


def gen_patch(rng, n_steps):
    init = rich_init(rng)
    tree = init
    readers = pick_readers(rng, init, rng.randint(6, 16))
    steps = []
    for _ in range(n_steps):
        chains = [c for c in all_chains(tree) if writable(c, tree)]
        chains = [c for c in chains if not any(s[0] == 3 for s in c)]
        w = rng.choice([c for c in chains if len(c) <= 2] or chains)
        j, sch, v = reach(tree, w)
        new = patch_value(rng, sch, v)
        steps.append([1, w, new])
        tree = set_at(tree, w, new)
        if rng.random() < 0.3:
            steps.append([4, rng.randrange(len(readers)), 0])
    return mk(init, readers, steps, rnd_sched(rng), rnd_orders(rng, len(steps)), "patch", rng)


LARGE_SIZES = [6, 7, 8, 13, 14, 15, 27, 28, 29, 40]     # around the growth steps of the FxHashMap of FieldKeys


def gen_huge(rng):
    """a vector with more than 65536 items (store.v[0].v: Vec<i64>): readers of item i, of item
    i + 65536 (the two positions agree modulo 2^16) and of a neighbour; writes and patches at
    both positions, a patch that also changes the length.  Path segments are positions: two
    positions of one collection must never share their triggers, however far apart."""
    init = rich_init(rng)
    base = [F(3), I(0), F(3)]
    n = rng.randint(65537, 70000)
    i = rng.randint(0, n - 65537)
    j = i + 65536
    vals = [(x * 7919) % 997 + 1 for x in range(n)]
    init = set_at(init, base, vals)
    tree = init
    readers = [base + [I(i)], base + [I(j)], base + [I(i + 1)], base + [I(n - 1)], [F(3), I(0), F(1)], [F(0)],
               base + [I(n)]]
    rng.shuffle(readers)
    steps = []
    def write(pos):
        nonlocal tree
        w = base + [I(pos)]
        new = reach(tree, w)[2] + rng.randint(1, 5)
        steps.append([0, w, new])
        tree = set_at(tree, w, new)
    def patch(changes, grow=0):
        nonlocal tree
        cur = list(reach(tree, base)[2])
        for pos in changes:
            cur[pos] += rng.randint(1, 5)
        cur += [rnd_int(rng) for _ in range(grow)]
        steps.append([1, base, cur])
        tree = set_at(tree, base, cur)
    order = [lambda: write(i), lambda: write(j), lambda: patch([j]), lambda: patch([i]),
             lambda: patch([rng.choice([i, j])], grow=1)]
    rng.shuffle(order)
    for f in order[:rng.randint(3, 5)]:
        f()
    return mk(init, readers, steps, rnd_sched(rng), rnd_orders(rng, len(steps)), "huge", rng)


def gen_patch_keyed(rng):
    """OUTSIDE the assumption of family patch (exercises the open finding F-C16-n): Patch::patch
    of a keyed collection (or of an ancestor) whose items changed in place, before and after the
    collection was restructured through its own guard"""
    init = rich_init(rng)
    fld = rng.choice([[F(4)], [F(1), F(3)]])
    tree = init
    cur = reach(tree, fld)[2]
    readers = [list(fld)] + [fld + [K(it[0])] + rng.choice([[F(1)], [F(2), F(0)], [], [F(1)]]) for it in cur]
    readers += pick_readers(rng, tree, 2)
    rng.shuffle(readers)
    steps = []
    for _ in range(rng.randint(2, 5)):
        r = rng.random()
        cur = reach(tree, fld)[2]
        if r < 0.35:
            new = keyed_change(rng, cur, rng.choice(["reorder", "insert", "remove", "reorder"]))
            steps.append([0, fld, new])
            tree = set_at(tree, fld, new)
        else:
            w = rng.choice([fld, fld[:-1], fld])
            j, sch, v = reach(tree, w)
            new = patch_value(rng, sch, v, True)
            steps.append([1, w, new])
            tree = set_at(tree, w, new)
    return mk(init, readers, steps, [], rnd_orders(rng, len(steps)), "patch-keyed", rng)


def gen_keyed(rng, n_steps, exact=False, nested=False, large=False):
    """histories of one keyed collection: restructure it through its own guard, write to items.
    nested: the collection is the one inside an item of a keyed collection (store.k[key].kk);
    large: it starts with many items"""
    init = rich_init(rng)
    fld = rng.choice([[F(4)], [F(1), F(3)]])
    isch = ITEM
    if nested:
        fld = fld + [K(rng.choice(reach(init, fld)[2])[0]), F(3)]
        isch = TAG
    if large:
        n = rng.choice(LARGE_SIZES)
        init = set_at(init, fld, [keyed_item(rng, k, isch) for k in rng.sample(range(1, 58), n)])
    elif rng.random() < 0.15:
        init = set_at(init, fld, [])
    tree = init
    ever = set(it[0] for it in reach(tree, fld)[2])
    # readers: the collection, its items and item sub-fields (also of keys that come later), a few others
    readers = [list(fld)]
    future = [fresh_key(rng, ever) for _ in range(3)]
    suffixes = [[], [F(1)], [F(0)]] if nested else [[], [F(1)], [F(2)], [F(2), F(0)], [F(0)], [F(3)]]
    watched = list(ever) if not large else rng.sample(sorted(ever), 4)
    for k in watched + future:
        for suffix in rng.sample(suffixes, rng.randint(1, min(3, len(suffixes)))):
            readers.append(fld + [K(k)] + suffix)
    readers += pick_readers(rng, tree, rng.randint(1, 4))
    rng.shuffle(readers)
    steps = []
    live_since_report = None
    for _ in range(n_steps):
        r = rng.random()
        cur = reach(tree, fld)[2]
        if r < 0.4:
            if exact:
                how = rng.choice(["insert", "remove", "reorder", "swap1"])
                new = list(cur)
                used = set(it[0] for it in cur)
                if how in ("insert", "swap1") or not new:
                    if how == "swap1" and new:
                        del new[rng.randrange(len(new))]
                    pool = [k for k in future if k not in used] or [fresh_key(rng, used | ever)]
                    k = rng.choice(pool)
                    new.insert(rng.randint(0, len(new)), keyed_item(rng, k, isch))
                elif how == "remove":
                    del new[rng.randrange(len(new))]
                else:
                    rng.shuffle(new)
            else:
                how = rng.choice(["insert", "remove", "reorder", "mixed", "mixed"])
                new = keyed_change(rng, cur, how, tuple(ever) + tuple(future), isch)
            ever |= set(it[0] for it in new)
            # now and then without notification (the keys are refreshed all the same)
            steps.append([5 if rng.random() < 0.12 and untracked_ok(("keyed", isch), cur, new, exact) else 0, fld, new])
            tree = set_at(tree, fld, new)
            if live_since_report is not None:
                live_since_report &= set(it[0] for it in new)
        elif r < 0.75 and cur:
            it = rng.choice(cur)
            suffix = rng.choice([[], [F(1)]] if nested else [[], [F(1)], [F(2)], [F(2), F(0)], [F(2), F(2)]])
            w = fld + [K(it[0])] + suffix
            j, sch, v = reach(tree, w)
            new = mutate_same_shape(rng, sch, v)
            steps.append([0, w, new])
            tree = set_at(tree, w, new)
        elif r < 0.85:
            ks = sorted(live_since_report) if live_since_report is not None else []
            steps.append([3, fld, ks])
            live_since_report = set(it[0] for it in cur)
        elif r < 0.9 and exact and cur:
            steps.append([2, fld + [K(rng.choice(cur)[0])], 0])
        elif r < 0.93:
            steps.append([4, rng.randrange(len(readers)), 0])
        elif r < 0.95:
            steps.append([6, fld, 0])       # update_keys() by hand: changes nothing when the keys are fresh
        else:
            # a write through an ancestor that keeps the key sequence
            w = fld[:-1]
            j, sch, v = reach(tree, w)
            new = mutate(rng, sch, v)
            new = set_keys_like(sch, v, new)
            steps.append([0, w, new])
            tree = set_at(tree, w, new)
    return mk(init, readers, steps, [] if exact else rnd_sched(rng),
              [[[], []]] * len(steps) if exact else rnd_orders(rng, len(steps)),
              "keyed-exact" if exact else "keyed-nested" if nested else "keyed-large" if large else "keyed", rng)


def nested_item(rng, k):
    """an item whose nested keyed collection draws its keys from a small pool, so that the items
    following each other in a recycled slot have overlapping keys in different positions"""
    return [k, rnd_int(rng), [rnd_int(rng), [], rnd_int(rng)],
            [[t, rnd_int(rng)] for t in rng.sample(range(1, 8), rng.randint(0, 4))]]


def gen_nested(rng, n_steps):
    """keyed inside keyed: the outer collection loses and gains items through its own guard (a new
    item takes over the path segment of a removed one), the collections nested in the items
    are restructured through their own guards, nested items are read and written by key"""
    init = rich_init(rng)
    outer = rng.choice([[F(4)], [F(1), F(3)]])
    init = set_at(init, outer, [nested_item(rng, k) for k in rng.sample(range(1, 30), rng.randint(1, 3))])
    tree = init
    okeys = [it[0] for it in reach(tree, outer)[2]]
    future = []
    while len(future) < 3:
        k = fresh_key(rng, set(okeys) | set(future))
        future.append(k)
    readers = [list(outer)]
    for k in okeys + future:
        readers.append(outer + [K(k), F(3)])
        for t in rng.sample(range(1, 8), 3):
            readers.append(outer + [K(k), F(3), K(t)] + rng.choice([[], [F(1)]]))
        if rng.random() < 0.5:
            readers.append(outer + [K(k)] + rng.choice([[], [F(1)]]))
    rng.shuffle(readers)
    readers = readers[:rng.randint(6, 14)]
    steps = []
    for _ in range(n_steps):
        r = rng.random()
        cur = reach(tree, outer)[2]
        live = [it[0] for it in cur]
        if r < 0.3 or not cur:
            new = list(cur)
            how = rng.choice(["remove+insert", "remove", "insert", "reorder", "remove+insert"])
            if "remove" in how and new:
                del new[rng.randrange(len(new))]
            if "insert" in how or not new:
                pool = [k for k in future if k not in [x[0] for x in new]] or [fresh_key(rng, set(live) | set(future))]
                new.insert(rng.randint(0, len(new)), nested_item(rng, rng.choice(pool)))
            if how == "reorder":
                rng.shuffle(new)
            new = keep_old_items(cur, new)
            steps.append([0, outer, new])
            tree = set_at(tree, outer, new)
        elif r < 0.5:
            k = rng.choice(live)
            fld = outer + [K(k), F(3)]
            kk = reach(tree, fld)[2]
            new = list(kk)
            how = rng.choice(["insert", "remove", "reorder", "insert"])
            if how == "remove" and new:
                del new[rng.randrange(len(new))]
            elif how == "reorder" and len(new) > 1:
                rng.shuffle(new)
            else:
                free = [t for t in range(1, 8) if t not in [x[0] for x in new]]
                if free:
                    new.insert(rng.randint(0, len(new)), [rng.choice(free), rnd_int(rng)])
            steps.append([0, fld, new])
            tree = set_at(tree, fld, new)
        elif r < 0.8:
            k = rng.choice(live)
            kk = reach(tree, outer + [K(k), F(3)])[2]
            if kk and rng.random() < 0.8:
                w = outer + [K(k), F(3), K(rng.choice(kk)[0])] + rng.choice([[F(1)], []])
            else:
                w = outer + [K(k), F(1)]
            j, sch, v = reach(tree, w)
            new = mutate_same_shape(rng, sch, v)
            steps.append([0, w, new])
            tree = set_at(tree, w, new)
        elif r < 0.9:
            steps.append([3, outer + [K(rng.choice(live)), F(3)], []])
        else:
            steps.append([4, rng.randrange(len(readers)), 0])
    return mk(init, readers, steps, rnd_sched(rng), rnd_orders(rng, len(steps)), "nested", rng)


def set_keys_like(sch, old, new):
    return new  # mutate() already keeps the key sequence of keyed collections below the written field


def gen_basic(rng):
    """small cases first (they give the smallest replays): two or three readers, one or two
    writes, on a populated store; every kind of relation between written and read path"""
    init = rich_init(rng)
    chains = all_chains(init)
    ws = [c for c in chains if writable(c, init)]
    for w in ws:
        rel = [c for c in chains if related(c, w)]
        unrel = [c for c in chains if not related(c, w)]
        readers = rng.sample(rel, min(len(rel), 2)) + rng.sample(unrel, min(len(unrel), 2))
        rng.shuffle(readers)
        j, sch, v = reach(init, w)
        new = mutate_same_shape(rng, sch, v)
        yield mk(init, readers, [[0, w, new]], [], [[[], []]], "basic")
    # writes of the store itself through both of its handles: every tracked and untracked entry point
    new = mutate_same_shape(rng, ROOT, init)
    for root in ([], [list(EA)]):
        readers = [[], [F(0)], [F(1), F(0)], [list(EA)]]
        for how in range(4):
            yield mk(init, readers, [[0, root, new, how], [0, [F(0)], new[0] + 1, 0]], [], [[[], []]] * 2, "basic")
        for how in range(3):
            yield mk(init, readers, [[5, root, new, how], [0, [F(0)], new[0] + 1, 0]], [], [[[], []]] * 2, "basic")


def gen_keyed_small(rng):
    """short keyed histories: change the collection once or twice, write to one item, report"""
    init = rich_init(rng)
    fld = rng.choice([[F(4)], [F(1), F(3)]])
    tree = init
    cur = reach(tree, fld)[2]
    readers = [fld + [K(it[0])] + rng.choice([[], [F(1)], [F(2), F(0)]]) for it in cur] + [list(fld)]
    rng.shuffle(readers)
    steps = []
    if rng.random() < 0.5:
        steps.append([3, fld, []])
    for _ in range(rng.randint(1, 3)):
        cur = reach(tree, fld)[2]
        new = keyed_change(rng, cur, rng.choice(["insert", "remove", "reorder", "insert"]))
        steps.append([0, fld, new])
        tree = set_at(tree, fld, new)
    cur = reach(tree, fld)[2]
    if cur:
        it = rng.choice(cur)
        w = fld + [K(it[0])] + rng.choice([[F(1)], [F(2), F(2)], []])
        j, sch, v = reach(tree, w)
        steps.append([0, w, mutate_same_shape(rng, sch, v)])
    steps.append([3, fld, []])
    return mk(init, readers, steps, [], rnd_orders(rng, len(steps)), "keyed", rng)


def gen_keyed_ancestor(rng, shrink=False):
    """OUTSIDE the assumption of the other families (exercises the open finding F-C16-e): a keyed
    collection is reordered / partly replaced by a write through an ancestor (store, store.m),
    which does not refresh its keys; then its items are read and written"""
    init = rich_init(rng)
    fld = rng.choice([[F(4)], [F(1), F(3)]])
    tree = init
    cur = reach(tree, fld)[2]
    readers = [list(fld)] + [fld + [K(it[0])] + rng.choice([[F(1)], [F(2), F(0)], []]) for it in cur]
    readers += pick_readers(rng, tree, 2)
    rng.shuffle(readers)
    steps = []
    if rng.random() < 0.5:
        it = rng.choice(cur)
        w = fld + [K(it[0]), F(1)]
        steps.append([0, w, it[1] + 1])
        tree = set_at(tree, w, it[1] + 1)
    anc = fld[:-1] if rng.random() < 0.6 else []
    j, sch, v = reach(tree, anc)
    cur = reach(tree, fld)[2]
    new_items = list(cur)
    if shrink:
        del new_items[rng.randrange(len(new_items)):]
    else:
        while new_items == cur:
            rng.shuffle(new_items)
            if rng.random() < 0.3:
                new_items[rng.randrange(len(new_items))] = keyed_item(rng, fresh_key(rng, set(x[0] for x in cur)))
    new = set_sub(sch, v, fld[len(anc):], new_items)
    steps.append([0, anc, new])
    tree = set_at(tree, anc, new)
    for _ in range(rng.randint(1, 3)):
        cur = reach(tree, fld)[2]
        r = rng.random()
        if r < 0.6 and cur and not shrink:
            it = rng.choice(cur)
            w = fld + [K(it[0]), F(1)]
            steps.append([0, w, it[1] + 1])
            tree = set_at(tree, w, it[1] + 1)
        elif r < 0.75:
            steps.append([4, rng.randrange(len(readers)), 0])
        elif r < 0.85:
            steps.append([6, fld, 0])
        else:
            steps.append([3, fld, []])
    it = mk(init, readers, steps, [], [[[], []]] * len(steps), "keyed-ancestor")
    it["compare"] = not shrink
    return it


def set_sub(sch, v, rel, new):
    """v with the field at the relative struct path rel replaced"""
    if not rel:
        return new
    out = list(v)
    out[rel[0][1]] = set_sub(sch[1][rel[0][1]], v[rel[0][1]], rel[1:], new)
    return out


def generate(rng, tier):
    quick = tier == "quick"
    for _ in range(2 if quick else 20):
        for it in gen_basic(rng):
            yield it
    for _ in range(2 if quick else 12):
        yield gen_huge(rng)
    for _ in range(300 if quick else 6000):
        yield gen_keyed_small(rng)
    for _ in range(2500 if quick else 60000):
        yield gen_random(rng, rng.randint(2, 9))
    for _ in range(1500 if quick else 40000):
        yield gen_keyed(rng, rng.randint(4, 12))
    for _ in range(700 if quick else 15000):
        yield gen_keyed(rng, rng.randint(4, 12), exact=True)
    for _ in range(400 if quick else 8000):
        yield gen_keyed(rng, rng.randint(4, 10), nested=True)
    for _ in range(150 if quick else 3000):
        yield gen_keyed(rng, rng.randint(4, 10), large=True)
    for _ in range(600 if quick else 12000):
        yield gen_nested(rng, rng.randint(4, 12))
    for _ in range(700 if quick else 15000):
        yield gen_patch(rng, rng.randint(2, 6))
    for _ in range(6 if quick else 100):
        for it in gen_allpairs(rng):
            yield it
    for _ in range(40 if quick else 800):
        yield gen_keyed_ancestor(rng, shrink=rng.random() < 0.25)
    for _ in range(60 if quick else 1200):
        yield gen_patch_keyed(rng)


# ------------------------------------------------------------------------------------------ checks
def _flat_ok(x):
    return isinstance(x, list)


def valid_case(item):
    """generator preconditions (used by the shrinker): well-formed case; keyed collections
    change their key sequence only through a direct write; items keep their key; keys distinct"""
    try:
        c = item["case"]
        if len(c) not in (6, 7, 8, 9) or c[0] != 0:
            return False
        if len(c) >= 7 and not (isinstance(c[6], list) and all(x in range(14) for x in c[6])):
            return False
        if len(c) >= 8 and not (isinstance(c[7], list) and all(x in range(5) for x in c[7])):
            return False
        if len(c) >= 9 and not (isinstance(c[8], list) and all(x in (0, 1) for x in c[8])):
            return False
        tree, readers, steps = c[1], c[2], c[3]
        if not well_formed(ROOT, tree):
            return False
        def ok_chain(ch):
            return isinstance(ch, list) and all(isinstance(s, list) and len(s) == 2 and
                                                all(isinstance(x, int) and x >= 0 for x in s) and s[0] <= 6
                                                for s in ch) and well_typed(ch)
        if not all(ok_chain(rd) for rd in readers):
            return False
        if not (isinstance(c[4], list) and all(isinstance(x, int) and x >= 0 for x in c[4])):
            return False
        for st in steps:
            if len(st) not in (3, 4) or not isinstance(st[0], int):
                return False
            if len(st) == 4 and not (isinstance(st[3], int) and 0 <= st[3] <= 4):
                return False
            op = st[0]
            if op == 4:
                if not isinstance(st[1], int) or not (0 <= st[1] < len(readers)):
                    return False
                continue
            chain = st[1]
            if not ok_chain(chain):
                return False
            j, sch, v = reach(tree, chain)
            if op in (0, 1, 5):
                if j != len(chain):
                    continue
                if not well_formed(sch, st[2]):
                    return False
                t = tup(chain)
                if t and t[-1][0] == 3 and st[2][0] != t[-1][1]:
                    return False
                if len(t) >= 2 and t[-1] == (0, 0) and t[-2][0] == 3:
                    return False
                if item.get("kind") != "keyed-ancestor" and not keys_kept(sch, v, st[2], top=(op in (0, 5))):
                    return False
                if op == 5 and not untracked_ok(sch, v, st[2], item.get("kind") == "keyed-exact"):
                    return False
                tree = set_at(tree, chain, st[2])
            elif op == 3:
                if not (isinstance(st[2], list) and all(isinstance(x, int) for x in st[2])):
                    return False
        return True
    except Exception:
        return False


def well_formed(sch, v):
    if sch[0] == "int":
        return isinstance(v, int)
    if sch[0] == "unit":
        return v == []
    if sch[0] == "box":
        return well_formed(sch[1], v)
    if not isinstance(v, list):
        return False
    if sch[0] in ("struct", "tuple"):
        return len(v) == len(sch[1]) and all(well_formed(s, x) for s, x in zip(sch[1], v))
    if sch[0] == "enum":
        return (len(v) >= 1 and isinstance(v[0], int) and 0 <= v[0] < len(sch[1]) and
                len(v) == 1 + len(sch[1][v[0]]) and all(well_formed(s, x) for s, x in zip(sch[1][v[0]], v[1:])))
    if sch[0] == "opt":
        return len(v) <= 1 and all(well_formed(sch[1], x) for x in v)
    if sch[0] == "vec":
        return all(well_formed(sch[1], x) for x in v)
    ids = [x[0] for x in v if isinstance(x, list) and x]
    return all(well_formed(sch[1], x) for x in v) and len(set(ids)) == len(v)


def keys_kept(sch, old, new, top):
    """keyed collections strictly below the written field keep their key sequence"""
    if sch[0] == "keyed":
        if top:
            # written through its own guard: free to restructure; an item that stays keeps
            # the keys of the collections nested in it
            olds = dict((x[0], x) for x in old)
            return all(keys_kept(sch[1], olds[x[0]], x, False) for x in new if x[0] in olds)
        return [x[0] for x in old] == [x[0] for x in new] and \
            all(keys_kept(sch[1], o, n, False) for o, n in zip(old, new))
    if sch[0] == "struct":
        return all(keys_kept(s, o, n, False) for s, o, n in zip(sch[1], old, new))
    if sch[0] in ("opt", "vec"):
        if not contains_keyed(sch[1]):
            return True
        return len(old) == len(new) and all(keys_kept(sch[1], o, n, False) for o, n in zip(old, new))
    return True


def _oracle(item, impl):
    """independent of the Coq model: replays the history on a plain tree, decides from the
    prefix relation on accessor chains which readers must re-run, and what they must see.
    Returns None or (message, {"step": index or None, "reader": chain or None, "what": tag})"""
    if isinstance(impl, str):
        return ("panic / harness error: " + impl[:200], dict(step=None, reader=None, what="panic"))
    if not isinstance(impl, list) or not all(isinstance(ph, list) for ph in impl):
        return ("unreadable observation (diagnostics of /repo on the output?): %r" % (impl,), dict(step=None, reader=None, what="other"))
    c = item["case"]
    tree, readers, steps, sched = c[1], [tup(r) for r in c[2]], c[3], c[4]
    raw = c[2]
    kinds = c[7] if len(c) > 7 else [0] * len(raw)
    imm = lambda e: e < len(kinds) and kinds[e] == 1       # ImmediateEffect: runs inside the notification
    if len(impl) != len(steps) + 2:
        return ("observation has %d phases for %d steps" % (len(impl), len(steps)), dict(step=None, reader=None, what='other'))

    def expect_obs(tr, e):
        j, _, v = reach(tr, raw[e])
        return [j, v] if j == len(raw[e]) else [j]

    cur = {}
    pending = None
    # readers an untracked write has left behind (related to it, not re-run since): what they
    # are subscribed to no longer corresponds to the store; they are judged again (who is
    # notified) after their next run -- what they see when they run is always judged
    unsure = set()
    # initial phase: every reader runs once and sees the initial value
    ph = impl[0]
    ran = [r[0] for r in ph[1]]
    if sorted(set(ran)) != list(range(len(readers))):
        return ("initial phase: readers that ran = %r" % (ran,), dict(step=None, reader=None, what='other'))
    for e, obs in ph[1]:
        want = expect_obs(tree, e)
        if obs != want:
            return ("reader %d (%s) initially saw %r, the store holds %r" % (e, name(readers[e]), obs, want), dict(step=None, reader=readers[e], what='value'))
        cur[e] = readers[e] if len(want) == 2 else None

    for i, st in enumerate(steps):
        ph = impl[i + 1]
        wakes, runs = ph[0], ph[1]
        op = st[0]
        written = []          # abstract paths whose write guard was dropped / patch-notified
        order_path = None
        label = "step %d" % i
        allowed = None        # untracked write: who MAY be notified (nobody has to be)
        if op == 4:
            expected = {st[1]}
            label += " (poke reader %d)" % st[1]
        elif op in (0, 1, 5):
            chain = st[1]
            j, sch, old = reach(tree, chain)
            if j != len(chain):
                expected = set()
                label += " (unreachable %s)" % name(chain)
            else:
                if op == 0:
                    written = [tup(chain)]
                    order_path = tup(chain)
                    label += " (write %s)" % name(chain)
                elif op == 5:
                    written = [tup(chain)]
                    label += " (untracked write %s)" % name(chain)
                else:
                    written = diff_paths(sch, old, st[2], tup(chain))
                    label += " (patch %s: changed %s)" % (name(chain), [name(w) for w in written])
                tree = set_at(tree, chain, st[2])
                expected = set(e for e, p in cur.items() if p is not None and any(related(w, p) for w in written))
                if op == 5:
                    # the property speaks about notifying writes; of an explicitly untracked one it
                    # only follows that no UNRELATED reader is notified
                    allowed, expected = expected, set()
                if ph[2] != 1:
                    return (label + ": no write guard obtained", dict(step=i, reader=tup(st[1]), what='noguard'))
        else:
            expected = set()
        ran = [r[0] for r in runs]
        expected -= unsure
        for e in sorted(expected):
            if e not in ran:
                return ("%s: reader %d of %s was not notified" % (label, e, name(cur[e])), dict(step=i, reader=cur[e], what='missed'))
        for e in ran:
            if e not in (expected if allowed is None else allowed) and e not in unsure:
                what = name(cur[e]) if cur.get(e) is not None else "nothing in the store (chain %s cut short)" % name(readers[e])
                return ("%s: reader %d of %s was notified" % (label, e, what), dict(step=i, reader=(cur.get(e) or readers[e]), what='spurious'))
        if sorted(set(wakes)) != sorted(set(e for e in ran if not imm(e))):
            return ("%s: woken tasks %r but effects that ran %r" % (label, wakes, ran), dict(step=i, reader=None, what='other'))
        # readers of ancestors are woken before readers of descendants: for every pair of
        # notified readers whose paths are in the proper-prefix relation
        if order_path is not None:
            for a in sorted(expected):
                for d in sorted(expected):
                    if len(cur[a]) < len(cur[d]) and is_prefix(cur[a], cur[d]):
                        below = len(cur[a]) > len(order_path)   # both strictly below the written field
                        bad = None
                        if imm(a) != imm(d):
                            continue   # a synchronous and a scheduled subscriber: no common order
                        if imm(a):
                            if ran.index(a) > ran.index(d):
                                bad = "ran"
                        elif wakes.index(a) > wakes.index(d):
                            bad = "woken"
                        elif not sched and ran.index(a) > ran.index(d):
                            bad = "ran"
                        if bad:
                            f = ("%s: reader %d of descendant %s %s before reader %d of ancestor %s" % (
                                label, d, name(cur[d]), bad, a, name(cur[a])),
                                dict(step=i, reader=cur[d], what='order-below' if below else 'order'))
                            if not below:
                                return f
                            # known class (F-C16-g): remember it, keep checking everything else
                            pending = pending or f
        # every notified reader sees the value that was written
        for e, obs in runs:
            want = expect_obs(tree, e)
            if obs != want:
                return ("%s: reader %d (%s) saw %r, the store holds %r" % (label, e, name(readers[e]), obs, want), dict(step=i, reader=readers[e], what='value'))
            cur[e] = readers[e] if len(want) == 2 else None
            unsure.discard(e)
        if allowed is not None:
            unsure |= set(e for e in allowed if e not in ran)
        if op == 3 and isinstance(ph[2], list):
            pattern, same = ph[2]
            if pattern != list(range(len(pattern))):
                return ("%s: two live keys of %s share a path segment (pattern %r)" % (label, name(st[1]), pattern), dict(step=i, reader=tup(st[1]), what='segments'))
            if any(b == 0 for b in same):
                return ("%s: a key of %s changed its path segment while it stayed in the collection (%r for keys %r)" % (
                    label, name(st[1]), same, st[2]), dict(step=i, reader=tup(st[1]), what='segments'))
    if impl[-1] != tree:
        return ("final store value %r differs from the replayed history %r" % (impl[-1], tree), dict(step=None, reader=None, what='final'))
    return pending


def oracle(item, impl):
    r = _oracle(item, impl)
    return None if r is None else r[0]


def nontrivial(item, model):
    if isinstance(model, str):
        return False
    n = len(item["case"][2])
    for ph, st in zip(model[1:-1], item["case"][3]):
        if st[0] in (0, 1) and 0 < len(ph[1]) < n:
            return True
    return False


KEYED_FIELDS = [((0, 4),), ((0, 1), (0, 3))]


def keyed_paths(sch, v, pre=()):
    """{abstract path of every keyed collection in the value: its key sequence}"""
    out = {}
    if sch[0] == "struct":
        for i, s in enumerate(sch[1]):
            out.update(keyed_paths(s, v[i], pre + ((0, i),)))
    elif sch[0] == "opt":
        if v:
            out.update(keyed_paths(sch[1], v[0], pre + ((1, 0),)))
    elif sch[0] == "vec":
        for i, x in enumerate(v):
            out.update(keyed_paths(sch[1], x, pre + ((2, i),)))
    elif sch[0] == "keyed":
        out[pre] = [x[0] for x in v]
        for x in v:
            out.update(keyed_paths(sch[1], x, pre + ((3, x[0]),)))
    elif sch[0] == "enum":
        for i, s in enumerate(sch[1][v[0]]):
            out.update(keyed_paths(s, v[1 + i], pre + ((6, 10 * v[0] + i),)))
    return out


def stale_fields(item):
    """keyed collections (also nested ones) whose key sequence was changed by a write / patch
    through a strict ancestor (so that update_keys() did not run): {abstract path of the
    collection: index of the first such step}.  (A later write through the collection's own guard
    or an explicit update_keys() refreshes the keys, but what went wrong before -- a reader that
    saw another item, a write that landed in another item -- stays wrong.)"""
    c = item["case"]
    tree, out = c[1], {}
    for i, st in enumerate(c[3]):
        if st[0] not in (0, 1, 5) or not isinstance(st[1], list):
            continue
        chain = st[1]
        j, sch, v = reach(tree, chain)
        if j != len(chain) or not well_formed(sch, st[2]):
            continue
        new_tree = set_at(tree, chain, st[2])
        w = tup(chain)
        old_k, new_k = keyed_paths(ROOT, tree), keyed_paths(ROOT, new_tree)
        for kf, ids in old_k.items():
            if len(w) < len(kf) and is_prefix(w, kf) and kf in new_k and new_k[kf] != ids:
                out.setdefault(kf, i)
        tree = new_tree
    return out


def patches_keyed_items(item, step):
    """is history step `step` a Patch that changes items of a keyed collection in place?"""
    c = item["case"]
    tree = c[1]
    for i, st in enumerate(c[3]):
        if st[0] not in (0, 1, 5) or not isinstance(st[1], list):
            continue
        j, sch, v = reach(tree, st[1])
        if j != len(st[1]) or not well_formed(sch, st[2]):
            continue
        if i == step:
            return st[0] == 1 and any(any(a == 3 for a, _ in w[len(tup(st[1])):])
                                      for w in diff_paths(sch, v, st[2], tup(st[1])))
        tree = set_at(tree, st[1], st[2])
    return False


def classify(item, impl, model):
    """F-C16-e: the failure is a consequence of stale FieldKeys — a keyed collection was
    restructured through an ancestor's write guard and the failing reader / writer goes
    through that collection afterwards (wrong item read or written, item not found, index
    out of bounds)"""
    r = _oracle(item, impl)
    if r is None:
        return None
    msg, info = r
    if info["what"] == "order-below":
        # F-C16-g: both readers sit strictly below the written field: they are woken by the same
        # trigger (this of the written field), in subscription order
        return "F-C16-g"
    if info["what"] in ("missed", "spurious") and info["step"] is not None and patches_keyed_items(item, info["step"]):
        # F-C16-n: Patch names the changed items of a keyed collection by index, keyed readers
        # subscribe by the segment of their key
        return "F-C16-n"
    stale = stale_fields(item)
    if not stale:
        return None
    what = info["what"]
    if what == "panic":
        return "F-C16-e" if "index out of bounds" in msg else None
    if what == "final":
        return "F-C16-e"
    if what in ("value", "noguard", "missed", "spurious", "segments"):
        rd, step = info["reader"], info["step"]
        for kf, first in stale.items():
            if rd is None or (step is not None and step < first):
                continue
            # through the stale collection; or (a write through a stale index has landed in
            # another item) any reader whose value contains the collection
            if (is_prefix(kf, rd) and (len(rd) > len(kf) or what == "segments")) or \
                    (what == "value" and is_prefix(rd, kf)):
                return "F-C16-e"
    return None


def describe(item):
    c = item["case"]
    ops = {0: "write", 1: "patch", 2: "path-of", 3: "segments-of", 4: "poke", 5: "untracked write", 6: "update_keys"}
    out = {"store": c[1], "readers": ["%d: %s" % (i, name(r)) for i, r in enumerate(c[2])], "history": []}
    for st in c[3]:
        if st[0] == 4:
            out["history"].append("poke reader %d" % st[1])
        else:
            out["history"].append("%s %s%s%s" % (ops.get(st[0], "?"), name(st[1]),
                                                  " := %r" % (st[2],) if st[0] in (0, 1, 5) else "",
                                                  " [entry point %d]" % st[3] if len(st) > 3 and st[3] else ""))
    out["schedule"] = c[4] or "FIFO"
    if len(c) > 6:
        out["read entry points"] = c[6]
    if len(c) > 7:
        out["subscriber kinds"] = c[7]
    if len(c) > 8:
        out["kept handles"] = c[8]
    return out


def coverage_extra(results):
    pairs = dict(self_=0, ancestor=0, descendant=0, unrelated=0)
    keyed_updates = reports = patches = iterating = untracked = kept = 0
    depth, read_hows, write_hows = {}, {}, {}
    enum_readers = nested_readers = 0
    for r in results:
        c = r["item"]["case"]
        readers = [tup(x) for x in c[2]]
        iterating += sum(1 for x in c[6] if x in (1, 9, 10)) if len(c) > 6 else 0
        kept += sum(c[8]) if len(c) > 8 else 0
        for x in (c[6] if len(c) > 6 else []):
            read_hows[x] = read_hows.get(x, 0) + 1
        enum_readers += sum(1 for rd in readers if any(a == 6 for a, _ in rd))
        nested_readers += sum(1 for rd in readers if sum(1 for a, _ in rd if a == 3) >= 2)
        for st in c[3]:
            if st[0] == 0:
                h = st[3] if len(st) > 3 else 0
                write_hows[h] = write_hows.get(h, 0) + 1
            if st[0] == 5:
                untracked += 1
            if st[0] == 0:
                w = tup(st[1])
                depth[len(w)] = depth.get(len(w), 0) + 1
                for rd in readers:
                    if rd == w:
                        pairs["self_"] += 1
                    elif is_prefix(rd, w):
                        pairs["ancestor"] += 1
                    elif is_prefix(w, rd):
                        pairs["descendant"] += 1
                    else:
                        pairs["unrelated"] += 1
                if tup(st[1]) in KEYED_FIELDS or (tup(st[1]) and tup(st[1])[-1] == (0, 3) and len(tup(st[1])) >= 3):
                    keyed_updates += 1
            elif st[0] == 1:
                patches += 1
            elif st[0] == 3:
                reports += 1
    return dict(writer_reader_pairs=pairs, written_depth_histogram=depth, keyed_updates=keyed_updates,
                segment_reports=reports, patches=patches, iterating_readers=iterating,
                untracked_writes=untracked, kept_handle_readers=kept, read_entry_points=read_hows,
                write_entry_points=write_hows, enum_field_readers=enum_readers, nested_keyed_readers=nested_readers)


LEVEL_TEXT = ("Coq proofs (33 theorems, no axioms). Paths, any depth: a write through the field at path p wakes a reader of "
              "path r iff one is a prefix of the other (field, ancestors, descendants; never siblings or cousins); its "
              "position in the notification order is |r| for ancestors and the field itself and |p|+1 for descendants "
              "(ancestors before descendants). Keyed collections, for all histories of insert/remove/reorder and all "
              "hash-map visiting orders: live keys never share a path segment, a key keeps its segment while it lives, "
              "its index is its position, a removed key is dropped; when a key is removed the key maps of the keyed fields "
              "nested below its item are forgotten, so an item that takes over the recycled segment starts in sync. "
              "Simulation (store value, KeyMap, ordered subscriber "
              "set per trigger, source set per effect, run queue), for all shapes (structs, options, vectors, keyed vectors, "
              "boxes, enums), readers, schedules and histories of writes/patches/pokes/untracked writes/update_keys: the "
              "subscription state stays consistent and a dropped write guard queues exactly "
              "the effects whose last run read a related path, ancestors' readers first. All about an executable Gallina "
              "transcription of triggers_for_path, track_field, the write guards, Patch and FieldKeys/KeyMap; tied to /repo by "
              "running the extracted simulation and the real Store/Effect on a deterministic executor over the same "
              "generated histories every run, plus an independent Python oracle (prefix relation on accessor chains, "
              "replayed values, wake order).")
LEVEL_NOTE = ("Trusted: Coq kernel, ExtrOcamlBasic extraction + OCaml driver, the Rust harness (fixed derive(Store) "
              "shapes, own executor); modelled not verified: reactive_graph's trigger subscriber sets and effect "
              "re-subscription, compared on every case. Eleven defects repaired (F-C16-a..d, f, h..m); three open (F-C16-e: "
              "keys of a keyed collection go stale when it is restructured through an ancestor's write guard; F-C16-g: two "
              "readers strictly below the written field are woken in subscription order; F-C16-n: Patch names the changed "
              "items of a keyed collection by index, keyed readers subscribe by key segment) — stated as _refuted / "
              "_except_known. The invariant / end-to-end theorems cover executor-scheduled readers (Effect, Memo, "
              "isomorphic Effect); ImmediateEffect and RenderEffect readers are covered by the correspondence check only. "
              "Every public entry point of the anchor files is listed in coverage/C16.md with where it is driven; compared "
              "but not separately modelled: Set/Update/maybe_update/raw writer, Signal::from(subfield), reversed iteration, "
              "map_untracked, kept handles. Not driven (with reasons in coverage/C16.md): Store::new_local / LocalStorage, "
              "disposal of the arena handles, VecDeque collections, manual Notify::notify(), the wasm32 KeyMap, generic "
              "structs (derive(Store)/derive(Patch) reject them at compile time). No axioms.")
TECHNIQUE = "Coq proof (induction over paths; invariants over all key histories, visiting orders, schedules and write histories) + differential correspondence of the extracted model with the Rust code"
