"""C16 — store writes notify exactly the fields on the written path (reactive_stores)."""
from . import common as C

PID = "C16"
PROPS_V = "theories/Props/Properties_C16.v"
MODEL_NAME = "Store/Paths.v + Store/Keyed.v + Store/Sim.v"
HARNESS = "stores"
HARNESS_ARGS = ["c16"]
ALLOWED_AXIOMS = []
RUN_IMPORT = "Store.PathsRun"
READY = True
IMPL_SHARDS = 16

RULE = ("one PRNG (VERIF_SEED). A case = (initial Root value, reader chains, history, executor schedule, "
        "FieldKeys visiting orders). Families: allpairs (one reader effect per field path of a populated "
        "store — structs, Option, Vec, keyed Vec, depth up to 6 — then a write through every writable "
        "path in turn, so every (written path, read path) pair is exercised; readers of collections either "
        "read them whole or iterate with iter_unkeyed / the keyed iterator; any field on a chain may be handed "
        "on as a type-erased ArcField / Field, a chain may start from the ArcStore handle, a Box field is "
        "followed with deref_field; every reader is one of Effect::new / ImmediateEffect / RenderEffect / Memo read by "
        "an Effect / Effect::new_isomorphic and reads through one of try_read / try_get / try_with / track + "
        "untracked read / track_field + reader / iterate / OptionStoreExt::map / invert, the closures reading "
        "the inner value untracked), random (random reader "
        "subsets in random creation order, histories mixing set / patch / poke at random reachable paths, "
        "Option and Vec becoming empty and populated again, non-FIFO schedules), keyed (histories of "
        "insert / remove / reorder through the keyed field's own write guard with readers on items and "
        "item sub-fields, writes to items after each change, segment reports op 3), keyed-exact (at most "
        "one key added and one removed per update, so FieldKeys' hash order cannot matter: raw path "
        "segments compared, op 2), patch (Patch::patch of structs/options/vectors with partial changes), "
        "keyed-ancestor (a keyed collection reordered through an ancestor's guard: open finding F-C16-e). "
        "A case is non-trivial when at least one write wakes some but not all of the readers; distinct "
        "= distinct case hash.")
TRUSTED = [
    "Coq 8.16.1 kernel (coqc); no axioms: every theorem of Properties_C16.v is 'Closed under the global context'",
    "extraction to OCaml with ExtrOcamlBasic only, ocamlfind ocamlopt 4.13.1, extract/driver.ml sexp I/O",
    "harness/stores (Rust): fixed #[derive(Store, Patch)] shapes Root/Mid/Sub/Item/Leaf, a type-erased accessor "
    "layer over the public API (field getters, OptionStoreExt::unwrap, StoreFieldIterator::at_unkeyed, AtKeyed::new, "
    "ArcField::from, Field::from, ArcStore / Store::from, DerefField::deref_field, OptionStoreExt::{map, invert}, "
    "Get / With / Track / StoreField::{track_field, reader}, Read::try_read, Write::try_write, Patch::patch, StoreField::path), one Effect::new per reader, a FIFO/"
    "scheduled single-threaded executor installed with Executor::init_local_custom_executor",
    "modelled, not verified (Store/Sim.v, compared with the real crates on every case): reactive_graph's ArcTrigger "
    "subscriber set (ordered Vec, emptied by notify), Effect re-run/clear_sources/re-subscribe, channel wake-up; "
    "the executor of the harness; the shape-directed value tree standing for the Rust structs",
    "FieldKeys' FxHashMap iteration order is a parameter of the model (theorems quantify over it); the check feeds "
    "the model random orders and requires the observation not to depend on them",
]
ASSUMPTIONS = [
    "a keyed collection is restructured (insert/remove/reorder) only through its own write guard "
    "(KeyedSubfield::write, which calls update_keys); writes through ancestors keep its key sequence "
    "(otherwise: open finding F-C16-e, exercised by the separate family keyed-ancestor); "
    "an item written through AtKeyed keeps its key; keys within one collection are distinct",
    "with a Memo-backed reader in a case the schedule is FIFO (the effect behind a memo is polled a second time when "
    "the memo's value changed, which would shift a scheduled order); order between an ImmediateEffect and a scheduled "
    "reader is not compared (the former always runs inside the notification)",
    "effects run on a single-threaded executor that drains all woken effects between two writes; 'woken before' "
    "is observed as the order of first wake-ups at the executor (all schedules) and as run order (FIFO schedule); "
    "'readers of ancestors before readers of descendants' is demanded for every pair of notified readers whose paths "
    "are in the proper-prefix relation (the sub-case where both lie strictly below the written field is the open "
    "finding F-C16-g)",
    "Patch::patch is not applied across a change of a keyed collection (PatchField for Vec uses index segments)",
]

# ------------------------------------------------------------------------------------------ schema
INT = ("int",)
LEAF = ("struct", [INT, INT], ["p", "q"])
ITEM = ("struct", [INT, INT, LEAF], ["id", "n", "l"])
SUB = ("struct", [INT, LEAF, ("vec", INT), ("box", LEAF)], ["x", "l", "v", "b"])
MID = ("struct", [INT, LEAF, ("opt", LEAF), ("keyed", ITEM)], ["x", "l", "o", "k"])
ROOT = ("struct", [INT, MID, ("opt", SUB), ("vec", SUB), ("keyed", ITEM)], ["a", "m", "o", "v", "k"])

F = lambda i: [0, i]
U = [1, 0]
I = lambda i: [2, i]
K = lambda k: [3, k]
E = [4, 0]          # hand the field on as a type-erased ArcField (same path)
EF = [4, 1]         # ... as an arena-allocated Field (a handle to such an ArcField)
EA = [4, 2]         # first step only: start from the ArcStore handle of the store
D = [5, 0]          # .deref_field() of a Box field (same path)


def has_child(sch, v, st):
    kind, arg = st
    if kind == 4:
        return sch[0] != "keyed"
    if kind == 5:
        return sch[0] == "box"
    if sch[0] == "struct":
        return kind == 0 and 0 <= arg < len(sch[1])
    if sch[0] == "opt":
        return kind == 1 and len(v) == 1
    if sch[0] == "vec":
        return kind == 2 and 0 <= arg < len(v)
    if sch[0] == "keyed":
        return kind == 3 and any(it[0] == arg for it in v)
    return False


def child(sch, v, st):
    """(schema, value, position in the value list) of the child addressed by st (which exists)"""
    kind, arg = st
    if kind == 4:
        return sch, v, None
    if kind == 5:
        return sch[1], v, None
    if sch[0] == "struct":
        return sch[1][arg], v[arg], arg
    if sch[0] == "opt":
        return sch[1], v[0], 0
    if kind == 2:
        return sch[1], v[arg], arg
    pos = [i for i, it in enumerate(v) if it[0] == arg][0]
    return sch[1], v[pos], pos


def well_typed(chain):
    """the accessor chain type-checks against the store shapes (keyed collections are
    accessed by key only: at_unkeyed on them would alias the segments of the keys)"""
    sch = ROOT
    prev = None
    for idx, (kind, arg) in enumerate(chain):
        was, prev = prev, (kind, arg)
        if kind == 4:
            if arg == 2:
                if idx != 0:
                    return False
                continue
            if sch[0] == "keyed" or arg not in (0, 1) or was == (4, 1):
                return False
            continue
        if kind == 5:
            if sch[0] != "box" or arg != 0:
                return False
            sch = sch[1]
            continue
        if sch[0] == "struct" and kind == 0 and 0 <= arg < len(sch[1]):
            sch = sch[1][arg]
        elif sch[0] == "opt" and kind == 1 and arg == 0:
            sch = sch[1]
        elif sch[0] == "vec" and kind == 2 and arg >= 0:
            sch = sch[1]
        elif sch[0] == "keyed" and kind == 3 and arg >= 0:
            sch = sch[1]
        else:
            return False
    return True


def reach(tree, chain):
    """follow chain from the root as far as the value allows: (steps taken, schema, value)"""
    sch, v = ROOT, tree
    for j, st in enumerate(chain):
        if not has_child(sch, v, st):
            return j, sch, v
        sch, v, _ = child(sch, v, st)
    return len(chain), sch, v


def set_at(tree, chain, new):
    def go(sch, v, ch):
        if not ch:
            return new
        s2, v2, pos = child(sch, v, ch[0])
        if pos is None:
            return go(s2, v2, ch[1:])
        out = list(v)
        out[pos] = go(s2, v2, ch[1:])
        return out
    return go(ROOT, tree, chain)


def all_chains(tree, sch=ROOT, v=None, pre=()):
    """every reachable accessor chain of the value (keyed items by key, vector items by index)"""
    v = tree if v is None and sch is ROOT else v
    out = [list(pre)]
    if sch[0] == "struct":
        for i, s in enumerate(sch[1]):
            out += all_chains(tree, s, v[i], pre + (F(i),))
    elif sch[0] == "opt":
        if len(v) == 1:
            out += all_chains(tree, sch[1], v[0], pre + (U,))
    elif sch[0] == "vec":
        for i, x in enumerate(v):
            out += all_chains(tree, sch[1], x, pre + (I(i),))
    elif sch[0] == "keyed":
        for x in v:
            out += all_chains(tree, sch[1], x, pre + (K(x[0]),))
    elif sch[0] == "box":
        out += all_chains(tree, sch[1], v, pre + (D,))
    return out


def tup(chain):
    """the path a chain addresses: its steps without the type-erasure markers"""
    return tuple((a, b) for a, b in chain if a not in (4, 5))


def is_prefix(a, b):
    return len(a) <= len(b) and tuple(b[:len(a)]) == tuple(a)


def related(a, b):
    return is_prefix(a, b) or is_prefix(b, a)


def name(chain):
    sch, out = ROOT, "store"
    for kind, arg in chain:
        if kind == 0 and sch[0] == "struct" and arg < len(sch[1]):
            out += "." + sch[2][arg]
            sch = sch[1][arg]
        elif kind == 1:
            out += "?"
            sch = sch[1] if sch[0] == "opt" else INT
        elif kind == 2:
            out += "[%d]" % arg
            sch = sch[1] if sch[0] in ("vec", "keyed") else INT
        elif kind == 3:
            out += "[key %d]" % arg
            sch = sch[1] if sch[0] == "keyed" else INT
        elif kind == 4:
            out += {1: "{Field}", 2: "{ArcStore}"}.get(arg, "{ArcField}")
        elif kind == 5:
            out += "*"
            sch = sch[1] if sch[0] == "box" else INT
        else:
            out += "<%d %d>" % (kind, arg)
    return out


def diff_paths(sch, old, new, pre):
    """reference for Patch: the fields whose value changed, as the finest paths at which the
    two trees differ (a vector whose length changes, or an option that appears/disappears,
    changes as a whole)"""
    if sch[0] in ("int", "box"):
        return [] if old == new else [pre]
    if sch[0] == "struct":
        out = []
        for i, s in enumerate(sch[1]):
            out += diff_paths(s, old[i], new[i], pre + ((0, i),))
        return out
    if sch[0] == "opt":
        if not old and not new:
            return []
        if not old or not new:
            return [pre]
        return diff_paths(sch[1], old[0], new[0], pre + ((1, 0),))
    if not old and not new:
        return []
    if not old or not new:
        return [pre]
    out = []
    for i in range(min(len(old), len(new))):
        out += diff_paths(sch[1], old[i], new[i], pre + ((2, i),))
    if len(old) != len(new):
        out.append(pre)
    return out


# ------------------------------------------------------------------------------------------ values
def rnd_int(rng):
    return rng.randint(1, 999)


def rnd_value(rng, sch, size=2, keys=None):
    if sch[0] == "int":
        return rnd_int(rng)
    if sch[0] == "box":
        return rnd_value(rng, sch[1], size)
    if sch[0] == "struct":
        return [rnd_value(rng, s, size) for s in sch[1]]
    if sch[0] == "opt":
        return [] if rng.random() < 0.3 else [rnd_value(rng, sch[1], size)]
    if sch[0] == "vec":
        return [rnd_value(rng, sch[1], size) for _ in range(rng.randint(0, size))]
    ids = rng.sample(range(1, 30), rng.randint(0, size + 1))
    return [keyed_item(rng, k) for k in ids]


def keyed_item(rng, k):
    v = rnd_value(rng, ITEM)
    v[0] = k
    return v


def mutate(rng, sch, v, top=True):
    """a new value for a field currently holding v.  Keyed collections below the written
    field keep their key sequence (only their own write guard may restructure them); a
    keyed collection written directly (top) is reordered / grown / shrunk."""
    if sch[0] == "int":
        return v + rng.randint(1, 5)
    if sch[0] == "box":
        return mutate(rng, sch[1], v, False)
    if sch[0] == "struct":
        out = list(v)
        idxs = [i for i in range(len(sch[1])) if not (sch is ITEM and i == 0)]
        for i in rng.sample(idxs, rng.randint(1, len(idxs))):
            out[i] = mutate(rng, sch[1][i], v[i], False)
        return out
    if sch[0] == "opt":
        r = rng.random()
        if not v:
            return [rnd_value(rng, sch[1])] if r < 0.8 else []
        if r < 0.25:
            return []
        return [mutate(rng, sch[1], v[0], False)]
    if sch[0] == "vec":
        r = rng.random()
        out = list(v)
        if r < 0.3 or not out:
            if len(out) < 4:
                out.insert(rng.randint(0, len(out)), rnd_value(rng, sch[1]))
            return out if out != v else out + [rnd_value(rng, sch[1])]
        if r < 0.5:
            del out[rng.randrange(len(out))]
            return out
        if r < 0.6:
            return []
        i = rng.randrange(len(out))
        out[i] = mutate(rng, sch[1], out[i], False)
        return out
    # keyed
    if not top:
        return [mutate(rng, sch[1], it, False) if rng.random() < 0.5 else it for it in v]
    return keyed_change(rng, v, rng.choice(["insert", "remove", "reorder", "mixed", "mixed", "replace"]))


def fresh_key(rng, used):
    while True:
        k = rng.randint(1, 60)
        if k not in used:
            return k


def keyed_change(rng, v, how, ever=()):
    out = list(v)
    used = set(it[0] for it in v)
    if how == "insert" or (not out and how in ("remove", "reorder")):
        k = fresh_key(rng, used) if rng.random() < 0.7 or not ever else rng.choice(list(ever))
        if k in used:
            k = fresh_key(rng, used)
        out.insert(rng.randint(0, len(out)), keyed_item(rng, k))
    elif how == "remove":
        del out[rng.randrange(len(out))]
    elif how == "reorder":
        if len(out) < 2:
            out.insert(0, keyed_item(rng, fresh_key(rng, used)))
        else:
            while out == list(v):
                rng.shuffle(out)
    elif how == "replace":
        n = rng.randint(0, 3)
        out = [keyed_item(rng, k) for k in rng.sample(range(1, 60), n)]
    else:
        for _ in range(rng.randint(1, 3)):
            out = keyed_change(rng, out, rng.choice(["insert", "remove", "reorder", "insert"]), ever)
    return out


def rich_init(rng):
    """a store in which every container is populated"""
    def leaf():
        return [rnd_int(rng), rnd_int(rng)]
    def items(n):
        return [[k, rnd_int(rng), leaf()] for k in rng.sample(range(1, 30), n)]
    def sub():
        return [rnd_int(rng), leaf(), [rnd_int(rng) for _ in range(rng.randint(1, 2))], leaf()]
    mid = [rnd_int(rng), leaf(), [leaf()], items(rng.randint(2, 3))]
    return [rnd_int(rng), mid, [sub()], [sub() for _ in range(2)], items(rng.randint(2, 3))]


def writable(chain, tree):
    """may the generator write through this chain?  (not the key field of a keyed item)"""
    j, sch, _ = reach(tree, chain)
    if j != len(chain):
        return False
    t = tup(chain)
    if len(t) >= 2 and t[-1] == (0, 0) and t[-2][0] == 3:
        return False
    return True


def rnd_orders(rng, n):
    out = []
    for _ in range(n):
        if rng.random() < 0.4:
            out.append([[], []])
        else:
            out.append([[rng.randint(0, 7) for _ in range(rng.randint(0, 4))],
                        [rng.randint(0, 7) for _ in range(rng.randint(0, 4))]])
    return out


def rnd_sched(rng):
    if rng.random() < 0.65:
        return []
    return [rng.randint(0, 9) for _ in range(rng.randint(1, 6))]


def schema_at(chain):
    sch = ROOT
    for kind, arg in chain:
        if kind == 4:
            continue
        sch = sch[1][arg] if sch[0] == "struct" else sch[1]
    return sch


def erase_randomly(rng, chain, p=0.25):
    """insert type-erasure markers: the field reached so far is handed on as an ArcField / a
    Field; the chain may start from the ArcStore handle"""
    if rng.random() > p:
        return chain
    out, sch = [], ROOT
    if rng.random() < 0.3:
        out.append(list(EA))
    for st in list(chain) + [None]:
        if sch[0] != "keyed" and rng.random() < 0.4:
            out.append(list(rng.choice([E, EF])))
        if st is None:
            break
        out.append(st)
        sch = sch[1][st[1]] if sch[0] == "struct" else sch[1]
    return out


READ_HOWS = [0, 0, 2, 3, 4, 5]


def mk(init, readers, steps, sched, orders, kind, rng=None):
    """readers whose chain addresses a collection may iterate over it (iter_unkeyed / keyed
    into_iter) instead of reading it as a whole"""
    hows, kinds = [], []
    for rd in readers:
        how, k = 0, 0
        if rng is not None and well_typed(rd):
            how = rng.choice(READ_HOWS)
            what = schema_at(rd)[0]
            if what in ("vec", "keyed") and rng.random() < 0.5:
                how = 1
            if what == "opt" and rng.random() < 0.6:
                how = rng.choice([6, 7])
            if kind != "keyed-exact":
                k = rng.choice([0, 0, 0, 1, 1, 2, 3, 4])
        hows.append(how)
        kinds.append(k)
    if rng is not None and kind != "keyed-exact":
        readers = [erase_randomly(rng, rd) if well_typed(rd) else rd for rd in readers]
        steps = [[st[0], erase_randomly(rng, st[1], 0.15), st[2]] if st[0] in (0, 1) else st for st in steps]
    if 3 in kinds:
        # the effect behind a Memo is polled a second time when the memo's value changed (it is
        # marked dirty while it runs): harmless noise under FIFO, but it shifts a scheduled order
        sched = []
    return dict(case=C.norm([0, init, readers, steps, sched, orders, hows, kinds]), kind=kind, compare=True)


# ------------------------------------------------------------------------------------------ families
def gen_allpairs(rng, chunk=9):
    init = rich_init(rng)
    chains = all_chains(init)
    readers = list(chains)
    rng.shuffle(readers)
    ws = [c for c in chains if writable(c, init)]
    rng.shuffle(ws)
    for a in range(0, len(ws), chunk):
        tree = init
        steps = []
        for w in ws[a:a + chunk]:
            j, sch, v = reach(tree, w)
            if j != len(w):
                continue
            # keep the shape: every reader stays reachable, so all pairs stay meaningful
            new = mutate_same_shape(rng, sch, v)
            steps.append([0, w, new])
            tree = set_at(tree, w, new)
        yield mk(init, readers, steps, [], rnd_orders(rng, len(steps)), "allpairs", rng)


def mutate_same_shape(rng, sch, v):
    if sch[0] == "int":
        return v + rng.randint(1, 5)
    if sch[0] == "box":
        return mutate_same_shape(rng, sch[1], v)
    if sch[0] == "struct":
        return [x if (sch is ITEM and i == 0) else mutate_same_shape(rng, s, x)
                for i, (s, x) in enumerate(zip(sch[1], v))]
    return [mutate_same_shape(rng, sch[1], x) for x in v]


def pick_readers(rng, tree, n, focus=None):
    chains = all_chains(tree)
    out = []
    if focus:
        out += [c for c in chains if related(c, focus)][:]
        rng.shuffle(out)
        out = out[: max(2, n // 2)]
    while len(out) < n:
        c = rng.choice(chains)
        if rng.random() < 0.2:
            # a chain that is not reachable now (may become so later)
            c2 = c + rng.choice([[U], [I(rng.randint(0, 3))], [K(rng.randint(1, 60))],
                                 [U, F(1)], [I(rng.randint(0, 3)), F(0)], [K(rng.randint(1, 60)), F(1)]])
            if well_typed(c2):
                c = c2
        out.append(c)
    rng.shuffle(out)
    return out


def gen_random(rng, n_steps):
    init = rnd_value(rng, ROOT) if rng.random() < 0.6 else rich_init(rng)
    tree = init
    readers = pick_readers(rng, init, rng.randint(3, 14))
    steps = []
    for _ in range(n_steps):
        r = rng.random()
        chains = [c for c in all_chains(tree) if writable(c, tree)]
        if r < 0.12:
            steps.append([4, rng.randrange(len(readers)), 0])
            continue
        if r < 0.2 and rng.random() < 0.5:
            # an unreachable write: no-op
            c = rng.choice(chains) + [rng.choice([U, I(5), K(77)])]
            if well_typed(c) and reach(tree, c)[0] != len(c):
                steps.append([0, c, 0])
                continue
        # prefer paths related to some reader
        cand = [c for c in chains if any(related(c, rd) for rd in readers)]
        w = rng.choice(cand if cand and rng.random() < 0.8 else chains)
        j, sch, v = reach(tree, w)
        if r > 0.85 and not contains_keyed(sch):
            new = mutate(rng, sch, v)
            steps.append([1, w, new])
        elif r > 0.8:
            new = patch_value(rng, sch, v)
            steps.append([1, w, new])
        else:
            new = mutate(rng, sch, v)
            steps.append([0, w, new])
        tree = set_at(tree, w, new)
    return mk(init, readers, steps, rnd_sched(rng), rnd_orders(rng, len(steps)), "random", rng)


def contains_keyed(sch):
    if sch[0] == "keyed":
        return True
    if sch[0] == "struct":
        return any(contains_keyed(s) for s in sch[1])
    if sch[0] in ("opt", "vec", "box"):
        return contains_keyed(sch[1])
    return False


def patch_value(rng, sch, v):
    """a new value that changes only some leaves and leaves keyed collections untouched"""
    if sch[0] == "int":
        return v + (rng.randint(1, 5) if rng.random() < 0.5 else 0)
    if sch[0] == "box":
        return patch_value(rng, sch[1], v)
    if sch[0] == "struct":
        return [x if (sch is ITEM and i == 0) else patch_value(rng, s, x)
                for i, (s, x) in enumerate(zip(sch[1], v))]
    if sch[0] == "keyed":
        return v
    if sch[0] == "opt":
        r = rng.random()
        if not v:
            return [rnd_value(rng, sch[1])] if r < 0.4 else []
        return [] if r < 0.15 else [patch_value(rng, sch[1], v[0])]
    out = [patch_value(rng, sch[1], x) for x in v]
    r = rng.random()
    if r < 0.15 and out:
        out.pop()
    elif r < 0.3 and len(out) < 4:
        out.append(rnd_value(rng, sch[1]))
    elif r < 0.35:
        out = []
    return out


def gen_patch(rng, n_steps):
    init = rich_init(rng)
    tree = init
    readers = pick_readers(rng, init, rng.randint(6, 16))
    steps = []
    for _ in range(n_steps):
        chains = [c for c in all_chains(tree) if writable(c, tree)]
        chains = [c for c in chains if not any(s[0] == 3 for s in c)]
        w = rng.choice([c for c in chains if len(c) <= 2] or chains)
        j, sch, v = reach(tree, w)
        new = patch_value(rng, sch, v)
        steps.append([1, w, new])
        tree = set_at(tree, w, new)
        if rng.random() < 0.3:
            steps.append([4, rng.randrange(len(readers)), 0])
    return mk(init, readers, steps, rnd_sched(rng), rnd_orders(rng, len(steps)), "patch", rng)


def gen_keyed(rng, n_steps, exact=False):
    """histories of one keyed collection: restructure it through its own guard, write to items"""
    init = rich_init(rng)
    fld = rng.choice([[F(4)], [F(1), F(3)]])
    if rng.random() < 0.15:
        init = set_at(init, fld, [])
    tree = init
    ever = set(it[0] for it in reach(tree, fld)[2])
    # readers: the collection, its items and item sub-fields (also of keys that come later), a few others
    readers = [list(fld)]
    future = [fresh_key(rng, ever) for _ in range(3)]
    for k in list(ever) + future:
        for suffix in rng.sample([[], [F(1)], [F(2)], [F(2), F(0)], [F(0)]], rng.randint(1, 3)):
            readers.append(fld + [K(k)] + suffix)
    readers += pick_readers(rng, tree, rng.randint(1, 4))
    rng.shuffle(readers)
    steps = []
    live_since_report = None
    for _ in range(n_steps):
        r = rng.random()
        cur = reach(tree, fld)[2]
        if r < 0.4:
            if exact:
                how = rng.choice(["insert", "remove", "reorder", "swap1"])
                new = list(cur)
                used = set(it[0] for it in cur)
                if how in ("insert", "swap1") or not new:
                    if how == "swap1" and new:
                        del new[rng.randrange(len(new))]
                    pool = [k for k in future if k not in used] or [fresh_key(rng, used | ever)]
                    k = rng.choice(pool)
                    new.insert(rng.randint(0, len(new)), keyed_item(rng, k))
                elif how == "remove":
                    del new[rng.randrange(len(new))]
                else:
                    rng.shuffle(new)
            else:
                how = rng.choice(["insert", "remove", "reorder", "mixed", "mixed"])
                new = keyed_change(rng, cur, how, tuple(ever) + tuple(future))
            ever |= set(it[0] for it in new)
            steps.append([0, fld, new])
            tree = set_at(tree, fld, new)
            if live_since_report is not None:
                live_since_report &= set(it[0] for it in new)
        elif r < 0.75 and cur:
            it = rng.choice(cur)
            suffix = rng.choice([[], [F(1)], [F(2)], [F(2), F(0)], [F(2), F(1)]])
            w = fld + [K(it[0])] + suffix
            j, sch, v = reach(tree, w)
            new = mutate_same_shape(rng, sch, v)
            steps.append([0, w, new])
            tree = set_at(tree, w, new)
        elif r < 0.85:
            ks = sorted(live_since_report) if live_since_report is not None else []
            steps.append([3, fld, ks])
            live_since_report = set(it[0] for it in cur)
        elif r < 0.9 and exact and cur:
            steps.append([2, fld + [K(rng.choice(cur)[0])], 0])
        elif r < 0.95:
            steps.append([4, rng.randrange(len(readers)), 0])
        else:
            # a write through an ancestor that keeps the key sequence
            w = fld[:-1]
            j, sch, v = reach(tree, w)
            new = mutate(rng, sch, v)
            new = set_keys_like(sch, v, new)
            steps.append([0, w, new])
            tree = set_at(tree, w, new)
    return mk(init, readers, steps, [] if exact else rnd_sched(rng),
              [[[], []]] * len(steps) if exact else rnd_orders(rng, len(steps)),
              "keyed-exact" if exact else "keyed", rng)


def set_keys_like(sch, old, new):
    return new  # mutate() already keeps the key sequence of keyed collections below the written field


def gen_basic(rng):
    """small cases first (they give the smallest replays): two or three readers, one or two
    writes, on a populated store; every kind of relation between written and read path"""
    init = rich_init(rng)
    chains = all_chains(init)
    ws = [c for c in chains if writable(c, init)]
    for w in ws:
        rel = [c for c in chains if related(c, w)]
        unrel = [c for c in chains if not related(c, w)]
        readers = rng.sample(rel, min(len(rel), 2)) + rng.sample(unrel, min(len(unrel), 2))
        rng.shuffle(readers)
        j, sch, v = reach(init, w)
        new = mutate_same_shape(rng, sch, v)
        yield mk(init, readers, [[0, w, new]], [], [[[], []]], "basic")


def gen_keyed_small(rng):
    """short keyed histories: change the collection once or twice, write to one item, report"""
    init = rich_init(rng)
    fld = rng.choice([[F(4)], [F(1), F(3)]])
    tree = init
    cur = reach(tree, fld)[2]
    readers = [fld + [K(it[0])] + rng.choice([[], [F(1)], [F(2), F(0)]]) for it in cur] + [list(fld)]
    rng.shuffle(readers)
    steps = []
    if rng.random() < 0.5:
        steps.append([3, fld, []])
    for _ in range(rng.randint(1, 3)):
        cur = reach(tree, fld)[2]
        new = keyed_change(rng, cur, rng.choice(["insert", "remove", "reorder", "insert"]))
        steps.append([0, fld, new])
        tree = set_at(tree, fld, new)
    cur = reach(tree, fld)[2]
    if cur:
        it = rng.choice(cur)
        w = fld + [K(it[0])] + rng.choice([[F(1)], [F(2), F(1)], []])
        j, sch, v = reach(tree, w)
        steps.append([0, w, mutate_same_shape(rng, sch, v)])
    steps.append([3, fld, []])
    return mk(init, readers, steps, [], rnd_orders(rng, len(steps)), "keyed", rng)


def gen_keyed_ancestor(rng, shrink=False):
    """OUTSIDE the assumption of the other families (exercises the open finding F-C16-e): a keyed
    collection is reordered / partly replaced by a write through an ancestor (store, store.m),
    which does not refresh its keys; then its items are read and written"""
    init = rich_init(rng)
    fld = rng.choice([[F(4)], [F(1), F(3)]])
    tree = init
    cur = reach(tree, fld)[2]
    readers = [list(fld)] + [fld + [K(it[0])] + rng.choice([[F(1)], [F(2), F(0)], []]) for it in cur]
    readers += pick_readers(rng, tree, 2)
    rng.shuffle(readers)
    steps = []
    if rng.random() < 0.5:
        it = rng.choice(cur)
        w = fld + [K(it[0]), F(1)]
        steps.append([0, w, it[1] + 1])
        tree = set_at(tree, w, it[1] + 1)
    anc = fld[:-1] if rng.random() < 0.6 else []
    j, sch, v = reach(tree, anc)
    cur = reach(tree, fld)[2]
    new_items = list(cur)
    if shrink:
        del new_items[rng.randrange(len(new_items)):]
    else:
        while new_items == cur:
            rng.shuffle(new_items)
            if rng.random() < 0.3:
                new_items[rng.randrange(len(new_items))] = keyed_item(rng, fresh_key(rng, set(x[0] for x in cur)))
    new = set_sub(sch, v, fld[len(anc):], new_items)
    steps.append([0, anc, new])
    tree = set_at(tree, anc, new)
    for _ in range(rng.randint(1, 3)):
        cur = reach(tree, fld)[2]
        r = rng.random()
        if r < 0.6 and cur and not shrink:
            it = rng.choice(cur)
            w = fld + [K(it[0]), F(1)]
            steps.append([0, w, it[1] + 1])
            tree = set_at(tree, w, it[1] + 1)
        elif r < 0.8:
            steps.append([4, rng.randrange(len(readers)), 0])
        else:
            steps.append([3, fld, []])
    it = mk(init, readers, steps, [], [[[], []]] * len(steps), "keyed-ancestor")
    it["compare"] = not shrink
    return it


def set_sub(sch, v, rel, new):
    """v with the field at the relative struct path rel replaced"""
    if not rel:
        return new
    out = list(v)
    out[rel[0][1]] = set_sub(sch[1][rel[0][1]], v[rel[0][1]], rel[1:], new)
    return out


def generate(rng, tier):
    quick = tier == "quick"
    for _ in range(2 if quick else 20):
        for it in gen_basic(rng):
            yield it
    for _ in range(300 if quick else 6000):
        yield gen_keyed_small(rng)
    for _ in range(2500 if quick else 60000):
        yield gen_random(rng, rng.randint(2, 9))
    for _ in range(1500 if quick else 40000):
        yield gen_keyed(rng, rng.randint(4, 12))
    for _ in range(700 if quick else 15000):
        yield gen_keyed(rng, rng.randint(4, 12), exact=True)
    for _ in range(700 if quick else 15000):
        yield gen_patch(rng, rng.randint(2, 6))
    for _ in range(6 if quick else 100):
        for it in gen_allpairs(rng):
            yield it
    for _ in range(40 if quick else 800):
        yield gen_keyed_ancestor(rng, shrink=rng.random() < 0.25)


# ------------------------------------------------------------------------------------------ checks
def _flat_ok(x):
    return isinstance(x, list)


def valid_case(item):
    """generator preconditions (used by the shrinker): well-formed case; keyed collections
    change their key sequence only through a direct write; items keep their key; keys distinct"""
    try:
        c = item["case"]
        if len(c) not in (6, 7, 8) or c[0] != 0:
            return False
        if len(c) >= 7 and not (isinstance(c[6], list) and all(x in range(8) for x in c[6])):
            return False
        if len(c) >= 8 and not (isinstance(c[7], list) and all(x in range(5) for x in c[7])):
            return False
        tree, readers, steps = c[1], c[2], c[3]
        if not well_formed(ROOT, tree):
            return False
        def ok_chain(ch):
            return isinstance(ch, list) and all(isinstance(s, list) and len(s) == 2 and
                                                all(isinstance(x, int) and x >= 0 for x in s) and s[0] <= 5
                                                for s in ch) and well_typed(ch)
        if not all(ok_chain(rd) for rd in readers):
            return False
        if not (isinstance(c[4], list) and all(isinstance(x, int) and x >= 0 for x in c[4])):
            return False
        for st in steps:
            if len(st) != 3 or not isinstance(st[0], int):
                return False
            op = st[0]
            if op == 4:
                if not isinstance(st[1], int) or not (0 <= st[1] < len(readers)):
                    return False
                continue
            chain = st[1]
            if not ok_chain(chain):
                return False
            j, sch, v = reach(tree, chain)
            if op in (0, 1):
                if j != len(chain):
                    continue
                if not well_formed(sch, st[2]):
                    return False
                t = tup(chain)
                if t and t[-1][0] == 3 and st[2][0] != t[-1][1]:
                    return False
                if len(t) >= 2 and t[-1] == (0, 0) and t[-2][0] == 3:
                    return False
                if item.get("kind") != "keyed-ancestor" and not keys_kept(sch, v, st[2], top=(op == 0)):
                    return False
                tree = set_at(tree, chain, st[2])
            elif op == 3:
                if not (isinstance(st[2], list) and all(isinstance(x, int) for x in st[2])):
                    return False
        return True
    except Exception:
        return False


def well_formed(sch, v):
    if sch[0] == "int":
        return isinstance(v, int)
    if sch[0] == "box":
        return well_formed(sch[1], v)
    if not isinstance(v, list):
        return False
    if sch[0] == "struct":
        return len(v) == len(sch[1]) and all(well_formed(s, x) for s, x in zip(sch[1], v))
    if sch[0] == "opt":
        return len(v) <= 1 and all(well_formed(sch[1], x) for x in v)
    if sch[0] == "vec":
        return all(well_formed(sch[1], x) for x in v)
    ids = [x[0] for x in v if isinstance(x, list) and x]
    return all(well_formed(sch[1], x) for x in v) and len(set(ids)) == len(v)


def keys_kept(sch, old, new, top):
    """keyed collections strictly below the written field keep their key sequence"""
    if sch[0] == "keyed":
        if top:
            return True
        return [x[0] for x in old] == [x[0] for x in new]
    if sch[0] == "struct":
        return all(keys_kept(s, o, n, False) for s, o, n in zip(sch[1], old, new))
    if sch[0] in ("opt", "vec"):
        if not contains_keyed(sch[1]):
            return True
        return len(old) == len(new) and all(keys_kept(sch[1], o, n, False) for o, n in zip(old, new))
    return True


def _oracle(item, impl):
    """independent of the Coq model: replays the history on a plain tree, decides from the
    prefix relation on accessor chains which readers must re-run, and what they must see.
    Returns None or (message, {"step": index or None, "reader": chain or None, "what": tag})"""
    if isinstance(impl, str):
        return ("panic / harness error: " + impl[:200], dict(step=None, reader=None, what="panic"))
    c = item["case"]
    tree, readers, steps, sched = c[1], [tup(r) for r in c[2]], c[3], c[4]
    raw = c[2]
    kinds = c[7] if len(c) > 7 else [0] * len(raw)
    imm = lambda e: e < len(kinds) and kinds[e] == 1       # ImmediateEffect: runs inside the notification
    if len(impl) != len(steps) + 2:
        return ("observation has %d phases for %d steps" % (len(impl), len(steps)), dict(step=None, reader=None, what='other'))

    def expect_obs(tr, e):
        j, _, v = reach(tr, raw[e])
        return [j, v] if j == len(raw[e]) else [j]

    cur = {}
    pending = None
    # initial phase: every reader runs once and sees the initial value
    ph = impl[0]
    ran = [r[0] for r in ph[1]]
    if sorted(set(ran)) != list(range(len(readers))):
        return ("initial phase: readers that ran = %r" % (ran,), dict(step=None, reader=None, what='other'))
    for e, obs in ph[1]:
        want = expect_obs(tree, e)
        if obs != want:
            return ("reader %d (%s) initially saw %r, the store holds %r" % (e, name(readers[e]), obs, want), dict(step=None, reader=readers[e], what='value'))
        cur[e] = readers[e] if len(want) == 2 else None

    for i, st in enumerate(steps):
        ph = impl[i + 1]
        wakes, runs = ph[0], ph[1]
        op = st[0]
        written = []          # abstract paths whose write guard was dropped / patch-notified
        order_path = None
        label = "step %d" % i
        if op == 4:
            expected = {st[1]}
            label += " (poke reader %d)" % st[1]
        elif op in (0, 1):
            chain = st[1]
            j, sch, old = reach(tree, chain)
            if j != len(chain):
                expected = set()
                label += " (unreachable %s)" % name(chain)
            else:
                if op == 0:
                    written = [tup(chain)]
                    order_path = tup(chain)
                    label += " (write %s)" % name(chain)
                else:
                    written = diff_paths(sch, old, st[2], tup(chain))
                    label += " (patch %s: changed %s)" % (name(chain), [name(w) for w in written])
                tree = set_at(tree, chain, st[2])
                expected = set(e for e, p in cur.items() if p is not None and any(related(w, p) for w in written))
                if ph[2] != 1:
                    return (label + ": no write guard obtained", dict(step=i, reader=tup(st[1]), what='noguard'))
        else:
            expected = set()
        ran = [r[0] for r in runs]
        for e in sorted(expected):
            if e not in ran:
                return ("%s: reader %d of %s was not notified" % (label, e, name(cur[e])), dict(step=i, reader=cur[e], what='missed'))
        for e in ran:
            if e not in expected:
                what = name(cur[e]) if cur.get(e) is not None else "nothing in the store (chain %s cut short)" % name(readers[e])
                return ("%s: reader %d of %s was notified" % (label, e, what), dict(step=i, reader=(cur.get(e) or readers[e]), what='spurious'))
        if sorted(set(wakes)) != sorted(set(e for e in ran if not imm(e))):
            return ("%s: woken tasks %r but effects that ran %r" % (label, wakes, ran), dict(step=i, reader=None, what='other'))
        # readers of ancestors are woken before readers of descendants: for every pair of
        # notified readers whose paths are in the proper-prefix relation
        if order_path is not None:
            for a in sorted(expected):
                for d in sorted(expected):
                    if len(cur[a]) < len(cur[d]) and is_prefix(cur[a], cur[d]):
                        below = len(cur[a]) > len(order_path)   # both strictly below the written field
                        bad = None
                        if imm(a) != imm(d):
                            continue   # a synchronous and a scheduled subscriber: no common order
                        if imm(a):
                            if ran.index(a) > ran.index(d):
                                bad = "ran"
                        elif wakes.index(a) > wakes.index(d):
                            bad = "woken"
                        elif not sched and ran.index(a) > ran.index(d):
                            bad = "ran"
                        if bad:
                            f = ("%s: reader %d of descendant %s %s before reader %d of ancestor %s" % (
                                label, d, name(cur[d]), bad, a, name(cur[a])),
                                dict(step=i, reader=cur[d], what='order-below' if below else 'order'))
                            if not below:
                                return f
                            # known class (F-C16-g): remember it, keep checking everything else
                            pending = pending or f
        # every notified reader sees the value that was written
        for e, obs in runs:
            want = expect_obs(tree, e)
            if obs != want:
                return ("%s: reader %d (%s) saw %r, the store holds %r" % (label, e, name(readers[e]), obs, want), dict(step=i, reader=readers[e], what='value'))
            cur[e] = readers[e] if len(want) == 2 else None
        if op == 3 and isinstance(ph[2], list):
            pattern, same = ph[2]
            if pattern != list(range(len(pattern))):
                return ("%s: two live keys of %s share a path segment (pattern %r)" % (label, name(st[1]), pattern), dict(step=i, reader=tup(st[1]), what='segments'))
            if any(b == 0 for b in same):
                return ("%s: a key of %s changed its path segment while it stayed in the collection (%r for keys %r)" % (
                    label, name(st[1]), same, st[2]), dict(step=i, reader=tup(st[1]), what='segments'))
    if impl[-1] != tree:
        return ("final store value %r differs from the replayed history %r" % (impl[-1], tree), dict(step=None, reader=None, what='final'))
    return pending


def oracle(item, impl):
    r = _oracle(item, impl)
    return None if r is None else r[0]


def nontrivial(item, model):
    if isinstance(model, str):
        return False
    n = len(item["case"][2])
    for ph, st in zip(model[1:-1], item["case"][3]):
        if st[0] in (0, 1) and 0 < len(ph[1]) < n:
            return True
    return False


KEYED_FIELDS = [((0, 4),), ((0, 1), (0, 3))]


def stale_fields(item):
    """keyed fields whose key sequence was changed by a write / patch through a strict ancestor
    (so that update_keys() did not run): {field chain: index of the first such step}"""
    c = item["case"]
    tree, out = c[1], {}
    for i, st in enumerate(c[3]):
        if st[0] not in (0, 1) or not isinstance(st[1], list):
            continue
        chain = st[1]
        j, sch, v = reach(tree, chain)
        if j != len(chain) or not well_formed(sch, st[2]):
            continue
        new_tree = set_at(tree, chain, st[2])
        for kf in KEYED_FIELDS:
            if len(tup(chain)) < len(kf) and is_prefix(tup(chain), kf):
                old_ids = [x[0] for x in reach(tree, [list(x) for x in kf])[2]]
                new_ids = [x[0] for x in reach(new_tree, [list(x) for x in kf])[2]]
                if old_ids != new_ids:
                    out.setdefault(kf, i)
        tree = new_tree
    return out


def classify(item, impl, model):
    """F-C16-e: the failure is a consequence of stale FieldKeys — a keyed collection was
    restructured through an ancestor's write guard and the failing reader / writer goes
    through that collection afterwards (wrong item read or written, item not found, index
    out of bounds)"""
    r = _oracle(item, impl)
    if r is None:
        return None
    msg, info = r
    if info["what"] == "order-below":
        # F-C16-g: both readers sit strictly below the written field: they are woken by the same
        # trigger (this of the written field), in subscription order
        return "F-C16-g"
    stale = stale_fields(item)
    if not stale:
        return None
    what = info["what"]
    if what == "panic":
        return "F-C16-e" if "index out of bounds" in msg else None
    if what == "final":
        return "F-C16-e"
    if what in ("value", "noguard", "missed", "spurious", "segments"):
        rd, step = info["reader"], info["step"]
        for kf, first in stale.items():
            if rd is None or (step is not None and step < first):
                continue
            # through the stale collection; or (a write through a stale index has landed in
            # another item) any reader whose value contains the collection
            if (is_prefix(kf, rd) and (len(rd) > len(kf) or what == "segments")) or \
                    (what == "value" and is_prefix(rd, kf)):
                return "F-C16-e"
    return None


def describe(item):
    c = item["case"]
    ops = {0: "write", 1: "patch", 2: "path-of", 3: "segments-of", 4: "poke"}
    out = {"store": c[1], "readers": ["%d: %s" % (i, name(r)) for i, r in enumerate(c[2])], "history": []}
    for st in c[3]:
        if st[0] == 4:
            out["history"].append("poke reader %d" % st[1])
        else:
            out["history"].append("%s %s%s" % (ops.get(st[0], "?"), name(st[1]),
                                                " := %r" % (st[2],) if st[0] in (0, 1) else ""))
    out["schedule"] = c[4] or "FIFO"
    return out


def coverage_extra(results):
    pairs = dict(self_=0, ancestor=0, descendant=0, unrelated=0)
    keyed_updates = reports = patches = iterating = 0
    depth = {}
    for r in results:
        c = r["item"]["case"]
        readers = [tup(x) for x in c[2]]
        iterating += sum(1 for x in c[6] if x == 1) if len(c) > 6 else 0
        for st in c[3]:
            if st[0] == 0:
                w = tup(st[1])
                depth[len(w)] = depth.get(len(w), 0) + 1
                for rd in readers:
                    if rd == w:
                        pairs["self_"] += 1
                    elif is_prefix(rd, w):
                        pairs["ancestor"] += 1
                    elif is_prefix(w, rd):
                        pairs["descendant"] += 1
                    else:
                        pairs["unrelated"] += 1
                if tup(st[1]) in KEYED_FIELDS:
                    keyed_updates += 1
            elif st[0] == 1:
                patches += 1
            elif st[0] == 3:
                reports += 1
    return dict(writer_reader_pairs=pairs, written_depth_histogram=depth, keyed_updates=keyed_updates,
                segment_reports=reports, patches=patches, iterating_readers=iterating)


LEVEL_TEXT = ("Coq proofs (21+ theorems, no axioms). Paths, any depth: a write through the field at path p wakes a reader of "
              "path r iff one is a prefix of the other (field, ancestors, descendants; never siblings or cousins); its "
              "position in the notification order is |r| for ancestors and the field itself and |p|+1 for descendants "
              "(ancestors before descendants). Keyed collections, for all histories of insert/remove/reorder and all "
              "hash-map visiting orders: live keys never share a path segment, a key keeps its segment while it lives, "
              "its index is its position, a removed key is dropped. Simulation (store value, KeyMap, ordered subscriber "
              "set per trigger, source set per effect, run queue), for all shapes, readers, schedules and histories of "
              "writes/patches/pokes: the subscription state stays consistent and a dropped write guard queues exactly "
              "the effects whose last run read a related path, ancestors' readers first. All about an executable Gallina "
              "transcription of triggers_for_path, track_field, the write guards, Patch and FieldKeys; tied to /repo by "
              "running the extracted simulation and the real Store/Effect on a deterministic executor over the same "
              "generated histories every run, plus an independent Python oracle (prefix relation on accessor chains, "
              "replayed values, wake order).")
LEVEL_NOTE = ("Trusted: Coq kernel, ExtrOcamlBasic extraction + OCaml driver, the Rust harness (fixed derive(Store) "
              "shapes, own executor); modelled not verified: reactive_graph's trigger subscriber sets and effect "
              "re-subscription, compared on every case. Seven defects repaired (F-C16-a..d, f, h, i); two open (F-C16-e: "
              "keys of a keyed collection go stale when it is restructured through an ancestor's write guard; F-C16-g: two "
              "readers strictly below the written field are woken in subscription order) — stated as _refuted / "
              "_except_known. The invariant / end-to-end theorems cover executor-scheduled readers (Effect, Memo, "
              "isomorphic Effect); ImmediateEffect and RenderEffect readers are covered by the correspondence check only. "
              "Enum variant accessors, Signal::from(subfield), reverse iteration and map_untracked are not exercised. No axioms.")
TECHNIQUE = "Coq proof (induction over paths; invariants over all key histories, visiting orders, schedules and write histories) + differential correspondence of the extracted model with the Rust code"
