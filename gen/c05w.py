"""C05, the WIDE grammar added by the anchor coverage audit (coverage/C05.md): every value type /
representation / container instantiation / attribute kind / entry point that the anchored files offer
and the proved grammar of gen/c05.py does not contain. Oracle-only ("compared, not proved").

view ops beyond those of gen/c05.py:
  (2 tag ..) tags 6 custom element x-y, 7 svg, 8 g, 9 li, 10 ol, 11 a, 12 em, 13 h1, 14 button, 15 label
  (14 id mode v)   mode 2: local Suspend (server: notifies + never completes; client: pending, completed later)
  (15 3 ..)        noscript
  (20 ())          empty StaticVec
  (22 k bytes)     k = 2 &'static str, 3 Cow::Borrowed
  (24 kind bytes)  primitive of another type, given by its source text
  (25 attrs v)     add_any_attr on the typed view; attrs ((kind bytes) ..)
  (26 tag attrs kids)  element with attributes of every representation; attrs ((kind repr (0)|(1 bytes)) ..)
  (27 kind repr sig alts)  dynamic part (closure / shared function / signal)
  (28 vs)          [T; N], N in 0, 1, 3
  (29 n i v)       EitherOf4 / 8 / 16
"""
from . import common as C

PRIMS = {
    0: ["-7", "12", "0", "-9223372036854775808", "9223372036854775807"],
    1: ["0", "255", "7"],
    2: ["3", "4", "18446744073709551615"],
    3: ["340282366920938463463374607431768211455", "1"],
    4: ["-1", "2", "-170141183460469231731687303715884105728"],
    5: ["1.5", "-0", "1e21", "NaN", "inf", "0.1", "-2.5e-7"],
    6: ["2.5", "inf", "-inf", "1e-10"],
    7: ["true", "false"],
    8: ["x", "<", "&", ">", '"', "é", " ", "'", "~", "中", "\U0001F600"],
    9: ["127.0.0.1", "10.0.0.2"],
    10: ["::1", "fe80::1", "::"],
    11: ["127.0.0.1:80", "[::1]:8080"],
    12: ["1", "255"],
    13: ["-5", "9"],
    14: ["-128", "127"],
    15: ["::1", "1.2.3.4"],
}
TEXTS = ["", "a", "b<", " c ", "&amp;", 'x"y', "é", "<!>", ">", "  ", "1", "a&b", "</p>", "'q'", "~", "中\U0001F600"]
# element tags: index -> (name, closes an open <p>)
TAGS = ["div", "span", "p", "section", "ul", "main", "x-y", "svg", "g", "li", "ol", "a", "em", "h1", "button", "label"]
P_CLOSERS = {0, 2, 3, 4, 5, 9, 10, 13}
VOIDS = ["br", "hr", "img", "input"]


def b(s):
    return list(s.encode("utf-8"))


def gen_text(rng):
    if rng.random() < 0.15:
        return "".join(rng.choice(["<", ">", "&", '"', "a", " ", "é", ";", "!", "-", "amp;"]) for _ in range(rng.randint(0, 5)))
    return rng.choice(TEXTS)


ARC_REPRS = [0, 1, 2, 8, 9, 10, 11]


def pick_repr(rng, ctx):
    return rng.choice(ARC_REPRS) if ctx.in_keyed else rng.randrange(12)


class Ctx:
    """what the HTML tree builder lets the generator nest here"""
    __slots__ = ("in_p", "in_a", "in_button", "in_h1", "svg", "list_parent", "dyn", "nsig", "ids", "in_keyed", "typed_root")

    def __init__(self, dyn=False, nsig=0):
        self.in_p = self.in_a = self.in_button = self.in_h1 = self.svg = self.list_parent = False
        self.dyn = dyn
        self.nsig = nsig
        self.ids = [0]
        # inside the rows of a keyed list: a row is RETAINED (not rebuilt) when an enclosing closure re-runs, while the
        # arena-allocated signal wrappers the harness creates for it (RwSignal / ReadSignal / Memo / Signal / MaybeSignal:
        # representations 3-7) belong to that closure's owner and are disposed by the re-run — leptos' <For> gives
        # every row an owner of its own for this reason; rows here use the closure / Arc representations only
        self.in_keyed = False
        self.typed_root = False

    def child(self, tag):
        c = Ctx(self.dyn, self.nsig)
        c.ids = self.ids
        c.in_p = self.in_p or tag == 2
        c.in_a = self.in_a or tag == 11
        c.in_button = self.in_button or tag == 14
        c.in_h1 = self.in_h1 or tag == 13
        c.svg = tag in (7, 8)
        c.list_parent = tag in (4, 10)
        c.in_keyed = self.in_keyed
        return c

    def keyed(self):
        c = Ctx(self.dyn, self.nsig)
        c.ids = self.ids
        c.in_p, c.in_a, c.in_button, c.in_h1, c.svg = self.in_p, self.in_a, self.in_button, self.in_h1, self.svg
        c.in_keyed = True
        return c

    def keyed_here(self):
        self.in_keyed = True
        return self

    def plain(self):
        """the same context for a transparent wrapper (tuples, Option, ...): list items must be direct children"""
        if not self.list_parent:
            return self
        c = Ctx(self.dyn, self.nsig)
        c.ids = self.ids
        c.in_p, c.in_a, c.in_button, c.in_h1, c.svg = self.in_p, self.in_a, self.in_button, self.in_h1, self.svg
        c.in_keyed = self.in_keyed
        return c


def tag_ok(tag, ctx):
    if ctx.svg:
        return tag == 8
    if tag == 8:
        return False
    if tag == 9:
        return ctx.list_parent
    if ctx.in_p and tag in P_CLOSERS:
        return False
    if tag == 11 and ctx.in_a:
        return False
    if tag == 14 and ctx.in_button:
        return False
    if tag == 13 and ctx.in_h1:
        return False
    return True


def gen_attrs(rng):
    return [[k, b(gen_text(rng))] for k in range(3) if rng.random() < 0.2]


def gen_leaf(rng, ctx):
    r = rng.random()
    if r < 0.25:
        return [0, b(gen_text(rng))]
    if r < 0.32:
        return [0, b("")]
    if r < 0.55:
        k = rng.choice(list(PRIMS))
        return [24, k, b(rng.choice(PRIMS[k]))]
    if r < 0.75:
        return [22, rng.randrange(4), b(gen_text(rng))]
    if r < 0.85:
        return [1]
    if r < 0.9 and not ctx.svg:
        v = rng.choice([0, 2, 3] if ctx.in_p else [0, 1, 2, 3])
        return [3, v, gen_attrs(rng)]
    if ctx.dyn and ctx.nsig:
        return [27, 0, pick_repr(rng, ctx), rng.randrange(ctx.nsig), []]
    if r < 0.93 and not ctx.svg:
        from . import c05
        return [12, c05.gen_inert(rng, 1, ctx.in_p)]
    if r < 0.936 and not ctx.svg:
        from . import c05
        raw = c05.gen_raw(rng)
        if rng.random() < 0.5:
            raw[1] = 3
            for part in raw[3]:
                if part[0] == 1:
                    part[1] = [x for x in part[1] if x != 60]
        return raw
    return [13, rng.choice([0, 7, 4294967295])]


STYLE_VALS = ["10px", "red", "1em", "0", "calc(1px + 2px)"]
CLASS_VALS = ["a", "b c", "x-1", "k2x", "  d  ", ""]
WHOLE_STYLES = ["color:red", "margin:0;padding:1px", "top:1px;", ""]


def gen_rich_attrs(rng, ctx, childless):
    out = []
    r = rng.random
    # (dynamic attribute values only on elements that no re-running closure rebuilds: two branches of a closure that
    # are elements of one type are rebuilt into each other, attribute values of different erased types are then
    # built anew without resetting the old one, and what the dropped effect wrote last depends on the poll order)
    dyn = ctx.dyn and ctx.nsig and not ctx.in_keyed
    sig = lambda: [1, b(str(rng.randrange(ctx.nsig)))]
    # dir owner
    x = r()
    if x < 0.2:
        rp = rng.randrange(4)
        out.append([0, rp, [1, b(gen_text(rng))] if (rp < 3 or r() < 0.6) else [0]])
    elif x < 0.3:
        out.append([8, rng.randrange(2), [1, b(gen_text(rng))]])
    elif x < 0.5 and dyn:
        out.append([10, pick_repr(rng, ctx), sig()])
    # whole class
    x = r()
    if x < 0.3:
        rp = rng.randrange(5)
        out.append([1, rp, [1, b(rng.choice(CLASS_VALS))] if (rp < 4 or r() < 0.6) else [0]])
    elif x < 0.45 and dyn:
        out.append([11, pick_repr(rng, ctx), sig()])
    # toggles (a dynamic toggle next to a dynamic whole class is order dependent: `class=` rewrites the attribute)
    x = r()
    if x < 0.3:
        out.append([2, 0, [1, b("1")] if r() < 0.5 else [0]])
    elif x < 0.45 and dyn and not any(a[0] in (1, 11) for a in out):
        out.append([12, pick_repr(rng, ctx), sig()])
    if r() < 0.15:
        out.append([2, 1, [1, b("1")] if r() < 0.5 else [0]])
    # styles: whole XOR properties
    # (a whole `style=` is only generated on typed roots, where both views have it: the native DOM keeps the style
    # attribute and the CSSOM apart, so an element rebuilt in place from `style:x=` to `style=` — attribute kinds of
    # two erased types — would differ between a parsed and a built element only because of that separation)
    x = r()
    if True:
        if x < 0.45:
            out.append([3, 2 * rng.randrange(3), [1, b(rng.choice(STYLE_VALS))]])
        elif x < 0.6 and dyn:
            out.append([13, pick_repr(rng, ctx), sig()])
        # (no second property name: an in-place rebuild from `style:color` to `style:width` REMOVES a property, which
        # the native DOM cannot do for a declaration that came with the parsed style attribute)
    if r() < 0.15:
        out.append([4, 0, [1, b("1")] if r() < 0.5 else [0]])
    if r() < 0.2:
        out.append([6, rng.randrange(4), [1, b(gen_text(rng))]])
    if childless and r() < 0.5:
        rp = rng.randrange(4)
        html = rng.choice(["plain", "<em>hi</em> there", "a&amp;b", "<span title=\"t\">x</span><br>", "", "<!>"])
        out.append([7, rp, [1, b(html)] if (rp < 3 or r() < 0.7) else [0]])
    return out


def gen_wide(rng, depth, ctx):
    r = rng.random()
    if depth <= 0 or ctx.svg and r < 0.5:
        return gen_leaf(rng, ctx)
    sub = lambda c=None: gen_wide(rng, depth - 1, c or ctx.plain())
    many = lambda lo, hi: [sub() for _ in range(rng.randint(lo, hi))]
    if r < 0.14:
        return gen_leaf(rng, ctx)
    if r < 0.34:
        # element
        for _ in range(8):
            t = rng.choice([0, 1, 1, 2, 3, 4, 5, 6, 6, 7, 9, 9, 10, 11, 12, 13, 14, 15])
            if ctx.svg:
                t = 8
            if tag_ok(t, ctx):
                break
        else:
            return gen_leaf(rng, ctx)
        c = ctx.child(t)
        n = rng.choice([0, 1, 1, 2, 2, 3, 4, 5, 6])
        if t in (4, 10):
            kids = [([2, 9, gen_attrs(rng), [gen_wide(rng, depth - 2, c.child(9)) for _ in range(rng.randint(0, 2))]]
                     if rng.random() < 0.6 else gen_wide(rng, depth - 1, c.plain())) for _ in range(n)]
        else:
            kids = [gen_wide(rng, depth - 1, c) for _ in range(n)]
        return [2, t, gen_attrs(rng), kids]
    if r < 0.44 and not ctx.svg:
        t = rng.choice([1] if ctx.in_p else [0, 1, 2])
        c = ctx.child(t)
        n = rng.choice([0, 0, 1, 1, 2, 3])
        return [26, t, gen_rich_attrs(rng, ctx, n == 0), [gen_wide(rng, depth - 1, c) for _ in range(n)]]
    if r < 0.52:
        return [4, many(*rng.choice([(1, 4), (5, 6), (8, 8), (12, 12)]))]
    if r < 0.57:
        return [5, sub()] if rng.random() < 0.6 else [6]
    if r < 0.62:
        return [rng.choice([7, 8]), sub()]
    if r < 0.67:
        return [9, many(0, 3)]
    if r < 0.70:
        return [10, sub()]
    if r < 0.73:
        return [11, [gen_wide(rng, depth - 1, ctx.keyed()) for _ in range(rng.randint(0, 3))]]
    if r < 0.77:
        # (an EMPTY StaticVec has no node and no marker: as the branch of a closure it can neither be replaced in
        # place nor rebuilt once unmounted — it panics on any tree, C03's subject — so dynamic views have none)
        if ctx.dyn:
            # (nor a non-empty one: entered from a branch that cannot insert before itself — `()` — it is never
            # mounted, has no parent and panics on its next rebuild; C03's subject)
            return [9, many(0, 3)]
        return [20, many(0, 3)]
    if r < 0.80:
        return [21, sub(), sub()] if rng.random() < 0.4 else [28, [sub() for _ in range(rng.choice([0, 1, 3]))]]
    if r < 0.84:
        if rng.random() < 0.4:
            return [18, rng.randrange(3), sub()]
        n = rng.choice([4, 8, 16])
        return [29, n, rng.randrange(n), sub()]
    if r < 0.87:
        for _ in range(8):
            x = [16, sub(), sub(), rng.randint(0, 1)]
            if not (ctx.dyn and has_op(x, (20,))):
                return x
        return gen_leaf(rng, ctx)
    if r < 0.90:
        return [19, 1, sub()] if rng.random() < 0.75 else [19, 0]
    if r < 0.92:
        return [23, sub()]
    if r < 0.96:
        v = sub()
        kinds = rng.sample([0, 1, 2, 3], rng.randint(1, 3))
        if has_whole_style(v):
            kinds = [k for k in kinds if k != 2] or [0]
        kinds = [k for k in kinds if k not in spread_kinds(v)]
        if spread_hits_inert(v) or not kinds:
            return v
        vals = {0: b(gen_text(rng)), 1: b(rng.choice(["1", ""])), 2: b(rng.choice(STYLE_VALS)), 3: b(rng.choice(["k", "s"]))}
        return [25, [[k, vals[k]] for k in sorted(kinds)], v]
    if r < 0.98:
        # (in a dynamic view the content of a Suspend may be built by a task after a re-run disposed the owner)
        return [14, 0, 0, gen_wide(rng, depth - 1, ctx.keyed() if ctx.dyn else ctx.plain())]
    if ctx.dyn and ctx.nsig and rng.random() < 0.3 and not ctx.svg:
        ctx.ids[0] += 1
        t = 1 if ctx.in_p else rng.choice([0, 1])
        # (the content of a local Suspend is built later, by the spawned task: like a keyed row it only uses the
        # closure / Arc representations — an arena wrapper would belong to an owner that a re-run has disposed)
        return [2, t, [], [[14, ctx.ids[0], 2, gen_wide(rng, depth - 1, ctx.child(t).keyed_here())]]]
    if ctx.dyn and ctx.nsig:
        k = rng.choice([1, 1, 2, 3, 4, 5])
        # (whatever a re-running closure returns is created under that run's owner: an arena signal wrapper made there
        # is disposed by the next run while effects of the previous view may still be queued — "reactive value …
        # already disposed", by leptos' rules a misuse — so only the closure / Arc representations inside)
        alts = [] if k == 5 else [gen_wide(rng, depth - 1, ctx.keyed())
                                  for _ in range({1: rng.randint(2, 3), 2: 2, 3: 1, 4: rng.randint(1, 3)}[k])]
        return [27, k, rng.choice([0, 0, 2]), rng.randrange(ctx.nsig), alts]
    return gen_leaf(rng, ctx)


def kids_of(v):
    op = v[0]
    if op in (2, 26):
        return v[3]
    if op in (4, 9, 11, 20, 28):
        return v[1]
    if op in (5, 7, 8, 10, 23):
        return [v[1]]
    if op == 14:
        return [v[3]]
    if op == 16:
        return [v[1], v[2]]
    if op == 18:
        return [v[2]]
    if op == 19:
        return [v[2]] if v[1] else []
    if op == 21:
        return [v[1], v[2]]
    if op == 25:
        return [v[2]]
    if op == 27:
        return v[4]
    if op == 29:
        return [v[3]]
    return []


def walk(v):
    yield v
    for k in kids_of(v):
        yield from walk(k)


def has_whole_style(v):
    return any(x[0] == 26 and any(a[0] in (5, 14) for a in x[2]) for x in walk(v))


def top_nodes(v):
    """the views whose root nodes are the top-level nodes of v (through the transparent wrappers)"""
    op = v[0]
    if op in (4, 9, 11, 20, 28, 5, 7, 8, 10, 23, 14, 16, 18, 19, 21, 25, 27, 29):
        for k in kids_of(v):
            yield from top_nodes(k)
    else:
        yield v


def spread_hits_inert(v):
    return any(x[0] == 12 for x in top_nodes(v))


def spread_kinds(v):
    """the attribute kinds spread anywhere inside v (one attribute name has one owner per element: a spread is
    never put around another spread of the same attribute)"""
    return {a[0] for x in walk(v) if x[0] == 25 for a in x[1]}


def has_op(v, ops):
    return any(x[0] in ops for x in walk(v))


def local_ids(v):
    return [x[1] for x in walk(v) if x[0] == 14 and x[2] == 2]


# ------------------------------------------------------------------ the second view
def mutate_wide(rng, v, ctx, depth=2):
    """a second view for the rebuild after hydration: values changed, branches flipped, lists resized, sometimes a
    different view altogether (every child is type-erased, so any view valid in this context may follow)"""
    op = v[0]
    r = rng.random()
    if r < 0.07:
        return gen_wide(rng, depth, ctx)
    m = lambda k, c=None: mutate_wide(rng, k, c or ctx.plain(), depth)
    if op == 0:
        return [0, b(gen_text(rng))] if r < 0.7 else v
    if op == 22:
        return [22, v[1], b(gen_text(rng))]
    if op == 24:
        return [24, v[1], b(rng.choice(PRIMS[v[1]]))]
    if op == 13:
        return [13, rng.choice([0, 1, 99])]
    if op == 2 and len(v[3]) == 1 and v[3][0][0] == 14 and v[3][0][2] == 2:
        k = v[3][0]
        return [2, v[1], [], [[14, k[1], 2, mutate_wide(rng, k[3], ctx.child(v[1]).keyed_here(), depth)]]]
    if op == 2:
        c = ctx.child(v[1])
        kids = [mutate_wide(rng, k, c if k[0] == 2 and k[1] == 9 else (c.plain() if v[1] in (4, 10) else c), depth) for k in v[3]]
        return [2, v[1], gen_attrs(rng) if r < 0.5 else v[2], kids]
    if op == 3:
        return [3, v[1], gen_attrs(rng)]
    if op == 26:
        c = ctx.child(v[1])
        attrs = []
        for k, rp, val in v[2]:
            if k in (2, 4):
                attrs.append([k, rp, [1, b("1")] if rng.random() < 0.5 else [0]])
            elif k >= 10:
                attrs.append([k, rp, val])
            elif k == 7:
                attrs.append([k, rp, [1, b(rng.choice(["plain", "<em>hi</em>", "", "x<br>y"]))] if (rp < 3 or rng.random() < 0.6) else [0]])
            elif k == 1:
                attrs.append([k, rp, [1, b(rng.choice(CLASS_VALS))] if (rp < 4 or rng.random() < 0.6) else [0]])
            elif k == 5:
                attrs.append([k, rp, [1, b(rng.choice(WHOLE_STYLES))] if (rp < 3 or rng.random() < 0.6) else [0]])
            elif k == 3:
                attrs.append([k, rp, [1, b(rng.choice(STYLE_VALS))]])
            elif k == 0:
                attrs.append([k, rp, [1, b(gen_text(rng))] if (rp < 3 or rng.random() < 0.6) else [0]])
            elif k == 8:
                attrs.append([k, rng.randrange(2), [1, b(gen_text(rng))]])
            else:
                attrs.append([k, rp, [1, b(gen_text(rng))]])
        return [26, v[1], attrs, [mutate_wide(rng, k, c, depth) for k in v[3]]]
    if op == 4:
        return [4, [m(k) for k in v[1]]]
    if op == 5:
        return [6] if r < 0.4 else [5, m(v[1])]
    if op == 6:
        return [5, gen_wide(rng, 1, ctx.plain())] if r < 0.6 else v
    if op in (7, 8):
        return [15 - op, gen_wide(rng, 1, ctx.plain())] if r < 0.4 else [op, m(v[1])]
    if op in (9, 11, 20):
        ictx = ctx.keyed() if op == 11 else ctx.plain()
        items = [mutate_wide(rng, k, ictx, depth) for k in v[1]]
        if r < 0.35 and items:
            items.pop(rng.randrange(len(items)))
        elif r < 0.7:
            items.insert(rng.randint(0, len(items)), gen_wide(rng, 1, ictx))
        elif r < 0.8 and len(items) > 1:
            rng.shuffle(items)
        return [op, items]
    if op in (10, 23):
        return [op, m(v[1])]
    if op == 14:
        return [14, v[1], v[2], mutate_wide(rng, v[3], ctx.keyed() if ctx.dyn else ctx.plain(), depth)]
    if op == 16:
        return [17, (1 - v[3]) if r < 0.7 else v[3]]
    if op == 18:
        return [18, rng.randrange(3) if r < 0.6 else v[1], m(v[2])]
    if op == 29:
        return [29, v[1], rng.randrange(v[1]) if r < 0.6 else v[2], m(v[3])]
    if op == 19:
        if v[1]:
            return [19, 0] if r < 0.3 else [19, 1, m(v[2])]
        return [19, 1, gen_wide(rng, 1, ctx.plain())] if r < 0.6 else v
    if op == 21:
        return [21, m(v[1]), m(v[2])]
    if op == 28:
        return [28, [m(k) for k in v[1]]]
    if op == 25:
        inner = m(v[2])
        if spread_hits_inert(inner):
            return inner
        attrs = []
        for k, val in v[1]:
            if (k == 2 and has_whole_style(inner)) or k in spread_kinds(inner):
                continue
            attrs.append([k, b(rng.choice(["1", ""])) if k == 1 else b(rng.choice(STYLE_VALS)) if k == 2
                          else b(rng.choice(["k", "s"])) if k == 3 else b(gen_text(rng))])
        if not attrs:
            return inner
        return [25, attrs, inner]
    if op == 27:
        return v
    return v


# ------------------------------------------------------------------ validity (generator preconditions)
def _utf8_ok(bs):
    bytes(bs).decode("utf-8")
    return 0 not in bs and 13 not in bs


def ctx_allows_whole_style(ctx):
    return getattr(ctx, "typed_root", False)


def rich_attrs_ok(attrs, childless, ctx):
    seen = set()
    for a in attrs:
        if not (isinstance(a, list) and len(a) == 3 and isinstance(a[2], list) and a[2] and a[2][0] in (0, 1)):
            return False
        k, rp, val = a
        has = val[0] == 1
        if has and not _utf8_ok(val[1]):
            return False
        if k in (5, 14) and not ctx_allows_whole_style(ctx):
            return False
        if k in (0, 8, 10):
            slot = "dir"
        elif k in (1, 11):
            slot = "class"
        elif k in (12,) or (k == 2 and rp % 2 == 0):
            slot = "on"
        elif k == 2:
            slot = "k2"
        elif k in (5, 14):
            slot = "style"
        elif k == 13 or (k == 3 and rp % 2 == 0):
            slot = "width"
        elif k == 3:
            slot = "color"
        elif k in (4, 6, 7):
            slot = k
        else:
            return False
        if slot in seen:
            return False
        seen.add(slot)
        if k >= 10:
            if not (ctx.dyn and has and 0 <= rp < 12) or ctx.in_keyed:
                return False
            try:
                if not (0 <= int(bytes(val[1]).decode()) < ctx.nsig):
                    return False
            except Exception:
                return False
        elif k == 0 and not (0 <= rp < 4 and (has or rp == 3)):
            return False
        elif k == 1 and not (0 <= rp < 5 and (has or rp == 4)):
            return False
        elif k == 2 and rp not in (0, 1):
            return False
        elif k == 3 and not (rp in (0, 2, 4) and has and not (set(val[1]) & {59, 34, 38, 60, 62})):
            return False
        elif k == 5 and not (0 <= rp < 4 and (has or rp == 3) and not (has and set(val[1]) & {34, 38, 60, 62})):
            return False
        elif k == 6 and not (0 <= rp < 4 and has):
            return False
        elif k == 7 and not (0 <= rp < 4 and childless and (has or rp == 3)):
            return False
        elif k == 8 and not (rp in (0, 1) and has):
            return False
        if k == 1 and has and set(val[1]) & {34, 38, 60, 62}:
            return False
    if "style" in seen and ("width" in seen or "color" in seen):
        return False
    if any(a[0] in (1, 11) for a in attrs) and any(a[0] == 12 for a in attrs):
        return False
    return True


def wide_ok(v, ctx):
    """shape and nesting are what the generator produces (the shrinker stays inside this)"""
    try:
        return _wide_ok(v, ctx)
    except Exception:
        return False


def _wide_ok(v, ctx):
    if not (isinstance(v, list) and v):
        return False
    op = v[0]
    sub = lambda k: _wide_ok(k, ctx.plain())
    if ctx.svg and op in (3, 12, 15, 26):
        return False
    if op == 15:
        from . import c05
        return (not ctx.dyn) and len(v) == 4 and c05.shape_ok([15, min(v[1], 2), v[2], v[3]]) and 0 <= v[1] <= 3 and not (
            v[1] == 3 and any(p[0] == 1 and 60 in p[1] for p in v[3]))
    if op == 0:
        return len(v) == 2 and _utf8_ok(v[1])
    if op in (1, 6):
        return len(v) == 1
    if op == 13:
        return len(v) == 2 and isinstance(v[1], int) and 0 <= v[1] < 2 ** 32
    if op == 22:
        return len(v) == 3 and v[1] in (0, 1, 2, 3) and _utf8_ok(v[2])
    if op == 24:
        return len(v) == 3 and v[1] in PRIMS and bytes(v[2]).decode() in PRIMS[v[1]]
    if op == 3:
        return len(v) == 3 and 0 <= v[1] < 4 and not (ctx.in_p and v[1] == 1) and _attrs_ok(v[2])
    if op == 2:
        if not (len(v) == 4 and 0 <= v[1] < 16 and tag_ok(v[1], ctx) and _attrs_ok(v[2])):
            return False
        c = ctx.child(v[1])
        if len(v[3]) == 1 and v[3][0][:1] == [14] and len(v[3][0]) == 4 and v[3][0][2] == 2:
            # a local Suspend: the only child of its element, so that the Position it hands back does not matter
            return ctx.dyn and v[1] in (0, 1) and v[2] == [] and isinstance(v[3][0][1], int) and _wide_ok(v[3][0][3], c.keyed_here())
        return all(_wide_ok(k, c if (k and k[0] == 2 and k[1] == 9) or v[1] not in (4, 10) else c.plain()) for k in v[3])
    if op == 26:
        if not (len(v) == 4 and v[1] in (0, 1, 2) and not (ctx.in_p and v[1] != 1)):
            return False
        if not rich_attrs_ok(v[2], len(v[3]) == 0, ctx):
            return False
        c = ctx.child(v[1])
        return all(_wide_ok(k, c) for k in v[3])
    if op == 4:
        return len(v) == 2 and len(v[1]) >= 1 and all(sub(k) for k in v[1])
    if op == 11:
        return len(v) == 2 and all(_wide_ok(k, ctx.keyed()) for k in v[1])
    if op in (9, 20):
        return len(v) == 2 and all(sub(k) for k in v[1]) and not (op == 20 and ctx.dyn)
    if op == 28:
        return len(v) == 2 and len(v[1]) in (0, 1, 3) and all(sub(k) for k in v[1])
    if op in (5, 7, 8, 10, 23):
        return len(v) == 2 and sub(v[1])
    if op == 14:
        return len(v) == 4 and v[2] == 0 and _wide_ok(v[3], ctx.keyed() if ctx.dyn else ctx.plain())
    if op == 16:
        # (the hidden side of a keep-alive inside a dynamic part is rebuilt while unmounted: a StaticVec panics
        # there on any tree, hydrated or not — C03's subject, reported to its builder)
        return len(v) == 4 and v[3] in (0, 1) and sub(v[1]) and sub(v[2]) and not (ctx.dyn and has_op(v, (20,)))
    if op == 17:
        return len(v) == 2 and v[1] in (0, 1)
    if op == 18:
        return len(v) == 3 and v[1] in (0, 1, 2) and sub(v[2])
    if op == 29:
        return len(v) == 4 and v[1] in (4, 8, 16) and 0 <= v[2] < v[1] and sub(v[3])
    if op == 19:
        return v == [19, 0] or (len(v) == 3 and v[1] == 1 and sub(v[2]))
    if op == 21:
        return len(v) == 3 and sub(v[1]) and sub(v[2])
    if op == 25:
        if not (len(v) == 3 and v[1] and sub(v[2])):
            return False
        ks = [a[0] for a in v[1]]
        if ks != sorted(set(ks)) or any(k not in (0, 1, 2, 3) for k in ks) or not all(_utf8_ok(a[1]) for a in v[1]):
            return False
        if any(a[0] == 2 and set(a[1]) & {59, 34, 38, 60, 62} for a in v[1]):
            return False
        return not spread_hits_inert(v[2]) and not (2 in ks and has_whole_style(v[2])) and not (set(ks) & spread_kinds(v[2]))
    if op == 27:
        if not (ctx.dyn and len(v) == 5 and 0 <= v[3] < ctx.nsig):
            return False
        if v[1] == 0:
            return 0 <= v[2] < 12 and v[4] == [] and not (ctx.in_keyed and v[2] not in ARC_REPRS)
        if v[1] not in (1, 2, 3, 4, 5) or v[2] not in (0, 2):
            return False
        need = {1: (1, 9), 2: (2, 2), 3: (1, 1), 4: (1, 9), 5: (0, 0)}[v[1]]
        return need[0] <= len(v[4]) <= need[1] and all(_wide_ok(k, ctx.keyed()) for k in v[4])
    if op == 12:
        from . import c05
        return (not ctx.svg) and len(v) == 2 and c05.inert_shape_ok(v[1], top=True) and c05.inert_content_ok(v[1], ctx.in_p)
    return False


def _attrs_ok(a):
    ks = [x[0] for x in a]
    return ks == sorted(set(ks)) and all(0 <= k <= 2 for k in ks) and all(_utf8_ok(x[1]) for x in a)


def no17(v):
    return not has_op(v, (17,))


# ------------------------------------------------------------------ rendering for humans
def show(v):
    from . import c05
    op = v[0]
    if op == 2 and v[1] >= 6:
        a = "".join(" %s=%r" % (c05.KEYS[k], C.show_bytes(x)) for k, x in v[2])
        return "<%s%s>[%s]" % (TAGS[v[1]], a, ", ".join(show(k) for k in v[3]))
    if op == 2:
        a = "".join(" %s=%r" % (c05.KEYS[k], C.show_bytes(x)) for k, x in v[2])
        return "<%s%s>[%s]" % (TAGS[v[1]], a, ", ".join(show(k) for k in v[3]))
    if op == 22:
        return "%s(%r)" % (["Arc<str>", "Cow::Owned", "&'static str", "Cow::Borrowed"][v[1]], C.show_bytes(v[2]))
    if op == 24:
        names = ["i64", "u8", "usize", "u128", "i128", "f64", "f32", "bool", "char", "Ipv4Addr", "Ipv6Addr", "SocketAddr",
                 "NonZeroU8", "NonZeroI64", "i8", "IpAddr"]
        return "%s(%s)" % (names[v[1]], C.show_bytes(v[2]))
    if op == 25:
        names = ["data-sp", "class:sp", "style:height", "accesskey"]
        return "spread{%s}(%s)" % (", ".join("%s=%r" % (names[k], C.show_bytes(x)) for k, x in v[1]), show(v[2]))
    if op == 26:
        kinds = {0: "dir", 1: "class", 2: "class:", 3: "style:", 4: "hidden", 5: "style", 6: "data-k", 7: "inner_html", 8: "either",
                 10: "dir~", 11: "class~", 12: "class:on~", 13: "style:width~", 14: "style~"}
        a = " ".join("%s#%d=%s" % (kinds.get(k, "?"), rp, repr(C.show_bytes(val[1])) if val[0] else "None") for k, rp, val in v[2])
        return "<%s {%s}>[%s]" % (["div", "span", "p"][v[1]], a, ", ".join(show(k) for k in v[3]))
    if op == 27:
        kinds = ["text", "switch", "either", "option", "vec", "keyed"]
        reprs = ["FnMut", "Arc<dyn Fn>", "Arc<Mutex<FnMut>>", "RwSignal", "ReadSignal", "Memo", "Signal", "MaybeSignal",
                 "ArcRwSignal", "ArcReadSignal", "ArcMemo", "ArcSignal"]
        return "dyn-%s[%s s%d](%s)" % (kinds[v[1]], reprs[v[2]], v[3], ", ".join(show(k) for k in v[4]))
    if op == 28:
        return "[%s; %d]" % (", ".join(show(k) for k in v[1]), len(v[1]))
    if op == 29:
        return "EitherOf%d::%s(%s)" % (v[1], "ABCDEFGHIJKLMNOP"[v[2]], show(v[3]))
    if op == 14 and v[2] == 2:
        return "Suspend#%d[local](%s)" % (v[1], show(v[3]))
    if op in (4, 9, 11, 20):
        name = {4: "(", 9: "vec![", 11: "keyed[", 20: "StaticVec["}[op]
        return name + ", ".join(show(k) for k in v[1]) + (",)" if op == 4 else "]")
    if op in (5, 7, 8, 10, 23):
        return "%s(%s)" % ({5: "Some", 7: "Left", 8: "Right", 10: "Any", 23: "Owned"}[op], show(v[1]))
    if op == 14:
        return "Suspend#%d(%s)" % (v[1], show(v[3]))
    if op == 16:
        return "KeepAlive{a: %s, b: %s, show_b: %d}" % (show(v[1]), show(v[2]), v[3])
    if op == 18:
        return "EitherOf3::%s(%s)" % ("ABC"[v[1]], show(v[2]))
    if op == 19:
        return "Ok(%s)" % show(v[2]) if v[1] else "Err(..)"
    if op == 21:
        return "[%s, %s]" % (show(v[1]), show(v[2]))
    if op == 15:
        return "<%s>[%s]" % (["textarea", "style", "script", "noscript"][v[1]], ", ".join(
            repr(C.show_bytes(x[1])) if x[0] == 1 else ["()", "None", "vec![]"][x[1]] for x in v[3]))
    return c05._show(v)
