"""C08 — owner disposal releases exactly what the scope created, exactly once."""
from . import common as C

PID = "C08"
PROPS_V = "theories/Props/Properties_C08.v"
MODEL_NAME = "Reactive/Owner.v"
HARNESS = "rx2"
HARNESS_ARGS = ["c08"]
ALLOWED_AXIOMS = []
RUN_IMPORT = "Reactive.OwnerRun"
READY = True

RULE = ("cases drawn from one PRNG (VERIF_SEED): a random scope program (root body of statements: new signal, new stored "
        "value, new raw ArenaItem<T, S> (24 (type, storage) pairs: Copy scalars, tuples, arrays, unit, fn pointers, "
        "&'static str, Option<char>, String, Box, Arc, Rc, Cell in SyncStorage and LocalStorage, via ArenaItem::new / "
        "new_local / new_with_storage; one kind is favoured per case so that freed slots are reused by the same type), typed "
        "arena handles made by their own constructors and conversions (signal(), read_only() / write_only(), RwSignal / "
        "ReadSignal / WriteSignal / StoredValue from their Arc forms, new_local, store_value, Signal::derive / stored: one or "
        "two arena entries each), on_cleanup / Owner::on_cleanup, take_context, update_context, use_context / with_context / "
        "expect_context, child owners made by Owner::new + with, Owner::current().child() or Owner::new + set, every Effect "
        "(new, new_sync, new_isomorphic, watch, watch immediate, watch_sync, create_effect), RenderEffect (new, "
        "new_isomorphic, new_with_value), ImmediateEffect (new, new_mut, new_isomorphic, new_scoped) and Memo (new, "
        "new_with_compare, new_owning, from ArcMemo) constructor, on_cleanup, provide_context(ty, v), use_context(ty), child owner {body}, Effect::new {body}, "
        "Effect::new_isomorphic {body}, Effect::watch {body as dependency fn}, RenderEffect {body}, ImmediateEffect {body}, memo {body}; nesting "
        "depth <= 3) run under a fresh root Owner, followed by a history of operations chosen against a Python simulation "
        "of the live entities: re-run / cleanup / cleanup-while-current / drop-handle of any user scope at any depth, notify effect, notify memo, "
        "read memo, poll one effect task, run tasks until idle in a chosen order, notify an immediate effect (re-runs "
        "synchronously), allocate n stored values / n raw arena items of a kind under a scope after disposals, dispose a "
        "value (dispose(), or into_inner() = Storage::take for a raw item) / memo / effect handle, drop a "
        "render-effect / immediate-effect handle, pause / resume a scope, use_context at a scope; 7 % of the "
        "targets are stale or out of range on purpose. Notifications are left pending across disposals (a notified, "
        "not-yet-polled effect whose scope dies). A case is non-trivial when at least one release (re-run, cleanup, drop, "
        "dispose of memo) hits a scope that owns a nested scope and at least one cleanup runs; distinct = distinct case hash.")
TRUSTED = [
    "Coq 8.16.1 kernel (coqc); no axioms",
    "extraction to OCaml with ExtrOcamlBasic only, ocamlfind ocamlopt 4.13.1, extract/driver.ml sexp I/O",
    "harness/rx2 (Rust): src/exec.rs executor (tasks polled only on request), src/c08.rs interpreting the statement language "
    "with the real Owner / on_cleanup / provide_context / use_context / RwSignal / StoredValue / ArenaItem<T, S> "
    "(read through try_with_value and try_get_value, is_disposed() cross-checked against the access for every handle) / "
    "Effect::{new, new_isomorphic, "
    "watch} / RenderEffect / ImmediateEffect / Memo / ArcTrigger API; "
    "slot keys are read from the handles' Debug rendering (NodeId(<idx>v<version>)) and canonicalised (index by first "
    "appearance, version relative to the first one seen), the arena length through the verif-hook verif_arena_len()",
    "modelled, not verified: slotmap::SlotMap (LIFO free list, version bump on removal, key = (index, version)); "
    "Arc/Weak reference counting of Owner (one strong holder per owner: the harness, the effect's task, the memo, or the "
    "ImmediateEffect's inner state, i.e. its handle); a RenderEffect has no arena entry and lives as long as its handle; "
    "the effect's notification path (ArcTrigger -> EffectInner::mark_dirty -> channel flag -> waker) as three flags; "
    "since /repo 70e5989 an owner removes all its arena nodes first and drops the removed values after releasing the arena "
    "lock, while the model drops a memo's owner right when the memo's entry is removed: not distinguishable here, the memo's "
    "owner being a child of the same scope and therefore already emptied (children are cleaned first)",
    "memo dirtiness as one flag; Effect::stop as the same 'Sender gone' flag as a dropped RenderEffect handle",
]
ASSUMPTIONS = [
    "'effects created under it never run again' is about the effects a scope owns: Effect (arena entry registered with the scope), "
    "ImmediateEffect::new_scoped, and whatever the released values keep alive. A RenderEffect and an ImmediateEffect belong to "
    "their handle by documented design ('canceled when the RenderEffect itself is dropped, rather than … when the Owner cleans "
    "up', 'ImmediateEffects stop running when dropped'): the harness keeps those handles outside the scope, so an immediate / "
    "render effect created in an earlier run of its parent still runs on notification until its handle is dropped (op 24 / 27) "
    "- model and oracle say so on purpose (a `disposed` flag on owners that would cancel them was tried in /repo and withdrawn: "
    "it broke Suspense, keyed lists and hydration, C05/C07/C11/C20)",
    "the model's two ghost flags stay false on every generated case (checked: the model would print -99 / -98 and "
    "mismatch): err = a fuel bound was hit (proved impossible for the release cascade; for the scheduler of RunAll it "
    "is a hypothesis of the theorems), unowned = a value was allocated with no live current owner (hypothesis of no_leak)",
    "single-threaded, atomic polls",
    "cleanup functions that themselves register cleanups, allocate values or read a context (12 % of the programs; what they "
    "register lands on the owner that is current while they run: the root scope, which stays current during the history like "
    "a mounted application's, or the cleaned scope itself under op 30 `o.with(|| o.cleanup())`; with no live current owner a "
    "registered cleanup is dropped unrun and a value belongs to nobody) are not in the Coq model: those programs are judged by "
    "the Python oracle alone (compared, not proved); cleanup functions that create owners / effects / memos are not generated",
    "ImmediateEffect::new_scoped (the creating scope holds the effect and drops it in one of its cleanups) is not in the Coq "
    "model: programs containing it are judged by the Python oracle alone (compared, not proved)",
    "Owner::child() copies the parent's paused flag; no effect owner is made that way, so the copy is not observable and not modelled",
    "reference-count overflow / slotmap version wrap-around (2^31 reuses of one slot) do not occur",
    "a cleanup releases the child scopes it reaches: a child owner whose handle the program keeps and re-uses after its "
    "parent was cleaned up is an independent scope from then on (the parent's children list was taken)",
    "values are allocated while some owner is current (otherwise nothing owns them, by design)",
]

N_QUICK = 6000
SHRINK_PREFIX = 0       # a case is (body ops), there is no opcode: the shrinker may cut into the body as well
N_THOROUGH = 30000


# ------------------------------------------------------------------ reference bookkeeping (independent of the Coq model)
class Scope:
    def __init__(self, sid, parent, holder, body):
        self.sid, self.parent, self.holder, self.body = sid, parent, holder, body
        self.kids, self.vals, self.cleanups = [], [], []
        self.ctx = {}
        self.alive = True
        self.paused = False
        self.held = holder == "user"


EFFECT_TAGS = (6, 9, 10, 15, 16, 17, 18)      # Effect::new / new_isomorphic / watch / new_sync / watch_sync / watch(immediate) / create_effect
RENDER_TAGS = (8, 19, 20)                     # RenderEffect::new / new_isomorphic / new_with_value
IMM_TAGS = (11, 21, 22, 23)                   # ImmediateEffect::new / new_mut / new_isomorphic / new_scoped
MEMO_TAGS = (7, 24, 25, 26)                   # Memo::new / new_with_compare / new_owning / from(ArcMemo)
NESTED_TAGS = (5,) + EFFECT_TAGS + RENDER_TAGS + IMM_TAGS + MEMO_TAGS
N_HK = 13                                     # typed arena handles (statement 27), see harness/rx2/src/c08.rs new_typed
HK_SLOTS = {0: 2, 7: 2, 8: 2}
HKN = ["signal() = ReadSignal + WriteSignal", "WriteSignal::from(ArcWriteSignal)", "StoredValue::new_local", "store_value", "StoredValue::from(ArcStoredValue)",
       "RwSignal::new_local", "RwSignal::from(ArcRwSignal)", "RwSignal + read_only()", "RwSignal + write_only()",
       "Signal::derive", "Signal::stored", "ReadSignal::from(ArcReadSignal)", "RwSignal::from(&ArcRwSignal)"]


class Sim:
    """who created what, and what a release must therefore do"""

    def __init__(self, body):
        self.scopes, self.handles, self.effects, self.memos, self.imms = [], [], [], [], []
        self.ncid = 0
        self.log = []          # entries of the current op
        self.rel = []          # (cid, path) released in the current op, in order
        self.ever_cleaned = []
        # where things registered while no owner is current go: nowhere
        self.nowhere = Scope(-1, None, "user", [])
        self.nowhere.alive = False
        self.ambient = None
        root = self.new_scope(None, "user", body)
        self.run_body(root, body)
        # the root scope stays the thread's current owner while the history runs (root.set())
        self.ambient = root

    # --- creation
    def new_scope(self, parent, holder, body):
        par = parent if (parent is not None and parent.alive) else None
        s = Scope(len(self.scopes), par, holder, body)
        self.scopes.append(s)
        if par is not None:
            par.kids.append(s)
        return s

    def run_body(self, sc, body):
        for st in body:
            t = st[0]
            if t in (0, 1, 12, 27):
                for _ in range(HK_SLOTS.get(st[1], 1) if t == 27 else 1):
                    h = dict(alive=True, hid=len(self.handles), kind=(st[1] if t == 12 else None),
                             hk=(st[1] if t == 27 else None))
                    self.handles.append(h)
                    if sc.alive:
                        sc.vals.append(("h", h))
            elif t == 2:
                cid = self.ncid
                self.ncid += 1
                if sc.alive:
                    sc.cleanups.append(("c", cid, st[2] if len(st) > 2 else []))
            elif t == 3:
                sc.ctx[st[1] if st[1] < 2 else 2] = st[2]
            elif t == 4:
                self.log.append(("use", st[1], self.lookup(sc, st[1])))
            elif t in (13, 14):
                ty = st[1] if st[1] < 2 else 2
                p = self.provider(sc, ty)
                self.log.append(("use", st[1], p.ctx[ty] if p is not None else None))
                if p is not None:
                    if t == 13:
                        del p.ctx[ty]           # take_context removes the nearest binding
                    else:
                        p.ctx[ty] = st[2]       # update_context replaces it where it is
            elif t == 5:
                ch = self.new_scope(sc, "user", st[1])
                self.run_body(ch, st[1])
            elif t in RENDER_TAGS:
                # render effect: not owned by the arena, runs at once; its task is numbered after
                # the tasks of the effects its body creates
                own = self.new_scope(sc, "effect", st[1])
                self.log.append(("rinit", own.sid))
                self.run_body(own, st[1])
                e = dict(eid=len(self.effects), scope=own, alive=True, set=False, dirty=False, first=False,
                         woken=True, done=False, body=st[1], render=True)
                self.effects.append(e)
            elif t in IMM_TAGS:
                own = self.new_scope(sc, "imm", st[1])
                m = dict(iid=len(self.imms), scope=own, held=True, body=st[1])
                self.imms.append(m)
                if t == 23:
                    # new_scoped: the current owner holds the handle and drops it in one of its cleanups
                    m["scoped"] = True
                    if sc.alive:
                        sc.cleanups.append(("imm", m))
                    else:
                        m["held"] = False       # no live owner to register with: dropped at once
                        self.release(own, True, ())
                self.log.append(("imm", m["iid"]))
                self.run_body(own, st[1])
            elif t in EFFECT_TAGS:
                own = self.new_scope(sc, "effect", st[1])
                e = dict(eid=len(self.effects), scope=own, alive=True, set=True, dirty=True, first=True, woken=True,
                         done=False, body=st[1], render=False)
                self.effects.append(e)
                if sc.alive:
                    sc.vals.append(("e", e))
            elif t in MEMO_TAGS:
                own = self.new_scope(sc, "memo", st[1])
                m = dict(mid=len(self.memos), scope=own, alive=True, dirty=True, sub=False, body=st[1])
                self.memos.append(m)
                if sc.alive:
                    sc.vals.append(("m", m))

    def provider(self, sc, ty):
        cur = sc
        while cur is not None and cur.alive:
            if ty in cur.ctx:
                return cur
            cur = cur.parent
        return None

    def lookup(self, sc, ty):
        ty = ty if ty < 2 else 2
        p = self.provider(sc, ty)
        return p.ctx[ty] if p is not None else None

    # --- release
    def release(self, sc, kill, path):
        if not sc.alive:
            return
        kids, vals, cleanups = sc.kids, sc.vals, sc.cleanups
        sc.kids, sc.vals, sc.cleanups = [], [], []
        if kill:
            sc.alive = False
            sc.ctx = {}
        path = path + (sc.sid,)
        for k in kids:
            self.release(k, False, path)
        for ent in cleanups:
            if ent[0] == "imm":
                m = ent[1]              # the cleanup registered by ImmediateEffect::new_scoped drops the effect
                if m["held"]:
                    m["held"] = False
                    self.release(m["scope"], True, path)
            else:
                self.rel.append((ent[1], path))
                # what the cleanup function itself registers / allocates / looks up goes to the owner that is
                # current while it runs (not the one being cleaned, unless that is the current one); with no live
                # current owner a registered cleanup is dropped unrun and an allocated value belongs to nobody
                a = self.ambient
                self.run_body(a if (a is not None and a.alive) else self.nowhere, ent[2])
        for kind, v in vals:
            self.remove(kind, v, path)

    def remove(self, kind, v, path):
        if not v["alive"]:
            return
        v["alive"] = False
        if kind == "m":
            self.release(v["scope"], True, path)

    # --- effects
    def ready(self):
        return [e["eid"] for e in self.effects if not e["done"] and (e["woken"] or not e["alive"])]

    def poll(self, i):
        if not (0 <= i < len(self.effects)):
            return
        e = self.effects[i]
        if e["done"] or not (e["woken"] or not e["alive"]):
            return
        e["woken"] = False
        if not e["alive"]:
            e["done"] = True
            self.release(e["scope"], True, ())
            return
        if not e["set"]:
            return
        e["set"] = False
        if e["scope"].paused:
            return
        run = e["dirty"] or e["first"]
        e["dirty"] = False
        if run:
            e["first"] = False
            self.release(e["scope"], False, ())
            self.log.append(("eff", i))
            self.run_body(e["scope"], e["body"])

    def run_all(self, picks):
        picks = list(picks)
        for _ in range(100000):
            r = self.ready()
            if not r:
                return
            p = picks.pop(0) if picks else 0
            self.poll(r[p % len(r)])
        raise RuntimeError("run_all does not terminate")

    def user(self, o):
        if 0 <= o < len(self.scopes):
            s = self.scopes[o]
            if s.holder == "user" and s.held and s.alive:
                return s
        return None

    def set_paused(self, sc, b):
        if not sc.alive:
            return
        sc.paused = b
        for k in sc.kids:
            self.set_paused(k, b)

    def step(self, op):
        t = op[0]
        a = op[1] if len(op) > 1 and isinstance(op[1], int) else 0
        if t == 10:
            s = self.user(a)
            if s:
                self.release(s, False, ())
                self.run_body(s, s.body)
        elif t == 11:
            s = self.user(a)
            if s:
                self.release(s, False, ())
        elif t == 30:
            s = self.user(a)
            if s:
                prev, self.ambient = self.ambient, s      # o.with(|| o.cleanup())
                self.release(s, False, ())
                self.ambient = prev
        elif t == 12:
            s = self.user(a)
            if s:
                s.held = False
                self.release(s, True, ())
        elif t == 13:
            if a < len(self.effects):
                e = self.effects[a]
                if e["alive"] and not e["first"]:
                    e["dirty"] = e["set"] = True
                    e["woken"] = not e["done"]
        elif t == 14:
            if a < len(self.memos):
                m = self.memos[a]
                if m["alive"] and m["sub"]:
                    m["dirty"] = True
        elif t == 15:
            if a < len(self.memos):
                m = self.memos[a]
                if m["alive"] and m["dirty"]:
                    m["dirty"] = False
                    m["sub"] = True
                    self.release(m["scope"], False, ())
                    self.log.append(("memo", a))
                    self.run_body(m["scope"], m["body"])
                self.log.append(("read", a, m["alive"]))
        elif t == 16:
            self.poll(a)
        elif t == 17:
            self.run_all(op[1])
        elif t == 18:
            s = self.user(a)
            if s:
                self.run_body(s, [[1]] * op[2])
        elif t == 28:
            s = self.user(a)
            if s:
                self.run_body(s, [[12, op[3]]] * op[2])
        elif t in (19, 29):
            if a < len(self.handles):
                self.remove("h", self.handles[a], ())
        elif t == 20:
            s = self.user(a)
            if s:
                self.set_paused(s, True)
        elif t == 21:
            s = self.user(a)
            if s:
                self.set_paused(s, False)
        elif t == 22:
            s = self.user(a)
            if s:
                self.log.append(("use", op[2], self.lookup(s, op[2])))
        elif t == 23:
            if a < len(self.memos):
                self.remove("m", self.memos[a], ())
        elif t == 24:
            if a < len(self.effects):
                self.remove("e", self.effects[a], ())      # arena entry removed / render handle dropped
        elif t == 25:
            if a < len(self.effects):
                e = self.effects[a]
                if not e["render"]:
                    e["alive"] = False       # Effect::stop: never runs again, its task ends at the next poll
        elif t == 26:
            if a < len(self.imms):
                m = self.imms[a]
                if m["held"] and not m["scope"].paused:
                    self.release(m["scope"], False, ())
                    self.log.append(("imm", a))
                    self.run_body(m["scope"], m["body"])
        elif t == 27:
            if a < len(self.imms):
                m = self.imms[a]
                if m["held"] and not m.get("scoped"):
                    m["held"] = False
                    self.release(m["scope"], True, ())

    def finish(self):
        for s in list(self.scopes):
            if s.holder == "user" and s.held and s.alive:
                s.held = False
                self.release(s, True, ())
        for e in self.effects:
            if e["render"]:
                self.remove("e", e, ())
        for i in range(len(self.imms)):
            self.step([27, i])
        self.run_all([])

    def take(self):
        l, r = self.log, self.rel
        self.log, self.rel = [], []
        return l, r


# ------------------------------------------------------------------ generator
N_KINDS = 24          # (type, storage) pairs of raw arena items in harness/rx2/src/c08.rs
KINDN = ["u32", "(u8,bool)", "fn()->u32", "String", "Arc<i64>", "i64", "&'static str", "()", "[u8;4]", "Box<i64>",
         "Option<char>", "u32", "u32", "(u8,bool)", "fn()->u32", "String", "Rc<i64>", "i64", "&'static str", "()",
         "Cell<u32>", "Box<i64>", "Arc<i64>", "Option<char>"]


def kind_name(k):
    return "%s/%s" % (KINDN[k % N_KINDS], "Sync" if k % N_KINDS < 12 else "Local")


def gen_cleanup_body(rng, depth):
    """what a cleanup function does besides being logged: registers further cleanups, allocates values, reads a context"""
    out = []
    for _ in range(rng.choice([1, 1, 2, 3])):
        r = rng.random()
        if r < 0.4:
            out.append([2, 0, gen_cleanup_body(rng, depth + 1)] if (depth < 2 and rng.random() < 0.3) else [2])
        elif r < 0.6:
            out.append([1])
        elif r < 0.75:
            out.append([0])
        elif r < 0.85:
            out.append([12, rng.randrange(N_KINDS)])
        else:
            out.append([4, rng.randint(0, 2), rng.randint(0, 2)])
    return out


def has_cleanup_body(body):
    for st in body:
        if st[0] == 2 and len(st) > 2 and st[2]:
            return True
        if st[0] in NESTED_TAGS and has_cleanup_body(st[1]):
            return True
    return False


def gen_body(rng, depth, budget, ctxy=False, fav=0, cb=False):
    n = rng.choice([1, 2, 3, 4]) if depth > 0 else rng.choice([2, 3, 4, 5])
    out = []
    for _ in range(n):
        if budget[0] <= 0:
            break
        budget[0] -= 1
        r = rng.random()
        if ctxy:
            # context-heavy profile: providers a few levels up, lookups deep inside
            if r < 0.04:
                out.append([12, fav if rng.random() < 0.5 else rng.randrange(N_KINDS)])
            elif r < 0.25:
                out.append([3, rng.randint(0, 2), rng.randint(1, 99)])
            elif r < 0.31:
                out.append([13, rng.randint(0, 2)])
            elif r < 0.37:
                out.append([14, rng.randint(0, 2), rng.randint(100, 199)])
            elif r < 0.55:
                out.append([4, rng.randint(0, 2), rng.randint(0, 2)])
            elif r < 0.65 or depth >= 3:
                out.append([2])
            elif r < 0.85:
                out.append([5, gen_body(rng, depth + 1, budget, True, fav, cb), rng.randint(0, 2)])
            elif r < 0.92:
                out.append([rng.choice([6, 8, 11]), gen_body(rng, depth + 1, budget, True, fav, cb)])
            else:
                out.append([rng.choice(MEMO_TAGS), gen_body(rng, depth + 1, budget, True, fav, cb)])
            continue
        if r < 0.09:
            out.append([0])
        elif r < 0.18:
            out.append([1])
        elif r < 0.27:
            out.append([12, fav if rng.random() < 0.5 else rng.randrange(N_KINDS)])
        elif r < 0.33:
            out.append([27, rng.randrange(N_HK)])
        elif r < 0.48:
            if cb and rng.random() < 0.45:
                out.append([2, rng.randint(0, 1), gen_cleanup_body(rng, 0)])
            else:
                out.append([2] if rng.random() < 0.7 else [2, 1])
        elif r < 0.55:
            out.append([3, rng.randint(0, 2), rng.randint(1, 99)])
        elif r < 0.61:
            out.append([4, rng.randint(0, 2), rng.randint(0, 2)])
        elif r < 0.625:
            out.append([13, rng.randint(0, 2)])
        elif r < 0.64:
            out.append([14, rng.randint(0, 2), rng.randint(100, 199)])
        elif depth >= 3:
            out.append([2])
        elif r < 0.73:
            out.append([5, gen_body(rng, depth + 1, budget, False, fav, cb), rng.choice([0, 0, 1, 2])])
        elif r < 0.81:
            out.append([rng.choice([6, 6, 9, 10] + list(EFFECT_TAGS)), gen_body(rng, depth + 1, budget, False, fav, cb)])
        elif r < 0.89:
            out.append([rng.choice([8, 8] + list(RENDER_TAGS)), gen_body(rng, depth + 1, budget, False, fav, cb)])
        elif r < 0.95:
            out.append([rng.choice([11, 11, 21, 22, 23]), gen_body(rng, depth + 1, budget, False, fav, cb)])
        else:
            out.append([rng.choice(MEMO_TAGS), gen_body(rng, depth + 1, budget, False, fav, cb)])
    return out


def gen_case(rng):
    ctxy = rng.random() < 0.2
    fav = rng.randrange(N_KINDS)
    cb = rng.random() < 0.12      # cleanup functions that register / allocate / read
    body = gen_body(rng, 0, [rng.choice([6, 10, 16, 24])], ctxy, fav, cb)
    sim = Sim(body)
    ops = []
    nops = rng.choice([3, 6, 10, 16])
    for _ in range(nops):
        stale = rng.random() < 0.07

        def pick(n):
            if stale or n == 0:
                return rng.randint(0, n + 1)
            return rng.randint(0, n - 1)

        users = [s.sid for s in sim.scopes if s.holder == "user" and s.held and s.alive]

        def pick_user():
            if stale or not users:
                return rng.randint(0, len(sim.scopes) + 1)
            return rng.choice(users)

        r = rng.random()
        if ctxy and r < 0.3:
            op = [22, pick_user(), rng.randint(0, 2)]
        elif r < 0.16:
            op = [10, pick_user()]
        elif r < 0.24:
            op = [11 if rng.random() < 0.7 else 30, pick_user()]
        elif r < 0.30:
            op = [12, pick_user()]
        elif r < 0.42:
            rend = [e["eid"] for e in sim.effects if e["render"] and e["alive"]]
            op = [13, rng.choice(rend)] if (rend and rng.random() < 0.5) else [13, pick(len(sim.effects))]
        elif r < 0.47:
            op = [14, pick(len(sim.memos))]
        elif r < 0.57:
            op = [15, pick(len(sim.memos))]
        elif r < 0.67:
            op = [16, pick(len(sim.effects))]
        elif r < 0.79:
            op = [17, [rng.randint(0, 5) for _ in range(rng.randint(0, 3))]]
        elif r < 0.815:
            op = [18, pick_user(), rng.randint(1, 3)]
        elif r < 0.84:
            op = [28, pick_user(), rng.randint(1, 3), fav if rng.random() < 0.7 else rng.randrange(N_KINDS)]
        elif r < 0.88:
            op = [rng.choice([19, 19, 29]), pick(len(sim.handles))]
        elif r < 0.91:
            op = [20, pick_user()]
        elif r < 0.94:
            op = [21, pick_user()]
        elif r < 0.97:
            op = [22, pick_user(), rng.randint(0, 2)]
        elif r < 0.975:
            op = [23, pick(len(sim.memos))]
        elif r < 0.983:
            op = [24, pick(len(sim.effects))]
        elif r < 0.99:
            op = [25, pick(len(sim.effects))]
        else:
            op = [27, pick(len(sim.imms))]
        if sim.imms and rng.random() < 0.12:
            op = [26, pick(len(sim.imms))]
        ops.append(op)
        sim.step(op)
        if len(sim.scopes) > 120 or len(sim.handles) > 150:
            break
    return [body, ops]


def has_tag(body, tag):
    return any(st[0] == tag or (st[0] in NESTED_TAGS and has_tag(st[1], tag)) for st in body)


def generate(rng, tier):
    n = N_QUICK if tier == "quick" else N_THOROUGH
    for _ in range(n):
        c = gen_case(rng)
        if has_cleanup_body(c[0]):
            # cleanup functions that register / allocate are not in the Coq model: oracle only
            yield dict(case=c, kind="program-cleanup-bodies", compare=False)
        elif has_tag(c[0], 23):
            # ImmediateEffect::new_scoped is not in the Coq model (its handle is dropped by a cleanup of the scope
            # that created it): such programs are judged by the oracle alone
            yield dict(case=c, kind="program-scoped-immediate", compare=False)
        else:
            yield dict(case=c, kind="program")


# ------------------------------------------------------------------ oracle
def check_point(j, sim, o, disposed_effects, seen_cids):
    """o = (log statuses [ready]) of the implementation after op j; sim already stepped"""
    log, rel = sim.take()
    ilog = o[0]
    # 1. cleanups: exactly the released ones, each once, descendants before ancestors
    got = [e[1] for e in ilog if e[0] == 1]
    want = [cid for cid, _ in rel]
    if sorted(got) != sorted(want):
        return "op %s: cleanups run %r, but the released scopes registered %r" % (j, got, sorted(want))
    for cid in got:
        if cid in seen_cids:
            return "op %s: cleanup %d runs a second time" % (j, cid)
        seen_cids.add(cid)
    pos = {cid: i for i, cid in enumerate(got)}
    for c1, p1 in rel:
        for c2, p2 in rel:
            if len(p1) > len(p2) and p1[:len(p2)] == p2 and pos[c1] > pos[c2]:
                return "op %s: cleanup %d of an ancestor scope ran before cleanup %d of its descendant" % (j, c2, c1)
    # 2. handles: released ones are disposed, everything else still resolves to its own value
    st = o[1]
    if len(st) != len(sim.handles):
        return "op %s: %d handle states for %d handles" % (j, len(st), len(sim.handles))
    for h, v in zip(sim.handles, st):
        what = "handle %d" % h["hid"] + (" (raw ArenaItem<%s>)" % kind_name(h["kind"]) if h.get("kind") is not None else "") + (
            " (%s)" % HKN[h["hk"] % N_HK] if h.get("hk") is not None else "")
        if v in (-4, -5):
            return "op %s: %s: is_disposed() says %s but the value %s" % (
                j, what, "disposed" if v == -4 else "not disposed", "still resolves" if v == -4 else "does not resolve")
        if h["alive"] and v != h["hid"]:
            return "op %s: %s was not released but reads %r" % (j, what, v)
        if not h["alive"] and v != -1:
            return "op %s: %s was released but is not reported disposed and still resolves (to %r)" % (j, what, v)
    # 3. effects of released scopes never run again; disposed memos do not resolve
    for e in ilog:
        if e[0] == 2 and e[1] in disposed_effects:
            return "op %s: effect %d runs after its scope was released" % (j, e[1])
    for e in ilog:
        if e[0] == 7 and ("imm", e[1]) in disposed_effects:
            return "op %s: immediate effect %d runs after its handle was dropped" % (j, e[1])
    for e in sim.effects:
        if not e["alive"]:
            disposed_effects.add(e["eid"])
    for m in sim.imms:
        if not m["held"]:
            disposed_effects.add(("imm", m["iid"]))
    # which scopes (re-)ran: the runs the implementation reports are the ones ownership predicts
    runs_i = sorted(tuple(e[:2]) for e in ilog if e[0] in (6, 7))
    runs_s = sorted((6, e[1]) if e[0] == "rinit" else (7, e[1]) for e in log if e[0] in ("rinit", "imm"))
    if runs_i != runs_s:
        return "op %s: synchronous effect runs %r, expected %r" % (j, runs_i, runs_s)
    reads_i = [(e[1], bool(e[2])) for e in ilog if e[0] == 5]
    reads_s = [(e[1], e[2]) for e in log if e[0] == "read"]
    if reads_i != reads_s:
        return "op %s: memo reads %r, expected %r (a released memo must not resolve)" % (j, reads_i, reads_s)
    # 4. context: nearest providing ancestor
    uses_i = [(e[1], (e[2][0] if e[2] else None)) for e in ilog if e[0] == 4]
    uses_s = [(e[1], e[2]) for e in log if e[0] == "use"]
    if sorted(uses_i, key=repr) != sorted(uses_s, key=repr):
        return "op %s: use_context results %r, nearest providing ancestors give %r" % (j, uses_i, uses_s)
    return None


def oracle(item, impl):
    if isinstance(impl, str):
        return "panic / harness error: " + impl
    body, ops = item["case"]
    sim = Sim(body)
    disposed, seen = set(), set()
    m = check_point("start", sim, impl[0], disposed, seen)
    if m:
        return m
    if len(impl[1]) != len(ops):
        return "observation count differs from op count"
    for j, (op, o) in enumerate(zip(ops, impl[1])):
        sim.step(op)
        m = check_point(j, sim, o, disposed, seen)
        if m:
            return m
    sim.finish()
    fin = impl[2]
    m = check_point("end", sim, [fin[0], fin[1]], disposed, seen)
    if m:
        return m
    # values allocated by a cleanup function while no owner was current (e.g. while the root itself is being dropped)
    # belong to nobody, by design: they are the only entries that may remain
    nobody = sum(1 for h in sim.handles if h["alive"])
    if fin[2] != nobody:
        return "all scopes are gone but %d arena entries remain (%d were allocated while no owner was current)" % (fin[2], nobody)
    return None


def nontrivial(item, model):
    body, ops = item["case"]

    def nested(b):
        return any(st[0] in NESTED_TAGS for st in b)
    if not nested(body):
        return False
    if not any(op[0] in (10, 11, 12, 23, 30) for op in ops):
        return False
    if isinstance(model, list) and len(model) == 3:
        return any(e[0] == 1 for o in model[1] for e in o[0])
    return False


def valid_case(item):
    try:
        body, ops = item["case"]

        def ok_cbody(b, d):
            if d > 3 or not isinstance(b, list):
                return False
            for st in b:
                if st in ([0], [1], [2], [2, 1]):
                    continue
                if not isinstance(st, list) or not st:
                    return False
                if st[0] == 2 and len(st) == 3 and st[1] in (0, 1) and ok_cbody(st[2], d + 1):
                    continue
                if st[0] == 12 and len(st) == 2 and isinstance(st[1], int) and 0 <= st[1] < N_KINDS:
                    continue
                if st[0] == 4 and len(st) in (2, 3) and 0 <= st[1] <= 2 and (len(st) == 2 or 0 <= st[2] <= 2):
                    continue
                return False
            return True

        def ok_body(b, d):
            if d > 4 or not isinstance(b, list):
                return False
            for st in b:
                if not isinstance(st, list) or not st or st[0] not in range(28):
                    return False
                if st[0] in (3, 14) and not (len(st) == 3 and 0 <= st[1] <= 2 and isinstance(st[2], int)):
                    return False
                if st[0] == 4 and not (len(st) in (2, 3) and 0 <= st[1] <= 2 and (len(st) == 2 or 0 <= st[2] <= 2)):
                    return False
                if st[0] == 13 and not (len(st) == 2 and 0 <= st[1] <= 2):
                    return False
                if st[0] == 27 and not (len(st) == 2 and isinstance(st[1], int) and 0 <= st[1] < N_HK):
                    return False
                if st[0] == 2 and st not in ([2], [2, 1]):
                    if not (len(st) == 3 and st[1] in (0, 1) and ok_cbody(st[2], 0)):
                        return False
                if st[0] == 5 and not (len(st) in (2, 3) and ok_body(st[1], d + 1) and (len(st) == 2 or st[2] in (0, 1, 2))):
                    return False
                if st[0] == 12 and not (len(st) == 2 and isinstance(st[1], int) and 0 <= st[1] < N_KINDS):
                    return False
                if st[0] in (0, 1) and len(st) != 1:
                    return False
                if st[0] in NESTED_TAGS and st[0] != 5 and not (len(st) == 2 and ok_body(st[1], d + 1)):
                    return False
            return True
        if not ok_body(body, 0):
            return False
        if (has_tag(body, 23) or has_cleanup_body(body)) and item.get("compare", True):
            return False
        ar = {10: 2, 11: 2, 12: 2, 13: 2, 14: 2, 15: 2, 16: 2, 17: 2, 18: 3, 19: 2, 20: 2, 21: 2, 22: 3, 23: 2, 24: 2, 25: 2, 26: 2, 27: 2, 28: 4, 29: 2, 30: 2}
        for op in ops:
            if not isinstance(op, list) or not op or op[0] not in ar or len(op) != ar[op[0]]:
                return False
            if op[0] == 17:
                if not isinstance(op[1], list) or any((not isinstance(p, int)) or p < 0 for p in op[1]):
                    return False
            elif any((not isinstance(x, int)) or x < 0 for x in op[1:]):
                return False
            if op[0] == 22 and op[2] > 2:
                return False
            if op[0] in (18, 28) and op[2] > 8:
                return False
            if op[0] == 28 and op[3] >= N_KINDS:
                return False
        return True
    except Exception:
        return False


STN = {0: "signal", 1: "stored", 2: "on_cleanup", 3: "provide", 4: "use", 5: "child", 6: "effect", 7: "memo",
       8: "render-effect", 9: "isomorphic-effect", 10: "watch", 11: "immediate-effect", 12: "arena-item",
       13: "take_context", 14: "update_context", 15: "Effect::new_sync", 16: "Effect::watch_sync", 17: "watch-immediate",
       18: "create_effect", 19: "RenderEffect::new_isomorphic", 20: "RenderEffect::new_with_value",
       21: "ImmediateEffect::new_mut", 22: "ImmediateEffect::new_isomorphic", 23: "ImmediateEffect::new_scoped",
       24: "Memo::new_with_compare", 25: "Memo::new_owning", 26: "Memo::from(ArcMemo)", 27: "handle"}
USE_MODE = ["use_context", "with_context", "expect_context"]
CHILD_MODE = ["child", "current().child()", "child-via-set()"]
OPN = {10: "rerun", 11: "cleanup", 12: "drop", 13: "notify-effect", 14: "notify-memo", 15: "read-memo", 16: "poll",
       17: "run-until-idle", 18: "alloc", 19: "dispose-value", 20: "pause", 21: "resume", 22: "use-at",
       23: "dispose-memo", 24: "dispose-effect/drop-render-handle", 25: "stop-effect", 26: "notify-immediate", 27: "drop-immediate",
       28: "alloc-items", 29: "take-value", 30: "cleanup-as-current-owner"}


def show_body(b):
    out = []
    for st in b:
        if st[0] == 5:
            out.append("%s{%s}" % (CHILD_MODE[st[2] if len(st) > 2 else 0], show_body(st[1])))
        elif st[0] in NESTED_TAGS:
            out.append("%s{%s}" % (STN[st[0]], show_body(st[1])))
        elif st[0] == 4:
            out.append("%s(%d)" % (USE_MODE[st[2] if len(st) > 2 else 0], st[1]))
        elif st[0] == 27:
            out.append("handle<%s>" % HKN[st[1] % N_HK])
        elif st == [2, 1]:
            out.append("Owner::on_cleanup")
        elif st[0] == 2 and len(st) == 3:
            out.append("on_cleanup{%s}" % show_body(st[2]))
        elif st[0] == 12:
            out.append("arena-item<%s>" % kind_name(st[1]))
        elif len(st) > 1:
            out.append("%s%s" % (STN[st[0]], tuple(st[1:])))
        else:
            out.append(STN[st[0]])
    return "; ".join(out)


def describe(it):
    body, ops = it["case"]
    return "root{%s} then %s" % (show_body(body), ", ".join("%s%s" % (OPN.get(o[0], "?"), tuple(o[1:])) for o in ops))


def coverage_extra(results):
    cleanups = releases = pend = uses = items = items_released = 0
    kinds = set()
    for r in results:
        m = r["model"]
        if isinstance(m, list) and len(m) == 3:
            for o in m[1]:
                cleanups += sum(1 for e in o[0] if e[0] == 1)
                uses += sum(1 for e in o[0] if e[0] == 4 and e[2])
        body, ops = r["item"]["case"]
        sim = Sim(body)
        for op in ops:
            releases += op[0] in (10, 11, 12, 23, 24, 27, 30)
            before = [e["eid"] for e in sim.effects if e["alive"] and e["set"] and not e["done"]]
            sim.step(op)
            pend += sum(1 for i in before if not sim.effects[i]["alive"])
        for h in sim.handles:
            if h.get("kind") is not None:
                items += 1
                items_released += not h["alive"]
                kinds.add(h["kind"])
    return dict(cleanup_runs_compared=cleanups, release_ops=releases,
                effects_disposed_with_pending_notification=pend, context_hits=uses,
                raw_arena_items=items, raw_arena_items_released_before_end=items_released,
                raw_arena_item_kinds=len(kinds))


LEVEL_TEXT = ("Coq proofs about an executable Gallina transcription of Owner (children / nodes / cleanups / contexts / paused), the "
              "slotmap arena and the release cascade of Cleanup::cleanup / Drop for OwnerInner (memo items drop their own owner), "
              "for all histories of owner creation, registration, allocation, cleanup, drop and disposal: no cleanup ever runs "
              "twice, a cleanup of o runs exactly the cleanups registered in the subtree of o with descendants first, every key "
              "registered in the subtree is disposed, a disposed key never resolves again whatever is allocated later, nothing "
              "outside the subtree changes, context lookup returns the nearest providing live ancestor, and once every owner is "
              "gone the arena is empty; tied to /repo by running the extracted model and the real Owner / Effect / Memo / RwSignal / "
              "StoredValue / raw ArenaItem<T, S> (types with and without drop glue, both storages) API on the same generated scope programs and histories (with pending effect notifications under "
              "scheduled polls) and comparing cleanup order, every retained handle after every operation, effect / memo run logs, "
              "slot reuse pattern and final arena length, plus an independent Python ownership bookkeeping as oracle.")
LEVEL_NOTE = ("Trusted: Coq kernel, extraction + OCaml driver, Rust harness + executor; modelled not verified: slotmap, Arc/Weak "
              "counts, effect notification flags. Sequential only. Cleanup closures that create reactive nodes are out of scope.")
TECHNIQUE = "Coq proof (fuel-indexed cascade, conservation + frame invariants over all histories) + differential correspondence of the extracted model with the Rust code"
