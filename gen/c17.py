"""C17 — action state reflects its dispatch history under any completion order."""
from . import common as C

PID = "C17"
PROPS_V = "theories/Props/Properties_C17.v"
MODEL_NAME = "Reactive/Action.v"
HARNESS = "rx2"
HARNESS_ARGS = ["c17"]
ALLOWED_AXIOMS = []
RUN_IMPORT = "Reactive.ActionRun"
READY = True

RULE = ("cases drawn from one PRNG (VERIF_SEED): a history of dispatch / abort / drop-handle / complete(k, r) / "
        "poll(k) / clear / run-until-idle(pick order) events over one ArcAction, Action, local ArcAction, local "
        "Action, leptos_server ArcServerAction or ServerAction over a mock ServerFn (variant 0..5; the server wrappers are "
        "dispatched through their own methods; negative results are Err(ServerError); a quarter of the single-action cases "
        "start from an initial value: the …_with_value constructors, or for the server wrappers a ServerActionError context "
        "with the function's own path / an undecodable payload / another path; 12 single variants in all: every ArcAction / "
        "Action constructor incl. the unsync / local / deprecated ones, Default and From<ServerAction>) or one ArcMultiAction / "
        "MultiAction (records read and cancelled through the arena Submission, From and FromLocal) / "
        "ArcServerMultiAction / ServerMultiAction (dispatch / dispatch_sync / cancel / complete / poll / run). "
        "Futures are oneshot receivers completed by the history; tasks are polled only when the history says so, in "
        "the order it says. Shapes: free mixes, abort-vs-completion races (abort and completion both delivered "
        "before the task's next poll, in both orders, with and without an earlier poll), overlapping dispatches "
        "finishing in every order; re-entrant histories with a synchronous observer (see ASSUMPTIONS). A case is non-trivial when it has at least two dispatches and one completion, "
        "or an abort and a completion aimed at the same dispatch; distinct = distinct case hash.")
TRUSTED = [
    "Coq 8.16.1 kernel (coqc); no axioms: every theorem of Properties_C17.v is 'Closed under the global context'",
    "extraction to OCaml with ExtrOcamlBasic only, ocamlfind ocamlopt 4.13.1, extract/driver.ml sexp I/O",
    "harness/rx2 (Rust): src/exec.rs single-threaded executor installed through any_spawner::Executor::init_custom_executor "
    "(ready set exposed, tasks polled only on request), src/c17.rs driving the real ArcAction / Action / ArcMultiAction through "
    "their public API with futures::channel::oneshot-controlled action futures",
    "modelled, not verified: futures::select_biased! (first ready branch in textual order; a oneshot receiver whose sender was "
    "dropped without a message is 'terminated' and its branch is skipped), futures::channel::oneshot wake-ups, the "
    "signal primitives ArcRwSignal::update / ArcStoredValue::get_value (plain cells here)",
    "leptos_server/src/{action,multi_action}.rs: ArcServerAction / ServerAction / ArcServerMultiAction / ServerMultiAction are "
    "driven through their own methods over a mock server function (harness/rx2/src/srvfn.rs: custom Protocol and Client, "
    "BrowserMockServer); the restore-from-URL path is exercised from ServerFnUrlError::to_url's query pairs through a "
    "ServerActionError context to the wrapper's constructor (the router code that reads the query is not)",
]
ASSUMPTIONS = [
    "re-entrant histories: a sixth of the single-action cases have ONE synchronous observer, an ImmediateEffect reading "
    "version(), value() or input() that dispatches to / aborts a dispatch of the same action from inside the notification, at "
    "most 1..3 times; combinations in which the observer's action would publish the field it observes (input x dispatch, "
    "value x clear, ...) or in which the text does not fix the outcome (a clear racing the value write of the same completion) "
    "are not generated, nor several observers at once. The Coq model publishes the fields in the order of the code with the "
    "observer's action in between (Action.v step_obs), and is compared with the implementation; the theorems of "
    "Properties_C17.v are about histories without an observer: the re-entrant part is compared, not proved",
    "notification: besides the direct reads, pending / version / value / input (and every field of every submission) are read "
    "tracked inside one memo each; a field whose update does not notify its subscribers makes the harness fail the case",
    "single-threaded executor, atomic polls (the cross-thread windows belong to C19)",
    "dispatches made while resource loads are suppressed (event 8) must change nothing, call nothing and spawn nothing; "
    "the model decodes them to no event",
    "'completed' means: the spawned task observed the future's result at a poll at which no abort message was in the channel; "
    "completion order = the order of those polls",
]

N_QUICK = 4000
N_THOROUGH = 60000


SERVER_VARIANTS = (4, 5, 9, 10, 11)      # leptos_server wrappers (9: the plain Action obtained by From<ServerAction>)
N_VARIANTS = 12
N_MULTI = 7


def gen_events(rng, multi=False):
    evs = []
    nd = 0
    n = rng.choice([3, 5, 8, 12, 16, 24])
    for _ in range(n):
        r = rng.random()
        tgt = rng.randint(0, max(0, nd - 1)) if rng.random() < 0.93 else rng.randint(0, nd + 1)
        if nd == 0 or r < 0.22:
            if multi and rng.random() < 0.15:
                evs.append([7, rng.randint(-50, 50)])
            else:
                evs.append([0, rng.randint(-50, 50)])
            nd += 1
        elif r < 0.25:
            evs.append([8, rng.randint(-50, 50)])      # dispatch while resource loads are suppressed: a no-op
        elif r < 0.36:
            evs.append([1, tgt])
        elif r < 0.58:
            evs.append([2, tgt, rng.randint(-99, 99)])
        elif r < 0.78:
            evs.append([3, tgt, rng.randint(0, 1)])
        elif r < 0.83 and not multi:
            evs.append([4])
        elif r < 0.93:
            evs.append([5, [rng.randint(0, 7) for _ in range(rng.randint(0, 4))]])
        elif not multi:
            evs.append([6, tgt])
        else:
            evs.append([3, tgt, 0])
    evs.append([5, [rng.randint(0, 7) for _ in range(rng.randint(0, 4))]])
    return evs


def gen_race(rng):
    """abort and completion of the same dispatch both delivered before its next poll"""
    evs = []
    nd = rng.randint(1, 3)
    for i in range(nd):
        evs.append([0, 10 + i])
    if rng.random() < 0.6:
        evs.append([5, []]) if rng.random() < 0.5 else evs.append([3, rng.randint(0, nd - 1), 0])
    k = rng.randint(0, nd - 1)
    a, c = [1, k], [2, k, rng.choice([rng.randint(1, 99), -rng.randint(2, 99)])]
    evs += [a, c] if rng.random() < 0.5 else [c, a]
    if rng.random() < 0.3:
        evs.append([4])
    for j in range(nd):
        if j != k and rng.random() < 0.6:
            evs.append([2, j, 100 + j])
    evs.append(rng.choice([[3, k, 0], [3, k, 1], [5, [rng.randint(0, 5)]]]))
    evs.append([5, [rng.randint(0, 5) for _ in range(3)]])
    return evs


def gen_overlap(rng):
    nd = rng.randint(2, 5)
    evs = [[0, i + 1] for i in range(nd)]
    order = list(range(nd))
    rng.shuffle(order)
    mid = []
    for k in order:
        mid.append([2, k, rng.choice([10 * (k + 1), -10 * (k + 1)])])
    polls = list(range(nd))
    rng.shuffle(polls)
    for k in polls:
        mid.append([3, k, 0])
        if rng.random() < 0.3:
            mid.append([5, []])
    if rng.random() < 0.5:
        rng.shuffle(mid)
    return evs + mid + [[5, [rng.randint(0, 5) for _ in range(3)]]]


def with_restore(rng, case):
    """a quarter of the single-action cases start from an initial value: `…_with_value(Some(r), …)` for the plain
    variants; for the server wrappers a ServerActionError context (p = 1: this function's path with the URL-encoded
    error r < 0; 2: this path, undecodable payload; 0: another function's path), the way a failed no-JS form post is
    restored. The history then starts with an empty run-until-idle so that the initial state is observed."""
    if rng.random() >= 0.25:
        return case
    v = case[1]
    if v in SERVER_VARIANTS:
        p = rng.choice([1, 1, 1, 2, 0])
        r = -rng.randint(2, 99)
    elif v == 8:
        return case          # create_action has no initial value
    else:
        p, r = 1, rng.choice([rng.randint(1, 99), -rng.randint(2, 99)])
    return [0, v, [[5, []]] + case[2], [p, r]]


def with_observer(rng, case):
    """a sixth of the single-action cases get a synchronous observer (an ImmediateEffect reading version / value / input)
    that dispatches to or aborts the SAME action from inside the notification, at most `budget` times; combinations in
    which the observer's own action would publish the field it observes are left out"""
    if rng.random() >= 0.17:
        return case
    field, act = rng.choice([(0, 0), (0, 0), (1, 0), (1, 0), (0, 1), (1, 1), (2, 1)])
    arg = rng.randint(900, 950) * rng.choice([1, 1, -1]) if act == 0 else rng.randint(0, 3)
    obs = [field, act, arg, rng.randint(1, 3)]
    return case[:3] + [case[3] if len(case) > 3 else [], obs]


def restored_value(case):
    if len(case) < 4 or not case[3]:
        return None
    p, r = case[3]
    return r if p == 1 else (-1000001 if p == 2 else None)


def generate(rng, tier):
    n = N_QUICK if tier == "quick" else N_THOROUGH
    for _ in range(n):
        r = rng.random()
        if r < 0.45:
            v = rng.randrange(N_VARIANTS)
            yield dict(case=with_observer(rng, with_restore(rng, [0, v, gen_events(rng)])), kind="single-free")
        elif r < 0.65:
            yield dict(case=with_observer(rng, with_restore(rng, [0, rng.randrange(N_VARIANTS), gen_race(rng)])), kind="abort-race")
        elif r < 0.78:
            yield dict(case=with_observer(rng, with_restore(rng, [0, rng.randrange(N_VARIANTS), gen_overlap(rng)])), kind="overlap")
        else:
            yield dict(case=[1, gen_events(rng, multi=True), rng.randrange(N_MULTI)], kind="multi")


# ------------------------------------------------------------------ independent bookkeeping
class D:
    """what the history says about one dispatch"""
    def __init__(self, inp):
        self.inp = inp
        self.abort = False      # abort() called on a live handle
        self.handle = True      # handle still usable
        self.result = None      # completion delivered
        self.news = True        # something for the task to look at (spawned / woken)
        self.fin = None         # None | "completed" | "aborted"


def ref_single(events, v0=None, observer=None):
    """per event: None at non-idle points, else dict(pending, version, value, input_none)"""
    ds = []
    completed = []          # (k, r) in the order the completions were observed
    last = v0               # value according to the text: last completed result, None after clear; the value the
                            # action was created with as long as neither happened
    out = []
    budget = [observer[3] if observer else 0]

    def abort(k, really=True):
        if k < len(ds):
            d = ds[k]
            if d.handle:
                d.handle = False
                if really:
                    d.abort = True
                if not d.fin:
                    d.news = True

    def published(field):
        # a synchronous observer of `field` reacts from inside the notification (bounded number of times)
        if observer and observer[0] == field and budget[0] > 0:
            budget[0] -= 1
            if observer[1] == 0:
                dispatch(observer[2])
            else:
                abort(observer[2])

    def dispatch(i):
        published(2)            # input := Some(i); the dispatch is not abortable yet
        ds.append(D(i))

    def input_cleared_if_idle():
        if not any(not d.fin for d in ds):
            published(2)        # input := None

    def poll(k):
        nonlocal last
        d = ds[k]
        if d.fin or not d.news:
            return
        d.news = False
        if d.abort:
            d.fin = "aborted"
            input_cleared_if_idle()
        elif d.result is not None:
            d.fin = "completed"
            completed.append((k, d.result))
            published(0)        # version
            last = d.result
            published(1)        # value
            input_cleared_if_idle()

    for e in events:
        op = e[0]
        if op == 0:
            dispatch(e[1])
        elif op in (1, 6):
            abort(e[1], op == 1)
        elif op == 2 and e[1] < len(ds):
            d = ds[e[1]]
            if d.result is None:
                d.result = e[2]
                if not d.fin:
                    d.news = True
        elif op == 3 and e[1] < len(ds):
            poll(e[1])
        elif op == 4:
            last = None
            published(1)
        elif op == 5:
            picks = list(e[1])
            while True:
                rdy = [k for k, d in enumerate(ds) if d.news and not d.fin]
                if not rdy:
                    break
                p = picks.pop(0) if picks else 0
                poll(rdy[p % len(rdy)])
        idle = not any(d.news and not d.fin for d in ds)
        if not idle:
            out.append(None)
            continue
        unfinished = [d for d in ds if not d.abort and d.result is None]
        out.append(dict(pending=bool(unfinished), version=len(completed), value=last,
                        aborted=[k for k, d in enumerate(ds) if d.fin == "aborted"]))
    return out


def ref_multi(events):
    subs = []
    out = []

    def poll(k):
        s = subs[k]
        if s["fin"] or not s["news"]:
            return
        s["news"] = False
        if s["result"] is not None:
            s["fin"] = True
            s["pending"] = False
            s["input"] = None
            if not s["canceled"]:
                s["value"] = s["result"]

    for e in events:
        op = e[0]
        if op == 0:
            subs.append(dict(input=e[1], value=None, pending=True, canceled=False, result=None, news=True, fin=False))
        elif op == 7:
            subs.append(dict(input=None, value=e[1], pending=False, canceled=False, result=None, news=False, fin=True))
        elif op == 1 and e[1] < len(subs):
            subs[e[1]]["canceled"] = True
        elif op == 2 and e[1] < len(subs):
            s = subs[e[1]]
            if s["result"] is None and not s["fin"]:
                s["result"] = e[2]
                s["news"] = True
        elif op == 3 and e[1] < len(subs):
            poll(e[1])
        elif op == 5:
            picks = list(e[1])
            while True:
                rdy = [k for k, s in enumerate(subs) if s["news"] and not s["fin"]]
                if not rdy:
                    break
                p = picks.pop(0) if picks else 0
                poll(rdy[p % len(rdy)])
        idle = not any(s["news"] and not s["fin"] for s in subs)
        out.append([[s["input"], s["value"], s["pending"], s["canceled"]] for s in subs] if idle else None)
    return out


def opt(v):
    return v[0] if v else None


def oracle(item, impl):
    case = item["case"]
    if case[0] == 2:
        return None      # pre-fix model witness: nothing runs on the implementation
    if isinstance(impl, str):
        return "panic / harness error: " + impl
    if case[0] == 0:
        events = case[2]
        ref = ref_single(events, restored_value(case), case[4] if len(case) > 4 and case[4] else None)
        if len(impl) != len(events):
            return "observation count differs from event count"
        prev = (0, None)
        for j, (e, o, want) in enumerate(zip(events, impl, ref)):
            pend, ver, val, inp = bool(o[0]), o[1], opt(o[2]), opt(o[3])
            if want is not None:
                if pend != want["pending"]:
                    return "event %d: pending=%s but %s dispatch is neither finished nor aborted" % (
                        j, pend, "some" if want["pending"] else "no")
                if ver != want["version"]:
                    return "event %d: version %d, but %d dispatches completed" % (j, ver, want["version"])
                if val != want["value"]:
                    if want["version"] == 0 and len(case) > 3 and case[3] and 4 not in [x[0] for x in events[:j + 1]]:
                        return "event %d: value %r, but the action was created with %r (%s) and nothing completed or cleared it" % (
                            j, val, want["value"], "ServerActionError context %r" % (case[3],) if case[1] in SERVER_VARIANTS else "new_with_value")
                    return "event %d: value %r is not the result of the most recently completed dispatch (%r)" % (
                        j, val, want["value"])
                if not want["pending"] and inp is not None:
                    return "event %d: nothing pending but input is still %r" % (j, inp)
            prev = (ver, val)
        return None
    if case[0] == 1:
        events = case[1]
        ref = ref_multi(events)
        if len(impl) != len(events):
            return "observation count differs from event count"
        for j, (o, want) in enumerate(zip(impl, ref)):
            if want is None:
                continue
            got = [[opt(s[0]), opt(s[1]), bool(s[2]), bool(s[3])] for s in o[1]]
            if len(got) != len(want):
                return "event %d: %d submission records for %d dispatches" % (j, len(got), len(want))
            for k, (g, w) in enumerate(zip(got, want)):
                if g != w:
                    return "event %d: submission %d is %r, its own history says %r" % (j, k, g, w)
        return None
    return None


def nontrivial(item, model):
    case = item["case"]
    evs = case[2] if case[0] in (0, 2) else case[1]
    nd = sum(1 for e in evs if e[0] in (0, 7))
    comp = set(e[1] for e in evs if e[0] == 2 and e[1] < nd)
    ab = set(e[1] for e in evs if e[0] == 1 and e[1] < nd)
    return (nd >= 2 and bool(comp)) or bool(comp & ab)


NAMES = {0: "dispatch", 1: "abort", 2: "complete", 3: "poll", 4: "clear", 5: "run-until-idle", 6: "drop-handle",
         7: "dispatch_sync", 8: "dispatch-while-suppressed"}


def describe(it):
    case = it["case"]
    if case[0] == 1:
        evs = case[1]
        head = ["ArcMultiAction", "ArcServerMultiAction (mock server fn)", "ServerMultiAction (mock server fn)",
                "MultiAction (arena; records read through Submission::from)", "MultiAction::from(ServerMultiAction)",
                "ArcServerMultiAction::default()", "ServerMultiAction::default()"][case[2] if len(case) > 2 else 0]
    else:
        evs = case[2]
        head = ["ArcAction::dispatch", "Action::dispatch", "ArcAction::dispatch_local (unsync)",
                "Action::dispatch_local (local)", "ArcServerAction::dispatch (mock server fn; negative = Err)",
                "ServerAction::dispatch (mock server fn; negative = Err)",
                "Action::new_unsync + dispatch_local", "Action::new_unsync_local + dispatch_local", "create_action + dispatch",
                "Action::from(ServerAction)::dispatch (mock server fn)", "ArcServerAction::default()::dispatch",
                "ServerAction::default()::dispatch"][case[1] % 12]
        if case[0] == 2:
            head += " [pre-fix model only]"
        if len(case) > 3 and case[3]:
            p, r = case[3]
            if case[1] in SERVER_VARIANTS:
                head += " created under a ServerActionError context (%s)" % (
                    ["another function's path", "its own path, error %d" % r, "its own path, undecodable payload"][p])
            else:
                head += " created with value Some(%d)" % r
        if len(case) > 4 and case[4]:
            f, a, arg, b = case[4]
            head += " + a synchronous observer of %s that %s from inside the notification (at most %d times)" % (
                ["version", "value", "input"][f], ("dispatches %d" % arg) if a == 0 else ("aborts dispatch %d" % arg), b)
    names = dict(NAMES)
    if case[0] == 1:
        names[1] = "cancel"
    return head + ": " + "; ".join("%s%s" % (names.get(e[0], "?"), tuple(e[1:]) if len(e) > 1 else "") for e in evs)


def coverage_extra(results):
    races = 0
    idle_points = 0
    for r in results:
        if isinstance(r["impl"], list):
            idle_points += sum(1 for o in r["impl"] if isinstance(o, list) and o and o[-1] == 1)
        if r["item"].get("kind") == "abort-race":
            races += 1
    return dict(idle_points_checked=idle_points, abort_race_cases=races)


LEVEL_TEXT = ("Coq proofs, for all histories of dispatch / abort / drop-handle / complete / poll / clear / run-until-idle events "
              "(hence all completion orders and all executor poll orders), that at every idle point of the modelled ArcAction "
              "pending() is true exactly when some dispatch has neither completed nor been aborted, version() equals the number "
              "of writes (= completions observed without an abort message), value() is the result of the last of them (None after "
              "clear), input() is None when nothing is pending, an aborted dispatch never writes, an action created with an initial value "
              "(server action restored from a URL-encoded error) runs like a fresh one and keeps that value until its first "
              "completion or clear, and that every multi-action "
              "submission record is a function of its own events only — about an executable Gallina transcription of "
              "ArcAction::dispatch's spawned task (select_biased!), abort/clear and ArcMultiAction::dispatch/cancel; tied to /repo by "
              "running the extracted model and the real ArcAction / Action / local variants / ArcMultiAction on the same "
              "thousands of generated histories on a harness-owned executor and comparing pending/version/value/input after "
              "every event, plus an independent Python bookkeeping oracle at idle points.")
LEVEL_NOTE = ("Trusted: Coq kernel, extraction + OCaml driver, the Rust harness and its executor; modelled not verified: "
              "select_biased!, oneshot channel semantics, signal cells. Sequential atomic polls only (threads: C19). "
              "The pre-fix code (futures::select!) is kept as the biased=false instance of the model with a refutation witness. No axioms.")
TECHNIQUE = "Coq proof (invariant over all event histories and poll orders) + differential correspondence of the extracted model with the Rust code"


def valid_case(item):
    """generator preconditions (the shrinker only keeps candidates satisfying them)"""
    case = item["case"]
    try:
        if case[0] in (0, 2):
            if len(case) not in (3, 4, 5) or not isinstance(case[1], int) or not 0 <= case[1] < N_VARIANTS:
                return False
            if len(case) == 5 and case[4] != []:
                ob = case[4]
                if case[0] == 2 or not (isinstance(ob, list) and len(ob) == 4 and all(isinstance(x, int) for x in ob)):
                    return False
                if (ob[0], ob[1]) not in ((0, 0), (1, 0), (0, 1), (1, 1), (2, 1)) or not 1 <= ob[3] <= 3:
                    return False
                if ob[1] == 1 and ob[2] < 0:
                    return False
            if len(case) >= 4 and case[3] != []:
                rs = case[3]
                if case[0] == 2 or not (isinstance(rs, list) and len(rs) == 2 and all(isinstance(x, int) for x in rs)):
                    return False
                if rs[0] not in ((0, 1, 2) if case[1] in SERVER_VARIANTS else (1,)) or case[1] == 8:
                    return False
                if case[1] in SERVER_VARIANTS and rs[1] >= 0:
                    return False
            evs, multi = case[2], False
        elif case[0] == 1:
            if len(case) not in (2, 3) or (len(case) == 3 and case[2] not in range(N_MULTI)):
                return False
            evs, multi = case[1], True
        else:
            return False
        arity = {0: 2, 1: 2, 2: 3, 3: 3, 4: 1, 5: 2, 6: 2, 7: 2, 8: 2}
        for e in evs:
            if not isinstance(e, list) or not e or e[0] not in arity or len(e) != arity[e[0]]:
                return False
            if multi and e[0] in (4, 6):
                return False
            if not multi and e[0] == 7:
                return False
            if e[0] == 5:
                if not isinstance(e[1], list) or any((not isinstance(p, int)) or p < 0 for p in e[1]):
                    return False
            elif e[0] in (1, 2, 3, 6):
                if not isinstance(e[1], int) or e[1] < 0:
                    return False
                if len(e) == 3 and not isinstance(e[2], int):
                    return False
            elif len(e) == 2 and not isinstance(e[1], int):
                return False
        return True
    except Exception:
        return False
