"""C05 — hydration adopts server-rendered HTML without mismatch."""
from . import common as C
from . import c05w as W

PID = "C05"
PROPS_V = "theories/Props/Properties_C05.v"
MODEL_NAME = "Dom/HydrateModel.v"
HARNESS = "dom"
HARNESS_ARGS = ["c05"]
ALLOWED_AXIOMS = []
READY = True
RUN_IMPORT = "Dom.HydrateRun"

RULE = ("view trees drawn from one PRNG (VERIF_SEED) over the grammar text (incl. empty, adjacent, needing "
        "escapes) | integer | () | element div/span/p/section/ul/main with id/title/lang attributes and 0..6 "
        "children | void element br/hr/img/input | tuple | Option | Either | Vec | AnyView | keyed list | inert "
        "static element, depth <= 4, nested so that the HTML content model allows it (nothing that closes an open "
        "<p> inside a <p>); ~3% deliberately mis-nested views (kind invalid-nesting: compared with the model, the "
        "oracle does not demand success). Every case carries a second view (a mutation of the first or a fresh one) "
        "for the post-hydration rebuild; oracle-only kinds: hydrate-extra (EitherKeepAlive with rebuilds {None, None, "
        "show_b}, EitherOf3, Result Ok/Err, StaticVec, [T; 2], Arc<str>/Cow<str>, OwnedView), streamed (in-order / "
        "out-of-order streams with Suspends pending at render time, template+script swap emulated), resolved "
        "(view.resolve().await.to_html() with futures completing in a chosen order); every tenth view is also rendered through to_html_stream_in_order / "
        "_out_of_order (kind streamed-forms) and the concatenated chunks compared with to_html(). "
        "Added by the anchor coverage audit (coverage/C05.md, grammar in gen/c05w.py, all oracle-only): hydrate-wide — "
        "the other value types and representations (&'static str, Cow::Borrowed/Owned, Arc<str>; 16 primitive types "
        "incl. char needing escapes, floats, 128-bit integers, IP / socket addresses, NonZero), flat tuples of 5-12 "
        "parts and up to six .child() calls, arrays of 0/1/3, empty StaticVec, EitherOf3/4/8/16 changing their branch, "
        "custom elements, SVG, li/ol/a/em/h1/button/label, noscript, elements with class / class:x / style / style:x / "
        "hidden / dir / data-* / inner_html / Either-valued attributes in every representation, attribute spreading "
        "(add_any_attr) on the typed view of every kind, hydrated through hydrate_from or through "
        "hydrate_from_position(el, Position::Current) with a following sibling; hydrate-typed — roots of concrete type "
        "(<div ATTR>{&str}{Cow}{Cow}{rest}), because AnyView / AnyAttribute store the owned forms; hydrate-reactive — "
        "closures (FnMut / Arc<dyn Fn> / Arc<Mutex<dyn FnMut>>) and signals of 9 types as children and as dir / class / "
        "class:on / style:width / style values, closures returning switching views / Either / Option / Vec / keyed, "
        "Suspends that are pending on the client (server side of a local resource), rendered by to_html or a stream, "
        "hydrated under the harness executor next to a client-built twin sharing the signals, then 1-4 steps of "
        "signal writes, polls in a chosen order and future completions, finally both states dropped. "
        "A case is non-trivial when its DOM has at least 3 nodes and the walk has to "
        "consume at least one marker/separator comment or descend into an element; distinct = distinct case hash.")
TRUSTED = [
    "Coq 8.16.1 kernel (coqc); no axioms: every theorem of Properties_C05.v is 'Closed under the global context'",
    "extraction to OCaml with ExtrOcamlBasic only, ocamlfind ocamlopt 4.13.1, extract/driver.ml sexp I/O",
    "harness/dom/src/c05.rs + c05x.rs (Rust): builds the real tachys view for a case, real to_html() / streams / "
    "resolve(), real hydrate::<true> / hydrate_from / hydrate_from_position, real build/rebuild, real RenderEffects "
    "under the harness executor of c04.rs; its own ~200-line HTML parser for the emitted subset",
    "the native in-memory DOM of tachys under cfg(leptos_verif) (verif-hook 7e91a9c) standing in for the browser DOM; "
    "it keeps the style attribute and the CSSOM apart, the harness compares their union (no style property is ever "
    "removed after hydration in a generated case)",
    "modelled, not verified: the HTML tokenizer / tree-construction subset of Dom/HydrateModel.v (states and rules "
    "transcribed from the WHATWG standard for the emitted subset; anything else is an explicit error) — a browser is "
    "assumed to parse this subset as the standard says; the model's parser is diffed against the harness parser on "
    "every generated string of the proved grammar",
    "html_escape::encode_text / encode_double_quoted_attribute are transcribed (esc_text, esc_attr) and compared "
    "byte-for-byte on every case",
    "every view is built behind AnyView in the harness (type erasure at each recursion point); AnyView forwards "
    "to_html/hydrate unchanged, so the statically typed paths (tuples, Either, Option, Vec, HtmlElement) are the ones "
    "exercised underneath; the representations AnyView converts (&str / Cow children, String / &str / closure valued "
    "attributes) are driven as roots of concrete type (kind hydrate-typed)",
    "compared, not proved (kinds hydrate-extra / -wide / -typed / -reactive, streamed, resolved): the oracle demands "
    "that hydration succeeds, creates nothing, and that the hydrated tree equals a client-built twin after hydration, "
    "after rebuilds and at every executor-idle point of a reactive history; the harness parser alone stands for the "
    "browser there (li / a / h1 / button / svg follow the generic tree-construction rule in the nestings generated)",
]
ASSUMPTIONS = [
    "the markup is parsed as the children of a <div>/<body>-like context element in the 'in body' insertion mode "
    "(fragment case); document-level modes (before html, in head, after body), tables and select are not modelled",
    "wf: element names from the modelled subset with the void-ness the parser gives them, no element that closes an "
    "open <p> nested inside a <p>, no nested <a> / <button> / heading, <li> only as a child of ul/ol, attribute names "
    "[a-z][a-z0-9-]*, distinct per element, text and attribute values "
    "without U+0000 (dropped by the tree builder) and U+000D (normalised to LF) — outside wf a browser re-parents or "
    "drops nodes and hydration legitimately fails",
    "escape = true (children of script/style are not hydrated), mark_branches = false (the islands-router forms "
    "to_html*_branching put <!--bo-…--> comments into the markup that no hydrate skips: not a hydration target)",
    "generator preconditions of the oracle-only kinds (each found as a false alarm of the thorough tier, none a defect of "
    "the code): inside anything a re-running closure returns, inside keyed rows and inside Suspend content, signals are "
    "used as closures / Arc types only (an arena wrapper created there belongs to an owner the next run disposes while "
    "effects of the previous view may still be queued: 'reactive value already disposed', by leptos' rules a misuse) and "
    "elements carry no dynamic attribute values (two element branches of one type are rebuilt into each other, attribute "
    "values of different erased types are rebuilt without reset and the dropped effect's last write depends on the poll "
    "order); no StaticVec in dynamic views (it cannot be replaced in place / rebuilt while unmounted: C03); a dynamic "
    "class:x is never combined with a whole class=; one style property name per element position and whole style= only "
    "on typed roots (the native DOM cannot remove a declaration that came with the parsed style attribute); a spread never "
    "wraps a spread of the same attribute",
    "one attribute name has one owner per element (a spread attribute never repeats a name the element sets itself; "
    "a dynamic class= is never combined with a dynamic class:x on the same element: the result depends on effect order)",
]

ELEM = ["div", "span", "p", "section", "ul", "main"]
RAWS = ["textarea", "style", "script"]
VOIDS = ["br", "hr", "img", "input"]
KEYS = ["id", "title", "lang"]
P_CLOSERS_E = {0, 2, 3, 4, 5}     # indexes of ELEM that close an open <p>
P_CLOSERS_V = {1}                 # hr
TEXTS = ["", "a", "b<", " c ", "&amp;", 'x"y', "é", "<!>", ">", "  ", "\n", "1", "a&b", "</p>", "'q'", "~"]


def b(s):
    return list(s.encode("utf-8"))


def gen_text(rng):
    if rng.random() < 0.15:
        return "".join(rng.choice(["<", ">", "&", '"', "a", " ", "é", ";", "!", "-", "amp;"]) for _ in range(rng.randint(0, 5)))
    return rng.choice(TEXTS)


def gen_attrs(rng):
    out = []
    for k in range(3):
        if rng.random() < 0.25:
            out.append([k, b(gen_text(rng))])
    return out


def gen_inert(rng, depth, in_p):
    """an element with static content: no adjacent / empty texts"""
    def kids(d, in_p):
        out = []
        prev_text = False
        for _ in range(rng.choice([0, 1, 1, 2, 3])):
            r = rng.random()
            if r < 0.4 and not prev_text:
                t = gen_text(rng) or "t"
                out.append([0, b(t)])
                prev_text = True
                continue
            prev_text = False
            if r < 0.5:
                out.append([1])
            elif r < 0.7 or d <= 0:
                v = rng.choice([0, 2, 3] if in_p else [0, 1, 2, 3])
                out.append([2, b(VOIDS[v]), raw_attrs(), []])
            else:
                out.append(el(d - 1, in_p))
        return out

    def raw_attrs():
        return [[b(KEYS[k]), v] for k, v in gen_attrs(rng)]

    def el(d, in_p):
        t = rng.choice([1] if in_p else [0, 1, 1, 2, 3])
        return [2, b(ELEM[t]), raw_attrs(), kids(d, in_p or t == 2)]
    return el(depth, in_p)


def gen_view(rng, depth, in_p=False, bad=False):
    """bad=True allows nesting that closes an open <p>"""
    r = rng.random()
    if depth <= 0:
        r = r * 0.34
    many = lambda lo, hi: [gen_view(rng, depth - 1, in_p, bad) for _ in range(rng.randint(lo, hi))]
    if r < 0.16:
        return [0, b(gen_text(rng))]
    if r < 0.20:
        return [0, b("")]
    if r < 0.24:
        return [13, rng.choice([0, 7, 42, 4294967295])]
    if r < 0.29:
        return [1]
    if r < 0.34:
        v = rng.choice([0, 1, 2, 3] if (bad or not in_p) else [0, 2, 3])
        return [3, v, gen_attrs(rng)]
    if r < 0.56:
        t = rng.choice([0, 1, 1, 2, 2, 3, 4, 5] if (bad or not in_p) else [1])
        n = rng.choice([0, 1, 1, 2, 2, 3, 4, 6])
        inner_p = in_p or t == 2
        return [2, t, gen_attrs(rng), [gen_view(rng, depth - 1, inner_p, bad) for _ in range(n)]]
    if r < 0.66:
        return [4, many(1, 4)]
    if r < 0.72:
        return [5, gen_view(rng, depth - 1, in_p, bad)] if rng.random() < 0.6 else [6]
    if r < 0.80:
        return [rng.choice([7, 8]), gen_view(rng, depth - 1, in_p, bad)]
    if r < 0.88:
        return [9, many(0, 3)]
    if r < 0.92:
        return [10, gen_view(rng, depth - 1, in_p, bad)]
    if r < 0.95:
        return [11, many(0, 3)]
    if r < 0.975:
        return gen_raw(rng)
    return [12, gen_inert(rng, min(depth, 2), in_p)]


def gen_raw(rng):
    """textarea / style / script with string children and children that render to nothing"""
    t = rng.choice([0, 0, 1, 2])
    parts = []
    for _ in range(rng.choice([0, 1, 1, 1, 2, 3])):
        if rng.random() < 0.55:
            txt = gen_text(rng)
            if t != 0:
                txt = txt.replace("<", "(").replace("\r", "")
            parts.append([1, b(txt)])
        else:
            parts.append([0, rng.randrange(3)])
    content = b"".join(bytes(x[1]) for x in parts if x[0] == 1)
    if t == 0 and content.startswith(b"\n"):
        parts = [[1, b("x")]] + parts
    return [15, t, gen_attrs(rng), parts]


def add_suspends(rng, v, ids, p_pending, depth=0):
    """wrap some sub-views into Suspend; returns the new view"""
    op = v[0]
    if op == 2:
        v = [2, v[1], v[2], [add_suspends(rng, k, ids, p_pending, depth + 1) for k in v[3]]]
    elif op in (4, 9):
        v = [op, [add_suspends(rng, k, ids, p_pending, depth + 1) for k in v[1]]]
    elif op in (5, 7, 8, 10):
        v = [op, add_suspends(rng, v[1], ids, p_pending, depth + 1)]
    if op not in (11, 12) and rng.random() < (0.35 if depth else 0.15) and len(ids) < 4:
        i = len(ids) + 1
        ids.append(i)
        return [14, i, int(rng.random() < p_pending), v]
    return v


# ------------------------------------------------------------------ further combinators (oracle-only)
# (16 a b show) EitherKeepAlive{Some(a), Some(b), show} | (17 show) EitherKeepAlive{None, None, show} (rebuilds only)
# (18 i v) EitherOf3 | (19 1 v)/(19 0) Result Ok/Err | (20 vs) StaticVec | (21 a b) [T; 2] | (22 k bytes) Arc<str>/Cow<str>
# (23 v) OwnedView
def xkids(v):
    """the sub-views of any view (for the walks that do not care about the kind)"""
    op = v[0]
    if op == 2:
        return v[3]
    if op in (4, 9, 11, 20):
        return v[1]
    if op in (5, 7, 8, 10, 23):
        return [v[1]]
    if op == 14:
        return [v[3]]
    if op == 16:
        return [v[1], v[2]]
    if op == 18:
        return [v[2]]
    if op == 19:
        return [v[2]] if v[1] else []
    if op == 21:
        return [v[1], v[2]]
    return []


def add_extras(rng, v, depth=0):
    op = v[0]
    if op == 2:
        v = [2, v[1], v[2], [add_extras(rng, k, depth + 1) for k in v[3]]]
    elif op in (4, 9):
        v = [op, [add_extras(rng, k, depth + 1) for k in v[1]]]
    elif op in (5, 7, 8, 10):
        v = [op, add_extras(rng, v[1], depth + 1)]
    if op in (11, 12, 15) or rng.random() > 0.3:
        return v
    r = rng.random()
    other = rng.choice([[0, b(gen_text(rng))], [1], [2, 1, [], [[0, b("f")]]], [4, [[0, b("x")], [0, b("y")]]]])
    if r < 0.3:
        return [16, v, other, 0] if rng.random() < 0.6 else [16, other, v, 1]
    if r < 0.42:
        return [18, rng.randrange(3), v]
    if r < 0.55:
        return [19, 1, v] if rng.random() < 0.75 else [19, 0]
    if r < 0.67:
        return [20, [v] + ([other] if rng.random() < 0.5 else [])]
    if r < 0.78:
        return [21, v, other]
    if r < 0.9:
        return [23, v]
    return [22, rng.randrange(2), b(gen_text(rng))]


def flip_extras(rng, v):
    """the second view of an extra case: every EitherKeepAlive is rebuilt with {a: None, b: None, show_b}, Results
    may change side, texts change"""
    op = v[0]
    if op == 16:
        return [17, (1 - v[3]) if rng.random() < 0.7 else v[3]]
    if op == 19:
        return [19, 0] if (v[1] and rng.random() < 0.3) else ([19, 1, flip_extras(rng, v[2])] if v[1] else [19, 1, [0, b("ok")]])
    if op == 22:
        return [22, v[1], b(gen_text(rng))]
    if op == 0:
        return [0, b(gen_text(rng))] if rng.random() < 0.5 else v
    if op == 2:
        return [2, v[1], v[2], [flip_extras(rng, k) for k in v[3]]]
    if op in (4, 9, 20):
        return [op, [flip_extras(rng, k) for k in v[1]]]
    if op in (5, 7, 8, 10, 23):
        return [op, flip_extras(rng, v[1])]
    if op == 18:
        return [18, v[1], flip_extras(rng, v[2])]
    if op == 21:
        return [21, flip_extras(rng, v[1]), flip_extras(rng, v[2])]
    return v


def has17(v):
    return v[0] == 17 or any(has17(k) for k in xkids(v))


def has_extra(v):
    return v[0] in (16, 17, 18, 19, 20, 21, 22, 23) or any(has_extra(k) for k in xkids(v))


def strip_suspends(v):
    op = v[0]
    if op == 14:
        return strip_suspends(v[3])
    if op == 2:
        return [2, v[1], v[2], [strip_suspends(k) for k in v[3]]]
    if op in (4, 9, 11):
        return [op, [strip_suspends(k) for k in v[1]]]
    if op in (5, 7, 8, 10):
        return [op, strip_suspends(v[1])]
    return v


def mutate(rng, v, in_p=False):
    """a second view of similar shape: texts changed, options toggled, branches flipped, list items added/removed"""
    op = v[0]
    r = rng.random()
    if r < 0.08:
        return gen_view(rng, 2, in_p)
    if op == 0:
        return [0, b(gen_text(rng))] if r < 0.7 else v
    if op == 13:
        return [13, rng.choice([0, 1, 99])]
    if op == 2:
        inner = in_p or v[1] == 2
        kids = [mutate(rng, k, inner) for k in v[3]]
        return [2, v[1], gen_attrs(rng) if r < 0.5 else v[2], kids]
    if op == 3:
        return [3, v[1], gen_attrs(rng)]
    if op == 4:
        return [4, [mutate(rng, k, in_p) for k in v[1]]]
    if op == 5:
        return [6] if r < 0.4 else [5, mutate(rng, v[1], in_p)]
    if op == 6:
        return [5, gen_view(rng, 1, in_p)] if r < 0.6 else v
    if op in (7, 8):
        if r < 0.4:
            return [15 - op, gen_view(rng, 1, in_p)]
        return [op, mutate(rng, v[1], in_p)]
    if op in (9, 11):
        items = [mutate(rng, k, in_p) for k in v[1]]
        if r < 0.35 and items:
            items.pop(rng.randrange(len(items)))
        elif r < 0.7:
            items.insert(rng.randint(0, len(items)), gen_view(rng, 1, in_p))
        elif r < 0.8 and len(items) > 1:
            rng.shuffle(items)
        return [op, items]
    if op == 10:
        return [10, mutate(rng, v[1], in_p)]
    if op == 12:
        return v if r < 0.6 else [12, gen_inert(rng, 1, in_p)]
    if op == 14:
        return [14, v[1], v[2], mutate(rng, v[3], in_p)]
    if op == 15:
        return gen_raw(rng) if r < 0.5 else v
    return v


# ------------------------------------------------------------------ independent view inspection
def content_ok(v, in_p=False):
    """the nesting is what the HTML content model lets a parser keep (no <p>-closing start tag inside a <p>)"""
    op = v[0]
    if op == 2:
        if in_p and v[1] in P_CLOSERS_E:
            return False
        return all(content_ok(k, in_p or v[1] == 2) for k in v[3])
    if op == 3:
        return not (in_p and v[1] in P_CLOSERS_V)
    if op in (4, 9, 11):
        return all(content_ok(k, in_p) for k in v[1])
    if op in (5, 7, 8, 10):
        return content_ok(v[1], in_p)
    if op == 14:
        return content_ok(v[3], in_p)
    if op == 12:
        return inert_content_ok(v[1], in_p)
    if op in (16, 18, 19, 20, 21, 23):
        return all(content_ok(k, in_p) for k in xkids(v))
    return True


def inert_content_ok(d, in_p):
    if d[0] != 2:
        return True
    name = bytes(d[1]).decode()
    if in_p and (name in ("div", "p", "section", "ul", "main", "hr")):
        return False
    return all(inert_content_ok(k, in_p or name == "p") for k in d[3])


def count_bound_writable(v):
    """text leaves and attribute-carrying elements a full rebuild writes to (keyed items and inert
    subtrees are never rebuilt when keys / markup are unchanged)"""
    op = v[0]
    if op in (0, 13):
        return 1
    if op == 2:
        return (1 if v[2] else 0) + sum(count_bound_writable(k) for k in v[3])
    if op == 3:
        return 1 if v[2] else 0
    if op in (4, 9):
        return sum(count_bound_writable(k) for k in v[1])
    if op in (5, 7, 8, 10):
        return count_bound_writable(v[1])
    if op == 14:
        return 0                      # Suspend::rebuild only spawns a task
    if op == 15:
        return 1 if v[2] else 0       # the children of a raw-text element are not hydrated
    return 0


def has_raw_parts(v):
    op = v[0]
    if op == 15:
        return len(v[3]) > 0
    if op == 2:
        return any(has_raw_parts(k) for k in v[3])
    if op in (4, 9, 11):
        return any(has_raw_parts(k) for k in v[1])
    if op in (5, 7, 8, 10):
        return has_raw_parts(v[1])
    if op == 14:
        return has_raw_parts(v[3])
    return False


def has_raw(v):
    op = v[0]
    if op == 15:
        return True
    if op in (16, 18, 19, 20, 21, 23):
        return any(has_raw(k) for k in xkids(v))
    if op == 2:
        return any(has_raw(k) for k in v[3])
    if op in (4, 9, 11):
        return any(has_raw(k) for k in v[1])
    if op in (5, 7, 8, 10):
        return has_raw(v[1])
    if op == 14:
        return has_raw(v[3])
    return False


def suspend_ids(v):
    op = v[0]
    if op == 14:
        return [v[1]] + suspend_ids(v[3])
    if op in (16, 18, 19, 20, 21, 23):
        return [i for k in xkids(v) for i in suspend_ids(k)]
    if op == 2:
        return [i for k in v[3] for i in suspend_ids(k)]
    if op in (4, 9, 11):
        return [i for k in v[1] for i in suspend_ids(k)]
    if op in (5, 7, 8, 10):
        return suspend_ids(v[1])
    return []


def pending_ids(v):
    op = v[0]
    if op == 14:
        return ([v[1]] if v[2] else []) + pending_ids(v[3])
    if op in (16, 18, 19, 20, 21, 23):
        return [i for k in xkids(v) for i in pending_ids(k)]
    if op == 2:
        return [i for k in v[3] for i in pending_ids(k)]
    if op in (4, 9, 11):
        return [i for k in v[1] for i in pending_ids(k)]
    if op in (5, 7, 8, 10):
        return pending_ids(v[1])
    return []


# ---- an independent printer of what the server sends (used only to delimit the known class of
# ---- finding F-C05-d: where the stale Position of a pending Suspend changes the markup)
NAT, FC, NC = "nat", "first", "next"


def _esc(t):
    return t.replace("&", "&amp;").replace("<", "&lt;").replace(">", "&gt;")


def _attrs_html(a):
    return "".join(' %s="%s"' % (KEYS[k], _esc(C.show_bytes(x)).replace('"', "&quot;")) for k, x in a)


def _inert_html(d):
    if d[0] == 0:
        return _esc(C.show_bytes(d[1]))
    if d[0] == 1:
        return "<!>"
    name = C.show_bytes(d[1])
    a = "".join(' %s="%s"' % (C.show_bytes(k), _esc(C.show_bytes(x)).replace('"', "&quot;")) for k, x in d[2])
    if name in VOIDS:
        return "<%s%s>" % (name, a)
    return "<%s%s>%s</%s>" % (name, a, "".join(_inert_html(k) for k in d[3]), name)


def py_render(v, pos, mode):
    """(markup, position) of view v; mode 'sync': every Suspend resolved; 'in' / 'ooo': a pending Suspend
    hands back Position NextChild / the unchanged Position (what the streaming code does today)"""
    op = v[0]
    if op in (0, 13):
        t = C.show_bytes(v[1]) if op == 0 else str(v[1])
        return ("<!>" if pos == NAT else "") + ((_esc(t) if t else " ") if op == 0 else t), NAT
    if op in (1, 6):
        return "<!>", NC
    if op == 2:
        inner = py_seq(v[3], FC, mode)[0] if v[3] else ""
        return "<%s%s>%s</%s>" % (ELEM[v[1]], _attrs_html(v[2]), inner, ELEM[v[1]]), NC
    if op == 3:
        return "<%s%s>" % (VOIDS[v[1]], _attrs_html(v[2])), NC
    if op == 4:
        return py_seq(v[1], pos, mode)
    if op in (5, 7, 8, 10):
        return py_render(v[1], pos, mode)
    if op in (9, 11):
        return py_seq(v[1], pos, mode)[0] + "<!>", NC
    if op == 12:
        return _inert_html(v[1]), NC
    if op == 15:
        content = "".join(C.show_bytes(x[1]) for x in v[3] if x[0] == 1)
        return "<%s%s>%s</%s>" % (RAWS[v[1]], _attrs_html(v[2]), _esc(content) if v[1] == 0 else content, RAWS[v[1]]), NC
    if op == 14:
        h, p = py_render(v[3], pos, mode)
        if mode == "sync" or not v[2]:
            return h, p
        return h, (NC if mode == "in" else pos)
    return "", pos


def py_seq(vs, pos, mode):
    out = ""
    for k in vs:
        h, pos = py_render(k, pos, mode)
        out += h
    return out, pos


def stale_position_matters(item):
    c = item["case"]
    mode = "in" if c[1] == 1 else "ooo"
    return py_render(c[2], FC, mode)[0] != py_render(c[2], FC, "sync")[0]


def attrs_sorted_unique(a):
    ks = [x[0] for x in a]
    return ks == sorted(set(ks)) and all(0 <= k <= 2 for k in ks)


def shape_ok(v):
    op = v[0] if isinstance(v, list) and v else None
    try:
        if op == 0:
            bytes(v[1]).decode("utf-8")
            return 0 not in v[1] and 13 not in v[1]
        if op in (1, 6):
            return len(v) == 1
        if op == 13:
            return isinstance(v[1], int) and 0 <= v[1] < 2 ** 32
        if op == 2:
            return 0 <= v[1] < 6 and attrs_ok(v[2]) and all(shape_ok(k) for k in v[3])
        if op == 3:
            return 0 <= v[1] < 4 and attrs_ok(v[2])
        if op == 4:
            return len(v[1]) >= 1 and all(shape_ok(k) for k in v[1])
        if op in (9, 11):
            return all(shape_ok(k) for k in v[1])
        if op in (5, 7, 8, 10):
            return shape_ok(v[1])
        if op == 12:
            return inert_shape_ok(v[1], top=True)
        if op == 14:
            return len(v) == 4 and v[2] in (0, 1) and shape_ok(v[3])
        if op == 16:
            return len(v) == 4 and v[3] in (0, 1) and shape_ok(v[1]) and shape_ok(v[2])
        if op == 17:
            return len(v) == 2 and v[1] in (0, 1)
        if op == 18:
            return len(v) == 3 and v[1] in (0, 1, 2) and shape_ok(v[2])
        if op == 19:
            return (len(v) == 3 and v[1] == 1 and shape_ok(v[2])) or v == [19, 0]
        if op == 20:
            return all(shape_ok(k) for k in v[1])
        if op == 21:
            return len(v) == 3 and shape_ok(v[1]) and shape_ok(v[2])
        if op == 22:
            bytes(v[2]).decode("utf-8")
            return v[1] in (0, 1) and 0 not in v[2] and 13 not in v[2]
        if op == 23:
            return shape_ok(v[1])
        if op == 15:
            if not (0 <= v[1] < 3 and attrs_ok(v[2])):
                return False
            content = b""
            for part in v[3]:
                if part[0] == 1:
                    bytes(part[1]).decode("utf-8")
                    if 0 in part[1] or 13 in part[1] or (v[1] != 0 and 60 in part[1]):
                        return False
                    content += bytes(part[1])
                elif not (part[0] == 0 and part[1] in (0, 1, 2)):
                    return False
            return not (v[1] == 0 and content.startswith(b"\n"))
    except Exception:
        return False
    return False


def attrs_ok(a):
    if not attrs_sorted_unique(a):
        return False
    for _, val in a:
        bytes(val).decode("utf-8")
        if 0 in val or 13 in val:
            return False
    return True


def inert_shape_ok(d, top=False):
    if d[0] == 0:
        bytes(d[1]).decode("utf-8")
        return (not top) and len(d[1]) > 0 and 0 not in d[1] and 13 not in d[1]
    if d[0] == 1:
        return (not top) and len(d) == 1
    if d[0] != 2:
        return False
    name = bytes(d[1]).decode()
    if name not in ELEM + VOIDS:
        return False
    keys = [bytes(a[0]).decode() for a in d[2]]
    if any(k not in KEYS for k in keys) or len(set(keys)) != len(keys):
        return False
    for a in d[2]:
        bytes(a[1]).decode("utf-8")
        if 0 in a[1] or 13 in a[1]:
            return False
    if name in VOIDS:
        return d[3] == []
    prev = False
    for k in d[3]:
        t = k[0] == 0
        if t and prev:
            return False
        prev = t
        if not inert_shape_ok(k):
            return False
    return True


def valid_case(item):
    c = item["case"]
    if item.get("kind") == "hydrate-wide":
        # (6 v v2 skip entry): the wide grammar of the audit through the public entry points
        if not (isinstance(c, list) and len(c) == 5 and c[0] == 6 and c[3] in (0, 1) and c[4] in (0, 1)):
            return False
        if not (W.wide_ok(c[1], W.Ctx()) and W.no17(c[1]) and W.wide_ok(c[2], W.Ctx())):
            return False
        return c[4] == 0 or c[1][0] in (2, 3, 12, 26)
    if item.get("kind") == "hydrate-leptos":
        # (5 form tree sources sigs steps)
        try:
            from . import c04
            five, form, tree, sources, sigs, steps = c
            conds = []
            _eb_conditions(tree, conds)
            inner = dict(case=[7, tree, sources, sigs, [[w, p, [[r, 0] for r in k]] for w, p, k in steps], [0, 0, 1]],
                         kind="leptos-components")
            return (five == 5 and form in (1, 2) and c04.valid_case(inner) and all(c04.ev(e, sigs) != 0 for e in conds)
                    and _boundaries_wrapped(tree) and "(11 " not in C.sx(tree)
                    and all(p == [] and all(isinstance(r, int) for r in k) for _w, p, k in steps))
        except Exception:
            return False
    if item.get("kind") == "hydrate-typed":
        # (7 typed typed2 skip entry), typed = ((kind repr value) (t1 t2 t3) rest)
        try:
            seven, t1, t2, skip, entry = c
            if not (seven == 7 and skip in (0, 1) and entry in (0, 1) and t1[0][:2] == t2[0][:2]):
                return False
            for t in (t1, t2):
                (k, rp, val), texts, rest = t
                if (k, rp) not in TYPED_KINDS or len(texts) != 3 or not all(W._utf8_ok(x) for x in texts):
                    return False
                if k == 9:
                    if not (val[0] == 1 and W._utf8_ok(val[1])):
                        return False
                else:
                    tctx = W.Ctx()
                    tctx.typed_root = True
                    if not W.rich_attrs_ok([[k, rp, val]], k == 7, tctx):
                        return False
                if not W.wide_ok(rest, W.Ctx().child(0)):
                    return False
            return W.no17(t1[2])
        except Exception:
            return False
    if item.get("kind") == "hydrate-reactive":
        # (4 form v sigs steps early)
        try:
            four, form, v, sigs, steps, early = c
            ctx = W.Ctx(True, len(sigs))
            if v[0] == 31:
                # a typed root: (31 (kind repr sig) rest)
                if not (len(v) == 3 and v[1][0] in (10, 11, 12, 13, 14) and v[1][1] in (0, 1) and 0 <= v[1][2] < len(sigs)):
                    return False
                v = [2, 0, [], [v[2]]]
            loc = W.local_ids(v)
            return (four == 4 and form in (0, 1, 2) and early in (0, 1) and 1 <= len(sigs) <= 4 and all(0 <= x < 100 for x in sigs)
                    and W.wide_ok(v, ctx) and W.no17(v) and len(set(loc)) == len(loc) and not (loc and form == 0)
                    and not W.has_op(v, (15,))
                    and all(len(st) == 3 and all(0 <= i < len(sigs) and 0 <= x < 100 for i, x in st[0])
                            and all(isinstance(k, int) and k >= 0 for k in st[1]) and all(k in loc for k in st[2]) for st in steps))
        except Exception:
            return False
    if item.get("kind") == "hydrate-extra":
        return (isinstance(c, list) and len(c) == 4 and c[0] == 0 and c[3] in (0, 1) and shape_ok(c[1]) and shape_ok(c[2])
                and content_ok(c[1]) and not has_raw(c[1]) and not has17(c[1]))
    if item.get("kind") == "resolved":
        if not (isinstance(c, list) and len(c) == 4 and c[0] == 3 and shape_ok(c[1])):
            return False
        all_ids = suspend_ids(c[1])
        return (bool(pending_ids(c[1])) and len(set(all_ids)) == len(all_ids) and not has_raw(c[1]) and content_ok(c[1])
                and not has17(c[1]) and all(isinstance(i, int) for i in c[2] + c[3]))
    if item.get("kind") == "streamed":
        if not (isinstance(c, list) and len(c) == 5 and c[0] == 2 and c[1] in (1, 2) and shape_ok(c[2])):
            return False
        ids = pending_ids(c[2])
        all_ids = suspend_ids(c[2])
        return (bool(ids) and len(set(all_ids)) == len(all_ids) and not has_raw(c[2]) and content_ok(c[2])
                and all(isinstance(i, int) for i in c[3] + c[4]))
    if item.get("kind") == "streamed-forms":
        return isinstance(c, list) and len(c) == 2 and c[0] == 1 and shape_ok(c[1])
    if not (isinstance(c, list) and len(c) == 3 and c[0] == 0):
        return False
    if not (shape_ok(c[1]) and shape_ok(c[2])):
        return False
    if item.get("kind") != "invalid-nesting" and not content_ok(c[1]):
        return False
    return content_ok(c[2]) or item.get("kind") == "invalid-nesting"


def generate(rng, tier):
    n = 6000 if tier == "quick" else 100000
    for i in range(n):
        depth = rng.choice([1, 2, 2, 3, 3, 4])
        bad = rng.random() < 0.10
        v = gen_view(rng, depth, False, bad)
        if rng.random() < 0.5:
            # the usual mount: everything inside one element
            v = [2, rng.choice([0, 3, 5]), gen_attrs(rng), [v] + [gen_view(rng, 1) for _ in range(rng.randint(0, 2))]]
        v2 = mutate(rng, v) if rng.random() < 0.8 else gen_view(rng, 2)
        ok = content_ok(v)
        if not content_ok(v2):
            v2 = [0, b("z")]
        kind = "hydrate" if ok else "invalid-nesting"
        if rng.random() < 0.12:
            v = add_suspends(rng, v, [], 0.0)          # Suspends whose futures are ready
        yield dict(case=[0, v, v2], kind=kind, compare=True)
        if i % 10 == 0 and not pending_ids(v):
            yield dict(case=[1, strip_suspends(v)], kind="streamed-forms", compare=True)
        if i % 5 == 0:
            yield gen_streamed(rng)
        if i % 6 == 1:
            yield gen_resolved(rng)
        if i % 4 == 2:
            while True:
                x = add_extras(rng, gen_view(rng, rng.choice([1, 2, 2, 3])))
                if has_extra(x) and content_ok(x) and not has_raw(x):
                    break
            if rng.random() < 0.5:
                x = [2, rng.choice([0, 3, 5]), gen_attrs(rng), [x, gen_view(rng, 1)]]
                if has_raw(x) or not content_ok(x):
                    x = x[3][0]
            yield dict(case=[0, x, flip_extras(rng, x), rng.randint(0, 1)], kind="hydrate-extra", compare=False)
        if i % 3 == 0:
            yield gen_wide_case(rng)
        if i % 6 == 2:
            yield gen_typed_case(rng)
        if i % 3 == 1:
            yield gen_reactive_case(rng)
        if i % 6 == 5:
            yield gen_leptos_case(rng)


def gen_wide_case(rng):
    """the wide grammar (coverage/C05.md): other value types and representations, container instantiations,
    attribute kinds, attribute spreading, further elements; hydrated through hydrate_from / hydrate_from_position"""
    ctx = W.Ctx()
    v = W.gen_wide(rng, rng.choice([1, 2, 2, 3]), ctx)
    if rng.random() < 0.5:
        v = [2, rng.choice([0, 3, 5]), W.gen_attrs(rng), [v] + [W.gen_wide(rng, 1, W.Ctx()) for _ in range(rng.randint(0, 2))]]
    v2 = W.mutate_wide(rng, v, W.Ctx()) if rng.random() < 0.85 else W.gen_wide(rng, 2, W.Ctx())
    entry = int(v[0] in (2, 3, 12, 26) and rng.random() < 0.35)
    return dict(case=[6, v, v2, rng.randint(0, 1), entry], kind="hydrate-wide", compare=False)


TYPED_KINDS = [(0, 0), (0, 1), (0, 2), (0, 3), (1, 0), (1, 1), (1, 3), (1, 4), (3, 0), (3, 2), (5, 0), (5, 1), (5, 3),
               (6, 0), (6, 1), (6, 2), (7, 0), (7, 1), (7, 2), (7, 3), (8, 0), (8, 1), (9, 0)]


def _typed_value(rng, k, rp):
    opt = (k, rp) in ((0, 3), (1, 4), (5, 3), (7, 3))
    if opt and rng.random() < 0.35:
        return [0]
    if k == 1:
        return [1, b(rng.choice(W.CLASS_VALS))]
    if k == 3:
        return [1, b(rng.choice(W.STYLE_VALS))]
    if k == 5:
        return [1, b(rng.choice(W.WHOLE_STYLES))]
    if k == 7:
        return [1, b(rng.choice(["plain", "<em>hi</em> there", "a&amp;b", "<span title=\"t\">x</span><br>", "", "<!>"]))]
    return [1, b(W.gen_text(rng))]


def gen_typed_case(rng):
    """a root of CONCRETE type: <div ATTR>{&'static str}{Cow::Borrowed}{Cow::Owned}{rest}</div> — the string and
    attribute representations that AnyView / AnyAttribute would convert to their owned forms"""
    k, rp = rng.choice(TYPED_KINDS)
    ctx = W.Ctx().child(0)
    rest = W.gen_wide(rng, rng.choice([0, 1, 2]), ctx)
    t1 = [[k, rp, _typed_value(rng, k, rp)], [b(W.gen_text(rng)) for _ in range(3)], rest]
    t2 = [[k, rp, _typed_value(rng, k, rp)], [b(W.gen_text(rng)) for _ in range(3)], W.mutate_wide(rng, rest, W.Ctx().child(0))]
    return dict(case=[7, t1, t2, rng.randint(0, 1), rng.randint(0, 1)], kind="hydrate-typed", compare=False)


def gen_reactive_case(rng):
    """views with dynamic parts (closures / shared functions / signals as children and attribute values, local
    Suspends), hydrated under a running executor and driven through signal writes next to a client-built twin"""
    while True:
        nsig = rng.choice([1, 2, 2, 3])
        ctx = W.Ctx(True, nsig)
        v = W.gen_wide(rng, rng.choice([1, 2, 2, 3]), ctx)
        v = [2, rng.choice([0, 3, 5]), [], [v] + [W.gen_wide(rng, 1, ctx) for _ in range(rng.randint(0, 2))]]
        dynamic = W.has_op(v, (27,)) or W.local_ids(v) or any(x[0] == 26 and any(a[0] >= 10 for a in x[2]) for x in W.walk(v))
        if dynamic and not W.has_op(v, (15,)):
            break
    if rng.random() < 0.15:
        # typed root: a closure / Arc<dyn Fn> valued attribute on the concrete element type
        v = [31, [rng.choice([10, 11, 12, 13, 14]), rng.randint(0, 1), rng.randrange(nsig)], v[3][0]]
    loc = W.local_ids(v[2] if v[0] == 31 else v)
    form = rng.choice([1, 2]) if loc else rng.choice([0, 0, 1, 2])
    sigs = [rng.randint(0, 9) for _ in range(nsig)]
    steps = []
    for _ in range(rng.randint(1, 4)):
        writes = [[rng.randrange(nsig), rng.randint(0, 9)] for _ in range(rng.choice([1, 1, 2, 3]))]
        picks = [rng.randint(0, 7) for _ in range(rng.choice([0, 0, 3, 6]))]
        comps = [k for k in loc if rng.random() < 0.4]
        steps.append([writes, picks, comps])
    return dict(case=[4, form, v, sigs, steps, int(rng.random() < 0.3)], kind="hydrate-reactive", compare=False)


def _eb_conditions(t, out):
    op = t[0]
    if op == 2:
        for k in t[2]:
            _eb_conditions(k, out)
    elif op == 3:
        _eb_conditions(t[3], out)
        _eb_conditions(t[4], out)
    elif op == 4:
        _eb_conditions(t[5], out)
    elif op == 5:
        for k in t[3]:
            _eb_conditions(k, out)
    elif op == 8:
        out.append(t[2])
        _eb_conditions(t[3], out)
    elif op == 9:
        for k in t[1]:
            _eb_conditions(k, out)


def _wrap_boundaries(t):
    """every <Suspense>/<Transition> becomes the only child of a <div> of its own: the Position a boundary that is
    pending while the server renders hands back is stale (open finding F-C05-d = F-C07-a), inside an element of
    its own nothing follows it"""
    op = t[0]
    if op == 2:
        return [2, t[1], [_wrap_boundaries(k) for k in t[2]]]
    if op == 3:
        return [3, t[1], t[2], _wrap_boundaries(t[3]), t[4] if t[4] == [10] else _wrap_boundaries(t[4])]
    if op == 4:
        return t[:5] + [_wrap_boundaries(t[5])]
    if op == 5:
        return [2, [], [[5, t[1], t[2], [_wrap_boundaries(k) for k in t[3]]]]]
    if op == 8:
        return [8, t[1], t[2], _wrap_boundaries(t[3])]
    if op == 9:
        return [9, [_wrap_boundaries(k) for k in t[1]]]
    return t


def _boundaries_wrapped(t, alone=False):
    op = t[0]
    if op == 5:
        return alone and all(_boundaries_wrapped(k) for k in t[3])
    if op == 2:
        if len(t[2]) == 1 and t[2][0][0] == 5:
            return t[1] == [] and _boundaries_wrapped(t[2][0], True)
        return all(_boundaries_wrapped(k) for k in t[2])
    if op == 3:
        return _boundaries_wrapped(t[3]) and (t[4] == [10] or _boundaries_wrapped(t[4]))
    if op == 4:
        return _boundaries_wrapped(t[5])
    if op == 8:
        return _boundaries_wrapped(t[3])
    if op == 9:
        return all(_boundaries_wrapped(k) for k in t[1])
    return True


def gen_leptos_case(rng):
    """leptos components (the trees of C04's leptos kind, resources = leptos_server::Resource) streamed by the server
    with every resource resolved, hydrated next to a client-built twin, then driven by writes / refetches"""
    from . import c04
    while True:
        it = c04.gen_leptos_case(rng)
        _7, tree, sources, sigs, steps, _fin = it["case"]
        conds = []
        _eb_conditions(tree, conds)
        # an ErrorBoundary that has errors at render time needs the serialised errors of the shared context
        if all(c04.ev(e, sigs) != 0 for e in conds) and "(11 " not in C.sx(tree):
            break
    tree = _wrap_boundaries(tree)
    # polls in task order: each tree has resources and effects of its own, a chosen order would interleave them
    # differently for the two trees (whether an effect runs before or after its resource starts loading decides
    # what a boundary shows while the load is pending: the schedules are C04's subject)
    steps = [[w, [], sorted({r for r, _stale in comps})] for w, p, comps in steps]
    return dict(case=[5, rng.choice([1, 2]), tree, sources, sigs, steps], kind="hydrate-leptos", compare=False)


def gen_streamed(rng):
    """a view with Suspends whose futures are pending when the server renders it, streamed in order or
    out of order, futures completed in a chosen order"""
    while True:
        if rng.random() < 0.35:
            # a Suspend among text / element siblings, content starting or ending with text or an element
            def leaf():
                return rng.choice([[0, b(gen_text(rng) or "t")], [2, 1, [], []], [13, 7], [0, b("")]])
            content = rng.choice([leaf(), [4, [leaf(), leaf()]], [2, 1, [], [leaf()]]])
            sibs = [leaf() for _ in range(rng.randint(0, 2))] + [[14, 1, 1, content]] + [leaf() for _ in range(rng.randint(0, 2))]
            v = [4, sibs] if rng.random() < 0.5 else [2, rng.choice([0, 1]), [], sibs]
        else:
            base = gen_view(rng, rng.choice([1, 2, 2, 3]))
            if rng.random() < 0.5:
                base = [2, rng.choice([0, 3, 5]), gen_attrs(rng), [base, gen_view(rng, 1)]]
            v = add_suspends(rng, base, [], 0.75)
        ids = pending_ids(v)
        if ids and not has_raw(v) and content_ok(v):
            break
    order = list(ids)
    rng.shuffle(order)
    early = [i for i in ids if rng.random() < 0.25]
    return dict(case=[2, rng.choice([1, 2]), v, early, order], kind="streamed", compare=False)


def gen_resolved(rng):
    """the third server form: view.resolve().await.to_html(), with Suspends (also as list items) whose futures
    complete in a chosen order"""
    while True:
        if rng.random() < 0.4:
            items = [[14, i + 1, 1, rng.choice([[0, b(gen_text(rng) or "t")], [2, 1, [], [[0, b(str(i))]]], [13, i]])]
                     for i in range(rng.randint(2, 4))]
            v = [rng.choice([9, 9, 20]), items]
            if rng.random() < 0.5:
                v = [2, rng.choice([0, 4]), [], [v, [0, b("after")]]]
        else:
            base = gen_view(rng, rng.choice([1, 2, 2, 3]))
            if rng.random() < 0.3:
                base = add_extras(rng, base)
            v = add_suspends(rng, base, [], 0.75)
        ids = pending_ids(v)
        if ids and not has_raw(v) and content_ok(v) and shape_ok(v):
            break
    order = list(ids)
    rng.shuffle(order)
    if rng.random() < 0.4:
        order.reverse()
    early = [i for i in ids if rng.random() < 0.2]
    return dict(case=[3, v, early, order], kind="resolved", compare=False)


def oracle(item, impl):
    if isinstance(impl, str):
        return "harness error / panic outside hydrate: " + impl[:200]
    if not isinstance(impl, list):
        return "malformed observation"

    if item.get("kind") in ("hydrate-reactive", "hydrate-leptos"):
        if len(impl) == 2 and impl[1] == [0]:
            return "hydration failed: a node of the expected kind was not found where the walk looked for it"
        if len(impl) != 6 or impl[1][0] != 1:
            return "malformed observation"
        if impl[2] != 1:
            return "hydrate created, removed or replaced DOM nodes"
        for k, eq in enumerate(impl[3]):
            if eq != 1:
                return ("idle point %d (0 = after hydration, then one per step, last = all futures completed): the hydrated tree "
                        "differs from the client-built twin driven by the same signals (marker comments aside)" % k)
        if impl[4] != 0:
            return "after the hydrated state and the twin were dropped a signal write still mutated the DOM %d times" % impl[4]
        # impl[5] = DOM operations rejected (wrong parent / anchor; the real backend logs and ignores them): not a
        # verdict of its own — a hidden <For> updated under a suspended boundary produces them on a client-built
        # tree, too — a hydrated state bound to wrong nodes shows up as a difference from the twin above
        return None
    if item.get("kind") in ("hydrate-extra", "hydrate-wide", "hydrate-typed"):
        if len(impl) == 3 and impl[2] == [0]:
            return "hydration failed: a node of the expected kind was not found where the walk looked for it"
        if len(impl) < 6:
            return "malformed observation"
        if impl[2][0] != 1:
            return "hydration failed"
        if impl[3] != 1:
            return "hydrate created, removed or replaced DOM nodes"
        if impl[5] != 1:
            return "hydrated DOM differs from the client-built DOM (marker comments aside)"
        if len(impl) >= 8 and impl[6] != 1:
            return "after a same-shape rebuild the hydrated tree differs from the client-built twin (or the rebuild failed on it only)"
        if len(impl) >= 8 and impl[7] != 1:
            return "after rebuilding with the second view the hydrated tree differs from the client-built twin (or the rebuild failed on it only)"
        return None
    if item.get("kind") in ("streamed", "resolved"):
        if len(impl) == 3 and impl[2] == [0]:
            return "hydration of the streamed markup failed: a node of the expected kind was not found where the walk looked for it"
        if len(impl) != 5:
            return "malformed observation"
        if impl[2][0] != 1:
            return "hydration failed"
        if impl[3] != 1:
            return "hydrate created, removed or replaced DOM nodes"
        if impl[4] != 1:
            return "hydrated DOM (streamed markup) differs from the client-built DOM (marker comments aside)"
        return None
    if item.get("kind") == "streamed-forms":
        if len(impl) != 3:
            return "malformed observation"
        if impl[1] != 1:
            return "the in-order streamed form of a view without asynchronous parts differs from to_html()"
        if impl[2] != 1:
            return "the out-of-order streamed form of a view without asynchronous parts differs from to_html()"
        return None
    if item.get("kind") == "invalid-nesting":
        return None          # mis-nested markup: a browser re-parents, hydration may legitimately fail
    if len(impl) >= 2 and impl[1] == [-1]:
        return "markup outside the parser subset"
    if len(impl) < 6:
        if len(impl) == 3 and impl[2] == [0]:
            return "hydration failed: a node of the expected kind was not found where the walk looked for it"
        return "malformed observation"
    _html, _tree, hyd, same, touched, csr_eq = impl[:6]
    perturbed_ok, rebuild_ok = (impl[6], impl[7]) if len(impl) >= 8 else (0, 0)
    if hyd[0] != 1:
        return "hydration failed"
    if same != 1:
        return "hydrate created, removed or replaced DOM nodes"
    if csr_eq != 1:
        return "hydrated DOM differs from the client-built DOM (marker comments aside)"
    want = count_bound_writable(item["case"][1])
    if len(touched) != want or len(set(touched)) != len(touched):
        return ("a rebuild changing every text/attribute wrote to %d existing nodes, the view has %d bound "
                "text/attribute-carrying nodes" % (len(touched), want))
    if perturbed_ok != 1:
        return "after a same-shape rebuild the hydrated tree differs from the client-built twin (or created nodes the twin did not)"
    if rebuild_ok != 1:
        return "after rebuilding with the second view the hydrated tree differs from the client-built twin"
    return None


def nontrivial(item, model):
    if item.get("kind") in ("streamed", "resolved", "hydrate-extra", "hydrate-wide", "hydrate-typed", "hydrate-reactive", "hydrate-leptos"):
        return True
    if isinstance(model, str) or len(model) < 3 or item.get("kind") == "streamed-forms":
        return False
    tree = model[1]

    def count(n):
        return 1 + (sum(count(k) for k in n[3]) if n[0] == 2 else 0)
    total = sum(count(n) for n in tree)
    has_marker = any(n[0] == 1 for n in tree) or any(n[0] == 2 and n[3] for n in tree)
    return total >= 3 and has_marker


def classify(item, impl, model):
    if not isinstance(impl, list):
        return None
    if item.get("kind") == "streamed":
        # F-C05-d = C07's open finding F-C07-a seen from the hydration side: exactly the streamed cases in
        # which the Position a pending Suspend hands back changes the markup
        return "F-C05-d" if stale_position_matters(item) else None
    if item.get("kind") in ("hydrate-wide", "hydrate-typed") and len(impl) >= 6 and impl[2][0] == 1 and impl[3] == 1:
        v = item["case"][1] if item["kind"] == "hydrate-wide" else item["case"][1][2]
        if any(x[0] == 15 and x[3] for x in W.walk(v)):
            return "F-C05-c"
    if item.get("kind") == "hydrate" and len(impl) >= 6 and impl[2][0] == 1 and impl[3] == 1 \
            and has_raw_parts(item["case"][1]):
        # hydration itself succeeded and created nothing: what differs is the content of a raw-text element
        return "F-C05-c"
    return None


def _show(v):
    op = v[0]
    if op == 0:
        return repr(C.show_bytes(v[1]))
    if op == 1:
        return "()"
    if op == 13:
        return str(v[1])
    if op == 2:
        a = "".join(" %s=%r" % (KEYS[k], C.show_bytes(x)) for k, x in v[2])
        return "<%s%s>[%s]" % (ELEM[v[1]], a, ", ".join(_show(k) for k in v[3]))
    if op == 3:
        a = "".join(" %s=%r" % (KEYS[k], C.show_bytes(x)) for k, x in v[2])
        return "<%s%s/>" % (VOIDS[v[1]], a)
    if op == 4:
        return "(" + ", ".join(_show(k) for k in v[1]) + ",)"
    if op == 5:
        return "Some(%s)" % _show(v[1])
    if op == 6:
        return "None"
    if op == 7:
        return "Left(%s)" % _show(v[1])
    if op == 8:
        return "Right(%s)" % _show(v[1])
    if op == 9:
        return "vec![" + ", ".join(_show(k) for k in v[1]) + "]"
    if op == 10:
        return "Any(%s)" % _show(v[1])
    if op == 11:
        return "keyed[" + ", ".join(_show(k) for k in v[1]) + "]"
    if op == 12:
        return "inert(%s)" % _show_dom(v[1])
    if op == 14:
        return "Suspend#%d%s(%s)" % (v[1], "[pending]" if v[2] else "", _show(v[3]))
    if op == 16:
        return "KeepAlive{a: %s, b: %s, show_b: %d}" % (_show(v[1]), _show(v[2]), v[3])
    if op == 17:
        return "KeepAlive{a: None, b: None, show_b: %d}" % v[1]
    if op == 18:
        return "EitherOf3::%s(%s)" % ("ABC"[v[1]], _show(v[2]))
    if op == 19:
        return "Ok(%s)" % _show(v[2]) if v[1] else "Err(..)"
    if op == 20:
        return "StaticVec[" + ", ".join(_show(k) for k in v[1]) + "]"
    if op == 21:
        return "[%s, %s]" % (_show(v[1]), _show(v[2]))
    if op == 22:
        return "%s(%r)" % (["Arc<str>", "Cow<str>"][v[1]], C.show_bytes(v[2]))
    if op == 23:
        return "Owned(%s)" % _show(v[1])
    if op == 15:
        return "<%s>[%s]" % (RAWS[v[1]], ", ".join(repr(C.show_bytes(x[1])) if x[0] == 1 else ["()", "None", "vec![]"][x[1]] for x in v[3]))
    return "?"


def _show_dom(d):
    if d[0] == 0:
        return repr(C.show_bytes(d[1]))
    if d[0] == 1:
        return "<!>"
    return "<%s>[%s]" % (C.show_bytes(d[1]), ", ".join(_show_dom(k) for k in d[3]))


def describe(it):
    c = it["case"]
    if c[0] == 5:
        from . import c04
        return "%s of %s ; resources %s ; s=%r ; hydrate next to a client-built twin ; steps %s ; then complete all, drop both" % (
            ["", "in-order stream", "out-of-order stream"][c[1]], c04._lt(c[2]), [c04._se(e) for e in c[3]], c[4],
            "; ".join("set %s, poll %r, complete %r" % (",".join("s%d=%d" % (i, x) for i, x in w), p, k) for w, p, k in c[5]))
    if c[0] == 6:
        return "hydrate (%s) %s ; then rebuild with %s" % (
            "hydrate_from_position(el, Position::Current)" if c[4] else "hydrate_from(root)", W.show(c[1]), W.show(c[2]))
    if c[0] == 7:
        def ty(t):
            (k, rp, val), texts, rest = t
            a = W.show([26, 0, [[k, rp, val]], []])[5:-4] if k != 9 else "title=%r" % C.show_bytes(val[1])
            if k == 7:
                return "<div %s>[]" % a
            return "<div %s>[&'static str(%r), Cow::Borrowed(%r), Cow::Owned(%r), %s]" % (
                a, C.show_bytes(texts[0]), C.show_bytes(texts[1]), C.show_bytes(texts[2]), W.show(rest))
        return "hydrate (typed root, %s) %s ; then rebuild with %s" % (
            "hydrate_from_position(el, Position::Current)" if c[4] else "hydrate_from(root)", ty(c[1]), ty(c[2]))
    if c[0] == 4 and c[2][0] == 31:
        kinds = {10: "dir", 11: "class", 12: "class:on", 13: "style:width", 14: "style"}
        v = c[2]
        return "%s of typed <div %s={%s over s%d}>[%s] with signals %r ; hydrate next to a client-built twin ; steps %s" % (
            ["to_html", "in-order stream", "out-of-order stream"][c[1]], kinds[v[1][0]], ["FnMut", "Arc<dyn Fn>"][v[1][1]], v[1][2],
            W.show(v[2]), c[3],
            "; ".join("set %s, poll %r, complete %r" % (",".join("s%d=%d" % (i, x) for i, x in w), p, k) for w, p, k in c[4]))
    if c[0] == 4:
        return "%s of %s with signals %r%s ; hydrate next to a client-built twin ; steps %s ; then complete all, drop both" % (
            ["to_html", "in-order stream", "out-of-order stream"][c[1]], W.show(c[2]), c[3],
            " (first writes before any poll)" if c[5] else "",
            "; ".join("set %s, poll %r, complete %r" % (",".join("s%d=%d" % (i, x) for i, x in w), p, k) for w, p, k in c[4]))
    if c[0] == 1:
        return "streamed forms of %s" % _show(c[1])
    if c[0] == 3:
        return "resolve() of %s ; futures completed early %r then %r ; then to_html, hydrate" % (_show(c[1]), c[2], c[3])
    if c[0] == 2:
        return "%s stream of %s ; futures completed early %r then %r ; then hydrate" % (
            "in-order" if c[1] == 1 else "out-of-order", _show(c[2]), c[3], c[4])
    return "hydrate %s ; then rebuild with %s" % (_show(c[1]), _show(c[2]))


def coverage_extra(results):
    feats = {}
    for r in results:
        def walk(v):
            feats[v[0]] = feats.get(v[0], 0) + 1
            if v[0] == 2:
                for k in v[3]:
                    walk(k)
            elif v[0] in (4, 9, 11):
                for k in v[1]:
                    walk(k)
            elif v[0] in (5, 7, 8, 10):
                walk(v[1])
            elif v[0] == 14:
                walk(v[3])
        if r["item"]["case"][0] == 0:
            walk(r["item"]["case"][1])
    names = {0: "text", 1: "unit", 2: "element", 3: "void", 4: "tuple", 5: "some", 6: "none", 7: "left", 8: "right",
             9: "vec", 10: "any", 11: "keyed", 12: "inert", 13: "integer", 14: "suspend", 15: "raw-text"}
    return {"view_nodes_by_kind": {names.get(k, str(k)): n for k, n in sorted(feats.items())},
            "hydration_succeeded": sum(1 for r in results if not isinstance(r["impl"], str) and len(r["impl"]) >= 6)}


LEVEL_TEXT = ("Coq proofs, for all well-nested views of the combinator grammar (text incl. empty/adjacent, elements with "
              "attributes and children, void elements, tuples, Option, Either, Vec, AnyView/closures, keyed lists, inert "
              "static subtrees), that hydrating the view against the parse of its own server rendering succeeds at every "
              "step, performs no DOM write other than resetting placeholder text, binds exactly the non-separator nodes in "
              "document order, and leaves a DOM equal to the client-built one modulo marker comments — about an executable "
              "Gallina transcription of tachys' to_html/Position protocol, of the WHATWG tokenizer/tree-builder subset it "
              "reaches, and of hydrate::<true> over Cursor/PositionState; tied to /repo every run by executing that model "
              "(extracted) and the real to_html / harness parser / hydrate / rebuild on the same generated views.")
LEVEL_NOTE = ("Trusted: Coq kernel, extraction + OCaml driver, the Rust harness and its parser, the native DOM hook; "
              "assumed: a browser parses the emitted subset as the standard says ('in body' fragment case). Streaming "
              "(in-order / out-of-order) forms are compared with the synchronous string for non-suspending views, not "
              "proved. Compared, not proved (oracle: hydrated tree == client-built twin): the other string / primitive "
              "types, EitherOfN, StaticVec, arrays, attribute representations and spreading, custom / SVG elements, "
              "reactive closures and signals as children and attribute values with post-hydration updates under an "
              "executor, Suspends pending on the client, leptos <Show>/<For>/<Suspense>/<Transition>/<ErrorBoundary> "
              "through hydration (coverage/C05.md lists every entry point). Not driven: to_html*_branching forms, "
              "hydrate::<false> (templates), islands, reactive_impl! for store fields, Suspend-valued attributes. No axioms.")
TECHNIQUE = ("Coq proof (structural induction over views with an invariant tying the printer's Position to the walker's "
             "cursor; tokenizer/tree-builder run lemmas) + differential correspondence of the extracted model with the Rust code")
