"""C19 — cross-thread use of the reactive graph loses no wake-ups and cannot deadlock."""
import itertools

from . import common as C

PID = "C19"
PROPS_V = "theories/Props/Properties_C19.v"
MODEL_NAME = "Reactive/Park.v"
HARNESS = "mt"
HARNESS_ARGS = ["c19"]
ALLOWED_AXIOMS = []
RUN_IMPORT = "Reactive.ParkRun"
READY = True
IMPL_SHARDS = 12
SHRINK_PREFIX = 1

# ----------------------------------------------------------------------------- schedules
FAIR_ROUNDS = 10


def fair(n, rounds=FAIR_ROUNDS):
    """round-robin suffix: the 'bounded extra scheduler steps' after the enumerated prefix"""
    return [t for _ in range(rounds) for t in range(n)]


def interleavings(counts):
    """all sequences in which thread t occurs exactly counts[t] times"""
    total = sum(counts)

    def rec(rem, acc):
        if len(acc) == total:
            yield list(acc)
            return
        for t in range(len(rem)):
            if rem[t]:
                rem[t] -= 1
                acc.append(t)
                yield from rec(rem, acc)
                acc.pop()
                rem[t] += 1
    yield from rec(list(counts), [])


def random_schedule(rng, counts):
    pool = [t for t, c in enumerate(counts) for _ in range(c)]
    rng.shuffle(pool)
    return pool


# ----------------------------------------------------------------------------- cases
def await_case(kinds, prefix):
    n = len(kinds) + 1
    return [1, list(kinds), list(prefix) + fair(n)]


def chan_case(fine, progs, prefix):
    n = len(progs) + 1
    return [2, int(fine), [list(p) for p in progs], list(prefix) + fair(n)]


def sig_case(progs, prefix):
    n = len(progs)
    return [3, [[list(o) for o in p] for p in progs], list(prefix) + fair(n)]


def glitch_case(vals, prefix):
    return [4, list(vals), list(prefix) + fair(2)]


def lock_case(withlog, prefix):
    return [5, int(withlog), list(prefix) + fair(2, 14)]


def await_user_case(kind, prefix):
    return [10, [kind], list(prefix) + fair(2)]


def memolock_case(withlog, prefix):
    return [11, int(withlog), list(prefix) + fair(2, 14)]


def immediate_case():
    return [13, [0, 0, 0]]


def guard_case(kind, prefix):
    return [16, int(kind), list(prefix) + fair(2, 6)]


def sig_arena_case(progs, prefix):
    c = sig_case(progs, prefix)
    c[0] = 23
    return c


REORDER_TAIL = [101, 102, 0, 1, 2] * 7


def reorder_case(kinds, events):
    """hand-driven single-thread event sequence; the tail completes and drains whatever is in flight"""
    return [33, list(kinds), list(events) + REORDER_TAIL]


def gen_reorder(rng):
    n = rng.choice((2, 3))
    kinds = [rng.choice((0, 1, 2)) for _ in range(n)]
    ev = []
    order = list(range(n))
    rng.shuffle(order)
    ev += order                                   # everybody parks during load 1
    for _round in range(rng.choice((1, 2, 2, 3))):
        block = [100] * rng.choice((0, 1, 1, 2)) + [101, 102]
        if rng.random() < 0.3:
            rng.shuffle(block)
        ev += block
        order = list(range(n))
        rng.shuffle(order)                       # re-polled in a different order than they parked
        if rng.random() < 0.4:
            order = order[:rng.randint(1, n)]
        ev += order
        if rng.random() < 0.3:
            ev.insert(rng.randint(0, len(ev)), rng.choice(order + [100, 102]))
    return reorder_case(kinds, ev)


def notifying_case(prefix):
    return [34, list(prefix) + fair(2, 10)]


def await_fresh_case(kinds, prefix):
    c = await_case(kinds, prefix)
    c[0] = 31
    return c


def memo_chain_case(progs, prefix):
    c = sig_case(progs, prefix)
    c[0] = 32
    return c


def try_write_case(kind, prefix):
    return [27, int(kind), list(prefix) + fair(2, 3)]


def await_reload_case(kind, prefix):
    return [29, int(kind), list(prefix) + fair(2, 8)]


def dispose_case(prefix):
    return [30, list(prefix) + fair(2, 6)]


def user_write_case(kind, prefix):
    return [18, int(kind), list(prefix) + fair(2, 4)]


def store_read_case(prefix):
    return [17, list(prefix) + fair(2, 4)]


def read_case(prefix):
    return [7, list(prefix) + fair(2, 3)]


def stress_case(seed, rounds):
    return [9, int(seed), int(rounds)]


def generate(rng, tier):
    thorough = tier != "quick"
    # ---- 1. await path: exhaustive for one awaiter (each future kind), and two awaiters
    for kind in (0, 1, 2):
        for sch in interleavings([3, 5]):
            yield dict(case=await_case([kind], sch), kind="await-1x%d" % kind)
    pairs = [(0, 0), (1, 1), (0, 1), (1, 2)] if not thorough else list(itertools.product((0, 1, 2), repeat=2))
    for kk in pairs:
        allsch = list(interleavings([3, 3, 5]))
        if not thorough and kk != (1, 1):
            allsch = rng.sample(allsch, 3000)
        for sch in allsch:
            yield dict(case=await_case(list(kk), sch), kind="await-2")
    if thorough:
        for _ in range(6000):
            kk = [rng.choice((0, 1, 2)) for _ in range(3)]
            yield dict(case=await_case(kk, random_schedule(rng, [3, 3, 3, 5])), kind="await-3")
    # ---- 2. effect channel: fine granularity with one sender (1 and 2 notifications), coarse with two senders
    for sch in interleavings([4, 4]):
        yield dict(case=chan_case(1, [[5]], sch), kind="chan-fine-1")
    allsch = list(interleavings([6, 8]))
    for sch in allsch:
        yield dict(case=chan_case(1, [[5, 6]], sch), kind="chan-fine-2")
    allsch = list(interleavings([5, 3, 3]))
    for sch in (allsch if thorough else rng.sample(allsch, 3000)):
        yield dict(case=chan_case(0, [[5], [7]], sch), kind="chan-coarse-2x1")
    for _ in range(3000 if thorough else 500):
        progs = [[rng.randint(1, 9) for _ in range(rng.choice((1, 2)))] for _ in range(2)]
        cnt = [2 + 2 * sum(len(p) for p in progs)] + [3 * len(p) for p in progs]
        yield dict(case=chan_case(0, progs, random_schedule(rng, cnt)), kind="chan-coarse-rand")
    # ---- 3. signal writes (linearizability) and memo pulls
    for sch in interleavings([3, 3]):
        yield dict(case=sig_case([[[0, 2]], [[1, 5]]], sch), kind="sig-writes")
    allsch = list(interleavings([6, 6]))
    for sch in allsch:
        yield dict(case=sig_case([[[1, 1], [0, 7]], [[1, 5], [1, 3]]], sch), kind="sig-writes")
    for sch in interleavings([6, 3]):
        yield dict(case=sig_case([[[0, 2], [0, 3]], [[2]]], sch), kind="sig-pull-vs-write")
    allsch = list(interleavings([3, 6, 3]))
    for sch in (allsch if thorough else rng.sample(allsch, 3000)):
        yield dict(case=sig_case([[[0, 2]], [[2], [2]], [[2]]], sch), kind="sig-pull-vs-pull")
    for _ in range(4000 if thorough else 500):
        n = rng.choice((2, 3))
        progs = []
        for _t in range(n):
            p = []
            for _o in range(rng.choice((1, 2))):
                r = rng.random()
                p.append([0, rng.randint(2, 9)] if r < 0.35 else [1, rng.randint(1, 5)] if r < 0.7 else [2])
            progs.append(p)
        cnt = [3 * len(p) for p in progs]
        yield dict(case=sig_case(progs, random_schedule(rng, cnt)), kind="sig-rand")
    # ---- 4. mid-notification read
    for sch in interleavings([4, 3]):
        yield dict(case=glitch_case([2], sch), kind="glitch-1")
    allsch = list(interleavings([6, 6]))
    for sch in allsch:
        yield dict(case=glitch_case([2, 3], sch), kind="glitch-2")
    # ---- 5. lock order of notify_subs vs an effect re-running on another thread
    for sch in interleavings([5, 4]):
        yield dict(case=lock_case(0, sch), kind="lock-order")
        yield dict(case=lock_case(1, sch), kind="lock-order-log", compare=False)
    # ---- 10. await path with the awaiter's waker callbacks (clone, wake_by_ref) as yield points
    for kind in (0, 1, 2):
        for sch in interleavings([4, 5]):
            yield dict(case=await_user_case(kind, sch), kind="await-user-callbacks")
    # ---- 11/13. lock order signal -> memo -> effect (write on one thread, effect re-run on another),
    #             and signal -> memo -> ImmediateEffect on one thread
    for sch in interleavings([5, 4]):
        yield dict(case=memolock_case(0, sch), kind="memo-lock-order")
        yield dict(case=memolock_case(1, sch), kind="memo-lock-order-log", compare=False)
    yield dict(case=immediate_case(), kind="memo-immediate")
    # ---- 15-17. read guards / synchronous reads of an async derived value vs the completion of a reload
    yield dict(case=[15], kind="guard-one-thread")
    for kind in (0, 1):
        for sch in interleavings([3, 2]):
            yield dict(case=guard_case(kind, sch), kind="guard-two-threads")
    for sch in interleavings([2, 1]):
        yield dict(case=store_read_case(sch), kind="read-vs-store")
    # ---- audit: arena handles, non-blocking try_write, awaiter vs reload start, disposal of the effect
    for sch in interleavings([6, 3]):
        yield dict(case=sig_arena_case([[[0, 2], [0, 3]], [[2]]], sch), kind="sig-arena")
    for sch in interleavings([3, 3]):
        yield dict(case=sig_arena_case([[[0, 2]], [[1, 5]]], sch), kind="sig-arena")
    for _ in range(1500 if thorough else 300):
        progs = [[[0, rng.randint(2, 9)] if rng.random() < 0.4 else [1, rng.randint(1, 5)] if rng.random() < 0.5 else [2]
                  for _o in range(rng.choice((1, 2)))] for _t in range(rng.choice((2, 3)))]
        yield dict(case=sig_arena_case(progs, random_schedule(rng, [3 * len(p) for p in progs])), kind="sig-arena")
    for kind in (0, 1, 2):
        for sch in interleavings([3, 5]):
            yield dict(case=await_fresh_case([kind], sch), kind="await-fresh-waker")
    allsch = list(interleavings([3, 3, 5]))
    for kk in ((1, 1), (0, 2)):
        for sch in (allsch if thorough else rng.sample(allsch, 600)):
            yield dict(case=await_fresh_case(list(kk), sch), kind="await-fresh-waker")
    # ---- 33. N awaiters re-polled in a different order around reloads (hand-driven, one thread)
    import itertools as _it
    for n in (2, 3):
        for p1 in _it.permutations(range(n)):
            for p2 in _it.permutations(range(n)):
                for kinds in ([1] * n, [0, 2, 1][:n]):
                    ev = list(p1) + [100, 101, 102] + list(p2) + [101, 102] + list(p1)
                    yield dict(case=reorder_case(kinds, ev), kind="await-reorder", compare=False)
    for _ in range(6000 if thorough else 1200):
        yield dict(case=gen_reorder(rng), kind="await-reorder", compare=False)
    # ---- 34. a source write while the value's task is inside notify_subs (state Notifying)
    for sch in interleavings([6, 1]):
        yield dict(case=notifying_case(sch), kind="write-during-notifying", compare=False)
    for sch in interleavings([5, 5]):
        yield dict(case=memo_chain_case([[[0, 2]], [[2]]], sch), kind="memo-chain", compare=False)
    allsch = list(interleavings([10, 5]))
    for sch in (allsch if thorough else rng.sample(allsch, 300)):
        yield dict(case=memo_chain_case([[[0, 2], [0, 3]], [[2]]], sch), kind="memo-chain", compare=False)
    for kind in (0, 1, 2):
        for sch in interleavings([2, 1]):
            yield dict(case=try_write_case(kind, sch), kind="try-write", compare=False)
        allsch = list(interleavings([7, 4]))
        for sch in (allsch if thorough else rng.sample(allsch, 150)):
            yield dict(case=await_reload_case(kind, sch), kind="await-vs-reload-start", compare=False)
    for sch in interleavings([6, 1]):
        yield dict(case=dispose_case(sch), kind="effect-disposed", compare=False)
    # ---- 18. awaiting while a user holds the value's write guard
    for kind in (0, 1, 2):
        for sch in interleavings([2, 3]):
            yield dict(case=user_write_case(kind, sch), kind="await-vs-write-guard")
    # ---- 7. a signal read against a write that holds the value lock
    for sch in interleavings([2, 1]):
        yield dict(case=read_case(sch), kind="read-vs-write")
    # ---- 9. seeded random stress with a watchdog (free-running threads, jitter at the yield points)
    for _ in range(240 if thorough else 12):
        yield dict(case=stress_case(rng.randint(1, 10 ** 9), 150 if thorough else 40), kind="stress", compare=False)


def valid_case(item):
    c = item["case"]
    try:
        op = c[0]
        if op == 1:
            n = len(c[1]) + 1
            return len(c) == 3 and 1 <= len(c[1]) <= 3 and all(k in (0, 1, 2) for k in c[1]) and \
                all(0 <= t < n for t in c[2]) and c[2][-n * FAIR_ROUNDS:] == fair(n)
        if op == 2:
            n = len(c[2]) + 1
            ok = len(c) == 4 and c[1] in (0, 1) and 1 <= len(c[2]) <= 3 and all(len(p) >= 1 for p in c[2])
            return ok and (c[1] == 0 or len(c[2]) == 1) and all(0 <= t < n for t in c[3]) and \
                c[3][-n * FAIR_ROUNDS:] == fair(n)
        if op == 3:
            n = len(c[1])
            ok = len(c) == 3 and 1 <= n <= 3 and all(len(p) >= 1 for p in c[1])
            ok = ok and all((o[0] in (0, 1) and len(o) == 2) or (o[0] == 2 and len(o) == 1) for p in c[1] for o in p)
            return ok and all(0 <= t < n for t in c[2]) and c[2][-n * FAIR_ROUNDS:] == fair(n)
        if op == 4:
            return len(c) == 3 and len(c[1]) >= 1 and all(t in (0, 1) for t in c[2]) and \
                c[2][-2 * FAIR_ROUNDS:] == fair(2) and len(set(c[1])) == len(c[1]) and 1 not in c[1]
        if op == 5:
            return len(c) == 3 and c[1] in (0, 1) and all(t in (0, 1) for t in c[2]) and c[2][-28:] == fair(2, 14)
        if op == 10:
            return len(c) == 3 and len(c[1]) == 1 and c[1][0] in (0, 1, 2) and all(t in (0, 1) for t in c[2]) and \
                c[2][-2 * FAIR_ROUNDS:] == fair(2)
        if op == 11:
            return len(c) == 3 and c[1] in (0, 1) and all(t in (0, 1) for t in c[2]) and c[2][-28:] == fair(2, 14)
        if op == 13:
            return len(c) == 2 and c[1] == [0, 0, 0]
        if op == 15:
            return c == [15]
        if op == 16:
            return len(c) == 3 and c[1] in (0, 1) and all(t in (0, 1) for t in c[2]) and c[2][-12:] == fair(2, 6)
        if op in (23, 32):
            c3 = [3] + list(c[1:])
            return valid_case(dict(case=c3))
        if op == 34:
            return len(c) == 2 and all(t in (0, 1) for t in c[1]) and c[1][-20:] == fair(2, 10) and c[1].count(1) >= 1
        if op == 33:
            n = len(c[1])
            return len(c) == 3 and 2 <= n <= 3 and all(k in (0, 1, 2) for k in c[1]) and \
                all(e in (100, 101, 102) or 0 <= e < 3 for e in c[2]) and c[2][-len(REORDER_TAIL):] == REORDER_TAIL
        if op == 31:
            return valid_case(dict(case=[1] + list(c[1:])))
        if op == 27:
            return len(c) == 3 and c[1] in (0, 1, 2) and all(t in (0, 1) for t in c[2]) and c[2][-6:] == fair(2, 3)
        if op == 29:
            return len(c) == 3 and c[1] in (0, 1, 2) and all(t in (0, 1) for t in c[2]) and c[2][-16:] == fair(2, 8)
        if op == 30:
            return len(c) == 2 and all(t in (0, 1) for t in c[1]) and c[1][-12:] == fair(2, 6)
        if op == 18:
            return len(c) == 3 and c[1] in (0, 1, 2) and all(t in (0, 1) for t in c[2]) and c[2][-8:] == fair(2, 4)
        if op == 17:
            return len(c) == 2 and all(t in (0, 1) for t in c[1]) and c[1][-8:] == fair(2, 4)
        if op == 7:
            return len(c) == 2 and all(t in (0, 1) for t in c[1]) and c[1][-6:] == fair(2, 3)
        if op == 9:
            return len(c) == 3 and c[1] >= 1 and 1 <= c[2] <= 1000
    except Exception:
        return False
    return False


# ----------------------------------------------------------------------------- oracle
def merges(seqs):
    """all interleavings of the given sequences that keep each sequence's own order"""
    seqs = [list(s) for s in seqs if s]
    if not seqs:
        yield []
        return
    for i, s in enumerate(seqs):
        rest = seqs[:i] + [s[1:]] + seqs[i + 1:]
        for m in merges(rest):
            yield [s[0]] + m


def oracle(item, impl):
    """what the property text demands, checked on the implementation's observation alone:
    every awaiter resumed with the value, every notified effect ran (saw the final value),
    nothing blocked forever, final values = those of some sequential order of the operations"""
    c = item["case"]
    if isinstance(impl, str):
        return "harness error / panic: " + impl
    if not isinstance(impl, list):
        return "harness error: malformed observation %r" % (impl,)
    op = c[0]
    if op in (1, 10, 31):
        aw, cdone, hang = impl
        if hang:
            return "a thread is blocked forever (await path)"
        if not cdone:
            return "the completer did not finish within the bounded extra steps"
        for i, (st, v, _polls) in enumerate(aw):
            if st != 1:
                return "awaiter %d is still pending after the value became ready (lost wake-up)" % i
            if v != 42:
                return "awaiter %d resumed with %d, not the ready value 42" % (i, v)
        return None
    if op == 2:
        log, fin, sts, hang = impl
        if hang or 2 in sts:
            return "a thread is blocked forever (effect channel)"
        if any(s != 1 for s in sts[1:]):
            return "a writer did not finish within the bounded extra steps"
        lasts = [p[-1] for p in c[2]]
        if fin not in lasts:
            return "final signal value %d is not the last write of any thread" % fin
        if not log or log[-1] != fin:
            return "the notified effect did not run after the last write (last saw %r, signal is %d)" % (log[-1:], fin)
        return None
    if op == 34:
        started, fin, sv, hang = impl
        if hang:
            return "a thread is blocked forever (write during notify_subs)"
        if sv != 1:
            return "the source write did not finish within the bounded extra steps"
        if started != 2 or fin != 20:
            return ("the async derived value never reloaded after its source was written: %d load(s), value %d "
                    "(source write ignored while the state was Notifying)" % (started, fin))
        return None
    if op == 33:
        aw, fin, started = impl
        loads = [10 * (j + 1) for j in range(started)]
        if fin not in loads:
            return "the value %d is not the result of one of the %d loads" % (fin, started)
        for i, (st, v, _p) in enumerate(aw):
            if st != 1:
                return "awaiter %d was never resumed although the value is ready (%d) (lost wake-up after a reload)" % (i, fin)
            if v not in loads:
                return "awaiter %d resumed with %d, which no load produced" % (i, v)
        return None
    if op == 32:
        fin_s, _fin_m2, sts, hang = impl
        if hang or 2 in sts:
            return "a thread is blocked forever (memo chain)"
        if 3 in sts:
            return "a memo read panicked (memo chain)"
        if any(x != 1 for x in sts):
            return "a thread did not finish within the bounded extra steps"
        writes = [[o for o in p if o[0] != 2] for p in c[1]]
        finals = set()
        for m in merges(writes):
            v = 1
            for o in m:
                v = o[1] if o[0] == 0 else v + o[1]
            finals.add(v)
        if fin_s not in finals:
            return "final signal value %d is not the result of any sequential order of the writes" % fin_s
        # the final value of m2 is not judged here: without a chain model a stale m2 could not be told from the
        # open finding F-C19-d (single memo, scenario 3/23), see coverage/C19.md
        return None
    if op == 27:
        (st1,), st0, fin, hang = impl
        if hang:
            return "a thread is blocked forever (try_write scenario)"
        if st1 == 3:
            return "a signal write panicked because another thread held a guard of the value (non-blocking try_write)"
        if st0 != 1 or st1 != 1:
            return "a thread did not finish within the bounded extra steps"
        want = {0: (2, 12), 1: (11,), 2: (5,)}[c[1]]
        if fin not in want:
            return "final signal value %d is not the result of a sequential order %r" % (fin, want)
        return None
    if op == 29:
        (st, v), edone, hang = impl
        if hang:
            return "a thread is blocked forever (await vs reload start)"
        if not edone:
            return "the value's task did not finish the reload within the bounded extra steps"
        if st != 1:
            return "the awaiter is still pending after the reload completed (lost wake-up)"
        if v not in (1, 2):
            return "awaiter resumed with %d, neither the old nor the reloaded value" % v
        return None
    if op == 30:
        ended, hang = impl
        if hang:
            return "a thread is blocked forever (effect disposed)"
        if not ended:
            return "the disposed effect's task never ended (its receiver was not woken by the dropped sender)"
        return None
    if op in (3, 23):
        fin_s, fin_m, pulls, order, sts, hang = impl
        if hang or 2 in sts:
            return "a thread is blocked forever (signal/memo)"
        if 3 in sts:
            return "a memo read panicked (value taken by a concurrent recomputation)"
        if any(s != 1 for s in sts):
            return "a thread did not finish within the bounded extra steps"
        writes = [[o for o in p if o[0] != 2] for p in c[1]]
        finals = set()
        for m in merges(writes):
            v = 1
            for o in m:
                v = o[1] if o[0] == 0 else v + o[1]
            finals.add(v)
        if fin_s not in finals:
            return "final signal value %d is not the result of any sequential order of the writes %r" % (fin_s, sorted(finals))
        if fin_m != fin_s * 10:
            return "final memo value %d is not 10 * final signal value %d (stale memo)" % (fin_m, fin_s)
        return None
    if op == 4:
        log, fin, sts, hang = impl
        if hang or 2 in sts:
            return "a thread is blocked forever (glitch scenario)"
        if sts[1] != 1:
            return "the writer did not finish within the bounded extra steps"
        if fin != c[1][-1]:
            return "final signal value is not the last write"
        if not log or log[-1] != [fin + 1, fin * 2]:
            return "the effect did not run after the last write"
        for a, b in log:
            if 2 * (a - 1) != b:
                return "effect run saw (a, b) = (%d, %d): no single value of s gives both (mid-notification read)" % (a, b)
        return None
    if op == 18:
        (st, v, _polls), wst, hang = impl
        if hang:
            return "a thread is blocked forever (await vs a user's write guard)"
        if wst != 1:
            return "the writer did not finish within the bounded extra steps"
        if st != 1:
            return "the awaiter is still pending after the writer released the value (lost wake-up, write guard)"
        if v not in (1, 7):
            return "awaiter resumed with %d, neither the value before nor after the write" % v
        return None
    if op in (15, 16, 17):
        (st, v), fin, hang = impl
        what = {15: "a by_ref() guard kept across an await on the executor thread of the reload",
                16: "a synchronous read guard held on another thread until a task queued behind the reload releases it",
                17: "a synchronous read while the value's task stores the reload"}[op]
        if hang:
            return "a thread is blocked forever (%s)" % what
        if st == 3:
            return "a synchronous read of the async derived value panicked / saw it as disposed (%s)" % what
        if st != 1:
            return "the reader did not finish within the bounded extra steps (%s)" % what
        if v not in (1, 2) or fin != 2:
            return "read %d / final %d is not a value of some sequential order (%s)" % (v, fin, what)
        return None
    if op == 13:
        return "thread blocked forever: self-deadlock (memo notifies an ImmediateEffect under its lock)" if impl[0] else None
    if op == 11:
        if c[1] == 0:
            return "threads blocked forever: lock-order inversion (memo vs effect)" if impl[0] else None
        log, sts, hang = impl
        if hang or 2 in sts:
            return "threads blocked forever: lock-order inversion (memo vs effect)"
        if sts[1] != 1:
            return "the writer did not finish within the bounded extra steps"
        if not log or log[-1] != [20, 5]:
            return "the effect did not run after its sources changed (last saw %r)" % (log[-1:],)
        return None
    if op == 5:
        if c[1] == 0:
            return "threads blocked forever: lock-order inversion" if impl[0] else None
        log, sts, hang = impl
        if hang or 2 in sts:
            return "threads blocked forever: lock-order inversion"
        if sts[1] != 1:
            return "the completer did not finish within the bounded extra steps"
        if not log or log[-1] != [5, 42]:
            return "the effect did not run after its sources changed (last saw %r)" % (log[-1:],)
        return None
    if op == 7:
        (rst, v), wst, fin = impl
        if rst == 3:
            return "a signal read panicked because a write on another thread held the value lock"
        if rst != 1 or wst != 1:
            return "reader or writer did not finish within the bounded extra steps"
        if fin != 2 or v not in (1, 2):
            return "read %d / final %d is not a value of some sequential order" % (v, fin)
        return None
    if op == 9:
        okr, lost, stale, hangs, contended = impl
        if contended and not (hangs or lost or stale):
            return "stress: %d round(s) in which a signal read panicked because a write on another thread held the value lock" % contended
        okr += contended
        if hangs:
            return "stress: %d round(s) left threads blocked forever (watchdog)" % hangs
        if lost:
            return "stress: %d round(s) with an awaiter never resumed / a writer never finished (watchdog)" % lost
        if stale:
            return "stress: %d round(s) in which the effect never saw the final values (watchdog)" % stale
        if okr != c[2]:
            return "stress: only %d of %d rounds completed" % (okr, c[2])
        return None
    return None


def classify(item, impl, model):
    """open known findings; the class must also be exhibited by the model on this very schedule
    (KnownClass of the Coq statements), otherwise the failure is reported as a violation"""
    c = item["case"]
    if isinstance(impl, str) or (isinstance(model, str) and c[0] not in (9, 27, 34)):
        return None
    msg = oracle(item, impl) or ""
    if c[0] == 4 and "mid-notification read" in msg and oracle(item, model) and "mid-notification read" in oracle(item, model):
        return "F-C19-b"
    if c[0] == 34 and "ignored while the state was Notifying" in msg:
        # KnownClass from the schedule alone: the write falls after the 3rd slot of the value's task (it stands at
        # "ad:before_drain", state = Notifying) and before its 4th
        sch = c[1]
        first1 = sch.index(1) if 1 in sch else -1
        if first1 >= 0 and sch[:first1].count(0) == 3:
            return "F-C19-h"
        return None
    if c[0] == 27 and "non-blocking try_write" in msg and c[1] in (0, 1):
        # KnownClass, computed from the schedule alone: thread 1's operation falls between thread 0
        # taking its guard (its 1st slot) and releasing it (its 2nd slot)
        sch = c[2]
        z = [i for i, t in enumerate(sch) if t == 0]
        o = [i for i, t in enumerate(sch) if t == 1]
        if len(z) >= 2 and o and z[0] < o[0] < z[1]:
            return "F-C19-f"
        return None
    if c[0] in (3, 23) and "stale memo" in msg and "stale memo" in (oracle(item, model) or ""):
        return "F-C19-d"
    if c[0] in (3, 23) and "memo read panicked" in msg and "memo read panicked" in (oracle(item, model) or ""):
        return "F-C19-e"
    if c[0] == 7 and "signal read panicked" in msg and "signal read panicked" in (oracle(item, model) or ""):
        return "F-C19-f"
    if c[0] == 9 and "signal read panicked" in msg:
        # free-running stress has no model; the harness attributes the round by the panic message of the read
        return "F-C19-f"
    return None


def nontrivial(item, model):
    """non-trivial = the enumerated prefix really interleaves (at least two switches between threads)"""
    c = item["case"]
    if c[0] == 9:
        return True
    sched = c[-1]
    if c[0] in (13, 15, 33):
        return True
    if c[0] in (23, 32):
        c = [3] + list(c[1:])
    if c[0] == 31:
        c = [1] + list(c[1:])
    n = {34: lambda: 2, 16: lambda: 2, 17: lambda: 2, 18: lambda: 2, 27: lambda: 2, 29: lambda: 2, 30: lambda: 2, 1: lambda: len(c[1]) + 1, 2: lambda: len(c[2]) + 1, 3: lambda: len(c[1]), 4: lambda: 2, 5: lambda: 2,
         7: lambda: 2, 10: lambda: 2, 11: lambda: 2}[c[0]]()
    tail = n * (14 if c[0] in (5, 11) else 3 if c[0] == 7 else 6 if c[0] == 16 else 4 if c[0] in (17, 18) else 3 if c[0] == 27 else 8 if c[0] == 29 else 10 if c[0] == 34 else 6 if c[0] == 30 else FAIR_ROUNDS)
    pre = sched[:-tail] if tail else sched
    switches = sum(1 for a, b in zip(pre, pre[1:]) if a != b)
    return switches >= 2


NAMES = {34: "source write during notify_subs (Notifying window)",
         33: "N awaiters re-polled in another order around reloads (hand-driven)",
         31: "await path, fresh future and waker per poll", 32: "memo -> memo chain across threads",
         23: "signal writes / memo pulls through arena handles", 27: "non-blocking try_write of a signal",
         29: "awaiter vs the start of a reload", 30: "effect disposed while its task is polled",
         18: "await vs a user's write guard",
         15: "by_ref guard across an await vs reload (one executor thread)",
         16: "sync read guard on another thread vs reload", 17: "sync read vs the store of a reload",
         10: "await path, waker callbacks as yield points", 11: "lock order signal -> memo -> effect",
         13: "signal -> memo -> ImmediateEffect on one thread", 9: "random stress with watchdog", 7: "signal read vs write holding the lock", 1: "await path", 2: "effect channel", 3: "signal writes / memo pulls", 4: "mid-notification read",
         5: "lock order notify_subs vs effect re-run"}


def describe(it):
    c = it["case"]
    if c[0] == 9:
        return "seeded stress: seed %d, %d rounds of 2 awaiters + completer + effect executor + writer running freely with jitter at the yield points" % (c[1], c[2])
    return "%s; case %s; the schedule lists, slot by slot, which thread runs to its next yield point" % (
        NAMES.get(c[0], "?"), C.sx(c)[:200])


def coverage_extra(results):
    lost = sum(1 for r in results if r["item"]["case"][0] == 1 and not r["oracle"])
    return dict(
        interleavings_by_scenario={NAMES[k]: sum(1 for r in results if r["item"]["case"][0] == k) for k in NAMES},
        await_interleavings_all_resumed=lost,
        threads="2-4 real OS threads per case, released one yield-to-yield segment at a time by the schedule",
    )


RULE = ("every case = scenario + explicit schedule (list of thread ids, one slot = run that REAL thread from its current named yield "
        "point to the next) + a fixed round-robin suffix (the 'bounded extra scheduler steps'). Exhaustive enumeration of all "
        "interleavings of the instrumented segments for: 1 awaiter x completer for each of ready()/into_future()/by_ref() (56 each), "
        "the same with the awaiter's waker vtable (clone / wake_by_ref = user code called inside park_if_still_loading) as yield "
        "points (126 each), signal -> memo -> effect lock order (126) and signal -> memo -> ImmediateEffect, "
        "1 sender x receiver of the effect channel at the finest granularity (70), 2 writers (20), pull-vs-write (84), "
        "mid-notification read (35), notify_subs vs effect re-run lock order (126); seeded samples (quick) or the full sets (thorough) "
        "for 2 awaiters (9240 each), 2 notifications (3003), 2 senders, pull-vs-pull, plus seeded random 3-4 thread cases; "
        "plus a seeded free-running 5-thread stress with a watchdog (480 rounds quick / 36000 thorough, not compared with the model). "
        "Non-trivial = the enumerated prefix switches threads at least twice; distinct = distinct case hash.")
TRUSTED = [
    "Coq 8.16.1 kernel; no axioms (every theorem of Properties_C19.v is 'Closed under the global context')",
    "extraction to OCaml with ExtrOcamlBasic only, ocamlfind ocamlopt 4.13.1, extract/driver.ml sexp I/O",
    "harness/mt: schedule controller over REAL threads (blocks each thread inside reactive_graph::verif_yield, releases one segment per slot, "
    "detects kernel-blocked threads through /proc/self/task/<tid>/stat), harness-owned any_spawner executor, flag wakers",
    "the protocols are MODELS under sequential consistency: weak-memory behaviour of the Relaxed atomics, OS scheduling and lock fairness "
    "cannot be exhibited; one model step = one yield-to-yield segment of the instrumented code, so interleavings finer than the "
    "instrumented points (between instructions inside a segment) are not explored on the real code",
    "modelled, not verified: futures AtomicWaker (register/wake as linearizable operations), async_lock::RwLock (WRITER_BIT blocks new "
    "readers, last reader wakes the writer), std RwLock (not re-entrant); each is exercised by the real code on every case",
    "Reactive/Locks.v lock-event traces are hand-mirrored from the guard scopes of computed/inner.rs, effect/inner.rs, graph/sets.rs, "
    "signal/subscriber_traits.rs and async_derived/*.rs; they are tied to the code by reading and by scenario 5 (no hang on any enumerated "
    "interleaving), not by a trace comparison; the global arena lock (owner/arena.rs) is outside the traces",
]
ASSUMPTIONS = [
    "sequential consistency; a thread blocked on a lock resumes as soon as the lock is free",
    "wakers only set a flag / schedule the task (a waker that polls the task inline from inside wake() is outside the model)",
    "one completion round of the async derived value per case (reloads are a sequence of such rounds)",
    "user callbacks instrumented as yield points: the awaiter's waker clone / wake_by_ref and the entry of the effect's mark_check / "
    "mark_dirty, the Drop of the value replaced by a reload (inside the value's write lock); NOT instrumented: waker drop, wake "
    "under the drain lock, closures of memos/effects/fetchers",
]
LEVEL_TEXT = ("Coq proofs about executable protocol models transcribed from the code (await path of async derived values for any number "
              "of awaiters and every schedule: no lost wake-up and the completer cannot be stuck; effect notification channel for any "
              "sender programs and every schedule: the effect's last run sees the final value; signal writes linearizable; lock-order "
              "discipline => no deadlock for every schedule, with the current guard scopes satisfying it), refutations with "
              "machine-checked witness schedules for the code before the fixes and for the open design limitations; tied to /repo by "
              "running REAL threads through every enumerated interleaving of the named yield points and comparing the outcome of each "
              "interleaving with the extracted model, plus a model-independent oracle.")
LEVEL_NOTE = ("Scenarios 27, 29, 30, 32, 33, 34 (try_write, awaiter vs reload start, effect disposal, memo chain, N awaiters re-polled "
              "in another order around reloads, source write in the Notifying window; F-C19-h has no Coq statement) are judged by the oracle only, not compared with a model. Partial: protocol models under sequential consistency (no weak memory, no OS scheduling, no lock fairness); granularity = "
              "instrumented yield points; lock traces hand-mirrored; memo recomputation and the write's mark loop are not atomic across "
              "threads (F-C19-b, F-C19-d, F-C19-e listed as open design limitations).")
TECHNIQUE = ("Coq proof (invariants over all schedules) of protocol models + exhaustive enumeration of interleavings on real threads "
             "via named yield points, differential against the extracted model")
