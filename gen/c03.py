"""C03 — updating a view in place gives the same DOM as rendering it fresh."""
from . import common as C

PID = "C03"
PROPS_V = "theories/Props/Properties_C03.v"
MODEL_NAME = "Dom/View.v"
HARNESS = "dom"
HARNESS_ARGS = ["c03"]
ALLOWED_AXIOMS = []
READY = True
RUN_IMPORT = "Dom.ViewRun"

RULE = ("case = (npre npost v0 (v1..vn)): a view value v0 drawn from the grammar text (String, &'static str, Arc<str>, "
        "Cow::Borrowed / Owned) | 33 primitive types (all integer and float types, char, bool, IP / socket addresses, "
        "NonZero*) | unit | element(tag in p/span/div "
        "and the raw-text elements textarea/style/script/noscript (ESCAPE_CHILDREN = false; about one element in four, "
        "their child mostly a text, an Option or a tuple, every v1..vn mutating it), "
        "attributes id: Option<String>, hidden: bool, class: String, class:on: bool, style color: String; one child) | "
        "tuple of 1-8 | Either left/right | EitherOf3/4/5/8/16 | Option | Result Ok/Err | Vec | array [T; 0..3] | StaticVec "
        "(= Fragment, built through Fragment::new when its length is odd) | keyed list "
        "| InertElement (4 HTML strings; oracle only), every child position type-erased with "
        "into_any() (so a change of shape is a change of the underlying type and equal shapes go through the typed "
        "rebuild), nesting depth <= 4 (quick) / 5 (thorough), is built and mounted between npre/npost text siblings, "
        "rebuilt with v1..vn (each either a mutation of the previous value - text/attribute edits, branch switches, "
        "insertions/removals in lists, shape changes - or an independent draw) and unmounted; the harness also renders "
        "every vi from scratch between the same siblings. One case in 25 is a history of EitherKeepAlive values (at the "
        "root, as a member of a fixed tuple or as the child of a fixed element; sides given as Some(new value) - also "
        "the hidden one - or None = no change, switches of show_b; oracle only: the from-scratch render uses the values "
        "the sides hold). One case in 8 is a STATICALLY TYPED template (harness/dom/src/c03t.rs, 140 templates, no "
        "AnyView inside: &str / String / Rc<str> / Arc<str> / Cow texts with shared and fresh pointers, &str values that are "
        "prefixes of ONE buffer (same start address, different lengths) as text, child, attribute, class, style, inner_html, 22 primitive "
        "types, tuples of 1-13, Option, Vec, arrays, Either, EitherOf3/4/7, Result, StaticVec, keyed, EitherKeepAlive, "
        "InertElement, ViewTemplate; elements p/div/input/br/img/custom element/svg/mathml with every AttributeValue "
        "(&str, String, &String, Arc<str>, bool, numbers, char, (), Option of each), IntoClass (&str, String, Cow, "
        "Arc<str>, Option, (name, bool) toggles, combinations), IntoStyle (&str, String, Arc<str>, Option, (name, value) "
        "with &str / String / Arc<str> / Option values), inner_html (&str, String, Arc<str>, Option), custom attributes, "
        "bool properties, nine attributes at once) driven by a vector of six small parameters per step, 40% of them "
        "also wrapped in into_any() (the owned / cloneable forms); oracle only. All draws come from the PRNG seeded by VERIF_SEED. The "
        "item view of a keyed list is a function of its key (tachys keeps the state of a retained key). "
        "Non-trivial = some vi differs from its predecessor; distinct = distinct case hash.")
TRUSTED = [
    "Coq 8.16.1 kernel (coqc); every theorem of Properties_C03.v is 'Closed under the global context'",
    "extraction to OCaml with ExtrOcamlBasic only, ocamlfind ocamlopt, extract/driver.ml sexp I/O",
    "harness/dom (Rust) `h_dom c03` building real tachys views (String, (), HtmlElement<P|Span|Div|Textarea|Style|Script|"
    "Noscript> with id/hidden/"
    "class/class:on/style attributes, i32, &'static str, tuples, arrays, Either, EitherOf3, Option, Vec, StaticVec, "
    "keyed, AnyView) on the native in-memory "
    "DOM of the verif-hook commit, trusted to implement DOM insertBefore/remove/setAttribute/classList semantics",
    "NOT modelled, judged by the model-independent oracle only (the harness renders every value from scratch and the "
    "oracle compares; `compare: False`): EitherKeepAlive, InertElement, and all statically typed templates of "
    "harness/dom/src/c03t.rs (typed Render / AttributeValue / IntoClass / IntoStyle / InnerHtmlValue / IntoProperty impls, "
    "self-closing / custom / svg / mathml elements, custom attributes, ViewTemplate); the new erased views Arc<str>, Cow, "
    "primitives, 1-tuples, larger tuples, EitherOf4..16, Result, Fragment ARE compared: ViewRun.v decodes them onto the "
    "model's constructors (Result = an Either whose Err side is the placeholder of ())",
    "modelled, not verified: the DOM (Dom/View.v: a parent's child list of node trees; attributes as four slots), "
    "TypeId equality of AnyView as equality of the shape constructor (element tag, tuple arity), itertools::zip_longest, "
    "Vec — compared with the real code on every case",
]
ASSUMPTIONS = [
    "the view is mounted when it is rebuilt (tachys: StaticVec::rebuild panics otherwise)",
    "class strings are single-space separated tokens (what the generator produces); other whitespace is normalised "
    "by classList and not modelled",
    "attribute insertion order is not part of the DOM that is compared (attributes are a map)",
    "typed templates: a class attribute without tokens counts as no class attribute (classList.remove of the last token "
    "leaves class=\"\"), and a DOM property set to undefined counts as one that was never set (Option<bool> properties: "
    "rebuild writes undefined for None, build writes nothing; properties are not in the property text)",
    "EitherKeepAlive: the side that is shown has been given a value (tachys: expect(\"A was not present\"))",
]
LEVEL_TEXT = ("Unbounded Coq proof, over an executable Gallina transcription of tachys' Render::build / rebuild / mount / "
              "unmount / insert_before_this for every combinator of the grammar (text and primitives, elements of any tag with "
              "attributes, classes, class: toggles and styles, tuples, Either / EitherOf3 / Option, Vec, arrays, keyed lists via "
              "C11's theorem, AnyView with type changes), that building A, mounting it between arbitrary siblings and rebuilding "
              "with B — for any sequence of values — leaves exactly the children a fresh build of B produces, that retained nodes "
              "keep their identity and that unmount removes exactly the view's nodes; StaticVec / node-less views and the "
              "class:on-through-AnyView sub-case are refuted with witnesses and excluded by decidable predicates that the check's "
              "classifier mirrors (open findings F-C03-ab, F-C03-c). Tied to /repo by running the extracted model and the real "
              "views on the native in-memory DOM (cfg(leptos_verif)) on ~20 000 generated histories per run and comparing the "
              "serialised children and node identities after every step, plus a fresh-render oracle computed by the real code.")
LEVEL_NOTE = ("unbounded machine-checked proof (rebuild = fresh render, for every sibling context, nesting depth and "
              "history) for text (String, &str, i32), unit, elements (any tag: the model's element is parametric in the "
              "tag, as Render::build/rebuild of HtmlElement are on the client, so the raw-text elements textarea/style/"
              "script/noscript are covered by the same theorems) with id/hidden/class/class:on/style attributes, "
              "tuples, arrays, Either, EitherOf3, Option, Vec and AnyView type changes; node-less views (StaticVec / "
              "Fragment, empty array: F-C03-ab) and exactly the failing class:on sub-case (F-C03-c, predicate compat) "
              "are excluded by hypotheses and refuted by three proved witnesses; keyed lists are part of the induction: "
              "the model runs C11's diff/apply_diff with the item views as builder and the keyed case is proved "
              "from C11's keyed_rebuild_ok / rebuild_items (hypothesis: a retained row shows what its item view "
              "shows, which is how tachys treats keys); the link between the "
              "compared serialisation and the content function cs is proved (C03_serialisation_is_cs). Oracle-only "
              "(not in the model): EitherKeepAlive, InertElement, ViewTemplate, inner_html, properties, and every statically "
              "typed (non-AnyView) rebuild; not driven at all: Static<V> / StaticAttr (nightly), Island (feature islands), "
              "Doctype / IslandChildren (no client state), string-valued properties (need a JS value); see coverage/C03.md")
TECHNIQUE = "Coq proof of an executable model + differential correspondence on the native DOM hook"

TEXTS = ["", "a", "b", "cc", "<x>"]
CLASSES = ["", "a", "b", "a b", "a", "b", "on", "a on"]
COLORS = ["red", "blue"]
IDS = [None, "i", "j"]


def gen_attrs(rng):
    i = rng.choice(IDS)
    return [[] if i is None else [i], rng.randint(0, 1), rng.choice(CLASSES), int(rng.random() < 0.15), rng.choice(COLORS)]


TAGS = ["p", "span", "div", "textarea", "style", "script", "noscript"]


def gen_tag(rng):
    """p / span / div, or (one in four) a raw-text element: textarea, style, script, noscript"""
    return rng.randint(0, 2) if rng.random() < 0.75 else rng.randint(3, 6)


def gen_raw_child(rng, depth):
    """what people put into a raw-text element: a text, an optional text, a tuple of texts"""
    t = lambda: rng.choice([[0, rng.choice(TEXTS)], [10, rng.choice(TEXTS)], [9, rng.randint(0, 9)]])
    r = rng.random()
    if r < 0.4 or depth <= 0:
        return t()
    if r < 0.6:
        return [5, [t()] if rng.random() < 0.6 else []]
    if r < 0.8:
        return [3, [rng.choice([t(), [5, [t()] if rng.random() < 0.5 else []]]) for _ in range(rng.choice([2, 2, 3]))]]
    if r < 0.9:
        return [4, rng.randint(0, 1), t()]
    return [6, [t() for _ in range(rng.choice([0, 1, 2]))]]


N_PRIM = 33
N_INERT = 4


def prim_text(kind, d):
    """what the primitive built by harness/dom/src/c03.rs `prim(kind, d)` displays"""
    if kind <= 5:
        return str(d)
    if kind <= 10:
        return str(-d)
    if kind == 11:
        return "%d.5" % d
    if kind == 12:
        return "%d.25" % d
    if kind == 13:
        return chr(97 + d)
    if kind == 14:
        return "true" if d % 2 else "false"
    if kind in (15, 17):
        return "127.0.0.%d" % d
    if kind == 16:
        return "::%x" % (d + 1)
    if kind == 18:
        return "127.0.0.%d:80" % d
    if kind == 19:
        return "[::%x]:80" % (d + 1)
    if kind == 20:
        return "127.0.0.%d:81" % d
    if kind == 22:
        return str(-d - 1)
    return str(d + 1)


def gen_prim(rng, kind=None):
    kind = rng.randrange(N_PRIM) if kind is None else kind
    d = rng.randint(0, 9)
    return [14, kind, d, prim_text(kind, d)]


def gen_view(rng, depth, keyed=False, static=True, plain=False):
    """plain: no class:on toggle and no node-less view below (used inside EitherKeepAlive, whose hidden side keeps its
    state across several updates, so that the syntactic known-finding classes stay decidable)"""
    kinds = ["text", "text", "unit", "el", "num", "sstr", "text2", "prim"]
    if depth > 0:
        kinds += ["el", "tuple", "either", "either3", "opt", "vec", "vec", "array", "tuple1", "bigtuple", "eitherN", "result"]
        if getattr(rng, "extra", True):
            # the views without a model (their cases are judged by the oracle only): in one case of seven
            kinds += ["inert", "inert"]
        if static and not plain:
            kinds += ["static"]
        if keyed:
            kinds += ["keyed"]
    k = rng.choice(kinds)
    static = static and not plain
    sub = lambda: gen_view(rng, depth - 1, keyed, static, plain)
    if k == "text2":
        return [13, rng.randint(0, 2), rng.choice(TEXTS)]
    if k == "prim":
        return gen_prim(rng)
    if k == "tuple1":
        return [15, sub()]
    if k == "bigtuple":
        return [3, [gen_view(rng, min(depth - 1, 1), keyed, static, plain) for _ in range(rng.randint(4, 8))]]
    if k == "eitherN":
        n = rng.choice([4, 5, 8, 16])
        return [16, n, rng.randint(0, 3 if n != 5 else 4), sub()]
    if k == "result":
        return [17, [sub()] if rng.random() < 0.65 else []]
    if k == "inert":
        return [19, rng.randrange(N_INERT)]

    if k == "text":
        return [0, rng.choice(TEXTS)]
    if k == "unit":
        return [1]
    if k == "num":
        return [9, rng.randint(0, 9)]
    if k == "sstr":
        return [10, rng.choice(TEXTS)]
    if k == "either3":
        return [11, rng.randint(0, 2), sub()]
    if k == "array":
        return [12, [sub() for _ in range(rng.choice([0, 1, 2, 2, 3]) if static else rng.choice([1, 2, 2, 3]))]]
    if k == "el":
        tag = gen_tag(rng)
        attrs = gen_attrs(rng)
        if plain:
            attrs[3] = 0
        if tag >= 3 and rng.random() < 0.7:
            return [2, tag, attrs, gen_raw_child(rng, depth)]
        child = sub() if depth > 0 else rng.choice([[0, rng.choice(TEXTS)], [1]])
        return [2, tag, attrs, child]
    if k == "tuple":
        return [3, [sub() for _ in range(rng.choice([2, 2, 3]))]]
    if k == "either":
        return [4, rng.randint(0, 1), sub()]
    if k == "opt":
        return [5, [sub()] if rng.random() < 0.6 else []]
    if k == "vec":
        return [6, [sub() for _ in range(rng.choice([0, 1, 2, 2, 3]))]]
    if k == "static":
        return [7, [sub() for _ in range(rng.choice([0, 0, 1, 2, 3]))]]
    keys = rng.sample(range(6), rng.randint(0, 4))
    return [8, [[key, keyed_child(key)] for key in keys]]


def keyed_child(key):
    """the item view of a key: tachys keeps the item state of a retained key (view_fn is not called again), so
    the value under a key must be a function of the key for 'same value' to be meaningful"""
    t = str(key)
    return [[0, t], [2, 0, [[], 0, "a", 0, "red"], [0, t]], [3, [[0, "k"], [0, t]]], [6, [[0, t]] * (key % 3)]][key % 4]


def mutate(rng, v, depth, keyed, static, plain=False):
    """a value close to v: same shape at the root most of the time"""
    r = rng.random()
    sub = lambda x: mutate(rng, x, depth - 1, keyed, static, plain)
    fresh = lambda: gen_view(rng, max(depth - 1, 0), keyed, static, plain)
    if r < 0.12:
        return gen_view(rng, depth, keyed, static, plain)          # anything (shape change likely)
    t = v[0]
    if t == 13:
        return [13, v[1] if rng.random() < 0.9 else rng.randint(0, 2), rng.choice(TEXTS)]
    if t == 14:
        return gen_prim(rng, v[1])
    if t == 15:
        return [15, sub(v[1])]
    if t == 16:
        return [16, v[1], v[2] if rng.random() < 0.5 else rng.randint(0, 3), sub(v[3])]
    if t == 17:
        if v[1] and rng.random() < 0.6:
            return [17, [sub(v[1][0])]]
        return [17, [fresh()] if rng.random() < 0.5 else []]
    if t == 19:
        return [19, rng.randrange(N_INERT)]
    if t == 18:
        return gen_view(rng, depth, keyed, static, plain)      # EitherKeepAlive only comes from gen_eka_case
    if t == 0:
        return [0, rng.choice(TEXTS)]
    if t == 1:
        return [1]
    if t == 9:
        return [9, rng.randint(0, 9)]
    if t == 10:
        return [10, rng.choice(TEXTS)]
    if t == 11:
        return [11, v[1] if rng.random() < 0.5 else rng.randint(0, 2), sub(v[2])]
    if t == 12:
        return [12, [sub(x) if rng.random() < 0.7 else x for x in v[1]]]
    if t == 2:
        a = list(v[2])
        for _ in range(rng.choice([0, 1, 1, 2])):
            i = rng.randrange(5)
            a[i] = gen_attrs(rng)[i]
        if plain:
            a[3] = 0
        tag = v[1] if rng.random() < 0.85 else gen_tag(rng)
        return [2, tag, a, sub(v[3])]
    if t == 3:
        return [3, [sub(x) if rng.random() < 0.7 else x for x in v[1]]]
    if t == 4:
        return [4, v[1] if rng.random() < 0.5 else 1 - v[1], sub(v[2])]
    if t == 5:
        if v[1] and rng.random() < 0.6:
            return [5, [sub(v[1][0])]]
        return [5, [fresh()] if rng.random() < 0.5 else []]
    if t in (6, 7):
        l = [sub(x) if rng.random() < 0.5 else x for x in v[1]]
        for _ in range(rng.choice([0, 1, 1, 2])):
            q = rng.random()
            if q < 0.4 and l:
                del l[rng.randrange(len(l))]
            elif q < 0.8 and len(l) < 4:
                l.insert(rng.randint(0, len(l)), fresh())
            elif l:
                rng.shuffle(l)
        return [t, l]
    items = [[k, x] for k, x in v[1]]
    for _ in range(rng.choice([0, 1, 2])):
        q = rng.random()
        if q < 0.3 and items:
            del items[rng.randrange(len(items))]
        elif q < 0.7:
            free = [k for k in range(7) if k not in [i[0] for i in items]]
            if free:
                k = rng.choice(free)
                items.insert(rng.randint(0, len(items)), [k, keyed_child(k)])
        else:
            rng.shuffle(items)
    return [8, items]


def children_of(v):
    """the sub-views of the new codes 15-18"""
    t = v[0]
    if t == 15:
        return [v[1]]
    if t == 16:
        return [v[3]]
    if t == 17:
        return list(v[1])
    if t == 18:
        return list(v[2]) + list(v[3]) + list(v[4]) + list(v[5])
    return []


def has(v, code):
    if v[0] == code:
        return True
    if v[0] in (15, 16, 17, 18):
        return any(has(x, code) for x in children_of(v))
    if v[0] == 2:
        return has(v[3], code)
    if v[0] in (3, 6, 7, 12):
        return any(has(x, code) for x in v[1])
    if v[0] in (4, 11):
        return has(v[2], code)
    if v[0] == 5:
        return any(has(x, code) for x in v[1])
    if v[0] == 8:
        return any(has(x[1], code) for x in v[1])
    return False


def has_raw(v):
    """contains a raw-text element (textarea / style / script / noscript)"""
    if v[0] in (15, 16, 17, 18):
        return any(has_raw(x) for x in children_of(v))
    if v[0] == 2:
        return v[1] >= 3 or has_raw(v[3])
    if v[0] in (3, 6, 7, 12):
        return any(has_raw(x) for x in v[1])
    if v[0] in (4, 11):
        return has_raw(v[2])
    if v[0] == 5:
        return any(has_raw(x) for x in v[1])
    if v[0] == 8:
        return any(has_raw(x[1]) for x in v[1])
    return False


def nodeless(v):
    """contains a view that may own no DOM node: a StaticVec / Fragment, or an empty array"""
    if v[0] == 7 or (v[0] == 12 and not v[1]):
        return True
    if v[0] in (15, 16, 17, 18):
        return any(nodeless(x) for x in children_of(v))
    if v[0] == 2:
        return nodeless(v[3])
    if v[0] in (3, 6, 12):
        return any(nodeless(x) for x in v[1])
    if v[0] in (4, 11):
        return nodeless(v[2])
    if v[0] == 5:
        return any(nodeless(x) for x in v[1])
    if v[0] == 8:
        return any(nodeless(x[1]) for x in v[1])
    return False


# ------------------------------------------------------------------------ typed templates (oracle only)
# harness/dom/src/c03t.rs; (id, what the template is, typed only?)
TEMPLATES = {
    0: "&'static str", 1: "String", 2: "Arc<str>", 3: "Cow<str>", 4: "Rc<str>", 5: "(&str, String)", 6: "(String,)",
    7: "(&str, String, Arc<str>, Cow<str>, i32)", 8: "13-tuple of &str / String / u8", 9: "Option<&str>", 10: "Option<String>",
    11: "Option<(String, &str)>", 12: "Vec<String>", 13: "Vec<&str>", 14: "Vec<Option<String>>", 15: "Vec<(String, Option<&str>)>",
    16: "[String; 2]", 17: "[&str; 3]", 18: "Either<&str, String>", 19: "Either<(String, String), Vec<String>>",
    20: "EitherOf3<&str, String, Option<String>>", 21: "EitherOf4<String, &str, (String, String), Vec<String>>", 22: "EitherOf7<..>",
    23: "Result<String, E>", 24: "Result<(String, &str), E>", 25: "StaticVec<String>", 26: "keyed list of Strings",
    27: "EitherKeepAlive<String, (String, &str)>", 28: "Option<Vec<String>>", 29: "(Vec<String>, Option<String>, &str)",
    30: "InertElement", 31: "()", 32: "Vec<Either<String, (String, String)>>", 33: "keyed list of (String, <span>) rows",
    34: "Result<Vec<String>, E>", 35: "(Rc<str>, Option<Rc<str>>, Vec<Rc<str>>)",
    36: "&str prefixes of ONE buffer (same start address, different lengths)", 37: "(&str prefix, String, &str prefix)",
    38: "Option<&str prefix>", 39: "Vec<&str prefix>", 40: "Cow::Borrowed(&str prefix)", 41: "[&str prefix; 2]",
    42: "Either<&str prefix, String>",
    100: "u8", 101: "u16", 102: "u32", 103: "u64", 104: "u128", 105: "usize", 106: "i8", 107: "i16", 108: "i32", 109: "i64",
    110: "i128", 111: "isize", 112: "f32", 113: "f64", 114: "char", 115: "bool", 116: "Ipv4Addr", 117: "IpAddr", 118: "SocketAddr",
    119: "NonZeroU8", 120: "NonZeroI64", 121: "NonZeroUsize",
    200: "<p>{&str}", 201: "<div id=&str>", 202: "<div id=String>{String}", 203: "<div id=Arc<str>>", 204: "<div id=Option<&str>>",
    205: "<div id=Option<String>>", 206: "<div id=&String>", 207: "<div hidden=bool>", 208: "<div hidden=Option<bool>>",
    209: "<div tabindex=i32>", 210: "<div title=u64 lang=f64 dir=char>", 211: "<div title=()>", 212: "<div id=Option<Arc<str>>>",
    213: "<div id=Option<i32>>", 214: "<input value=String id=Option<&str>>", 215: "(&str, <br>, String)", 216: "<img src=&str alt=Option<String>>",
    217: "custom element <my-el id=&str>", 218: "<svg><circle r=String cx=Option<&str>>", 219: "<math><mi>",
    220: "<div class=&str>", 221: "<div class=String>", 222: "<div class=Cow<str>>", 223: "<div class=Arc<str>>", 224: "<div class=Option<&str>>",
    225: "<div class=Option<String>>", 226: "<div class:on=bool>", 227: "<div class=&str class:on=bool>", 228: "<div class:on=bool class:a=bool>",
    230: "<div class=Option<(\"on\", bool)>>", 231: "<div class=String class:on=bool>",
    240: "<div style=&str>", 241: "<div style=String>", 242: "<div style=Arc<str>>", 243: "<div style=Option<&str>>",
    244: "<div style:color=&str>", 245: "<div style:color=String>", 246: "<div style:color=Arc<str>>", 247: "<div style:color=Option<String>>",
    248: "<div style:color=&str style:margin=Option<&str>>", 249: "<div style=Option<(\"color\", &str)>>",
    250: "<div inner_html=&str>", 251: "<div inner_html=String>", 252: "<div inner_html=Arc<str>>", 253: "<div inner_html=Option<String>>",
    260: "<div data-x=String> (custom attribute)", 261: "<div data-x=Option<&str> aria-label=&str>", 262: "<input prop:checked=bool>",
    263: "<input prop:checked=Option<bool>>",
    270: "<div id=Option<&str> hidden=bool class=&str style:color=&str>{(&str, <span>{String}, Option<&str>)}",
    271: "<div> with nine attributes", 272: "<ul>{Vec<<li>{String}>}", 273: "<div>{Either<<p id>, <span>>}",
    274: "<div>{(Option<<span class>>, Vec<String>, <p>{i32})}", 280: "ViewTemplate<<div>{(&str, <span>{String}, String)}>",
    290: "<p>{&str prefix of one buffer}", 291: "<div id=&str prefix title=Option<&str prefix>>{(&str prefix, <span>{&str prefix})}",
    292: "<div class=&str prefix>{&str prefix}", 293: "<div class=Option<&str prefix>>", 294: "<div style=&str prefix>",
    295: "<div style:color=&str prefix>", 296: "<div inner_html=&str prefix>", 297: "<div data-x=&str prefix>",
    298: "<div style:NAME=&str> with NAME in color / background-color / margin changing between steps (&str names)",
    299: "<div style:NAME=String> with a changing String NAME", 232: "<div class:NAME=bool> with NAME in on / a / b changing",
    264: "<div NAME=String> custom attribute with NAME in data-x / data-y changing",
    281: "ViewTemplate<<p id=&str class=&str>{&str}>",
    282: "ViewTemplate<<div id=&str>{(&str, <span class=&str>{String}, String)}>",
}
TYPED_ONLY = {4, 35}                    # Rc<str> is not Send: no into_any()
NAME_CHANGE_TEMPLATES = {298: 3, 299: 3, 232: 3, 264: 2}      # template -> number of names (name = p0 mod n)
CLASS_TOGGLE_TEMPLATES = {227, 231}     # class string + class:on toggle (F-C03-c territory)
T_CLASSES = ["", "a", "b", "a b", "on", "a on"]


def gen_typed_case(rng):
    tpl = rng.choice(sorted(NAME_CHANGE_TEMPLATES)) if rng.random() < 0.08 else rng.choice(sorted(TEMPLATES))
    erase = 0 if tpl in TYPED_ONLY else int(rng.random() < 0.4)
    hi = rng.choice([5, 9, 11])
    par = lambda: [rng.randint(0, hi) for _ in range(6)]

    def near(q):
        q = list(q)
        for _ in range(rng.choice([0, 1, 1, 2, 3])):
            q[rng.randrange(6)] = rng.randint(0, hi)
        return q
    ps = [par()]
    for _ in range(rng.choice([1, 2, 3, 4, 5])):
        ps.append(near(ps[-1]) if rng.random() < 0.75 else par())
    vs = [[30, tpl, erase, q] for q in ps]
    npre, npost = rng.choice([(0, 0), (1, 1), (0, 1), (1, 0), (2, 2), (0, 2)])
    return dict(case=C.norm([npre, npost, vs[0], vs[1:]]), kind="typed template (oracle only)", compare=False)


def typed_ok(vals):
    """code 30 only as the whole value, the same template and erase flag in every step"""
    if not any(has(v, 30) for v in vals):
        return True
    return (all(v[0] == 30 for v in vals) and len({(v[1], v[2]) for v in vals}) == 1 and vals[0][1] in TEMPLATES
            and not (vals[0][2] and vals[0][1] in TYPED_ONLY))


def name_change_known(tpl, seq):
    """F-C03-f on the templates whose pair NAME changes: the retained name of a style pair is never updated, so the
    SECOND change of the name (even back to the first name) leaves a stale property; a custom attribute keeps the
    attribute of the old name (its state does not know the key)"""
    n = NAME_CHANGE_TEMPLATES[tpl]
    names = [q[0] % n for q in seq]
    changes = [i for i in range(1, len(names)) if names[i] != names[i - 1]]
    if tpl in (298, 299):
        return len(changes) >= 2
    if tpl == 232:
        return False            # the class toggle handles a change of its name
    return bool(changes)


def typed_class_edit(tpl, erase, a, b):
    """F-C03-c on the templates with a class string and a class:on toggle: the toggle was on, the rebuild writes the class
    attribute again (erased: always - the owned string is an Arc<str> compared by pointer; typed: when the string differs)
    and afterwards `on` is wanted but not in the string, or in the string but switched off"""
    ca, cb = T_CLASSES[a[0] % 6], T_CLASSES[b[0] % 6]
    on_a, on_b = a[1] % 2 == 1, b[1] % 2 == 1
    rewritten = bool(erase) or ca != cb
    has_on = "on" in cb.split()
    return on_a and ((not on_b and has_on) or (on_b and rewritten and not has_on))


# ------------------------------------------------------------------------ EitherKeepAlive (oracle only)
# a side that already has a state and is hidden when the rebuild starts may be given a new value too (the state is
# rebuilt while it is not mounted; F-C03-d, fixed: a Vec that grows while unmounted panicked)
EKA_HIDDEN_REBUILD = True


def eka_wrap(path, e, fill):
    """put the EitherKeepAlive value e at a stable position: root, member of a fixed-arity tuple, child of an element"""
    for kind, arg in reversed(path):
        if kind == "tuple":
            i, others = arg
            e = [3, others[:i] + [e] + others[i:]]
        elif kind == "el":
            tag, attrs = arg
            e = [2, tag, attrs, e]
        else:
            e = [15, e]
    return e


def gen_eka_case(rng, depth):
    """a history of EitherKeepAlive values at one stable position.  tachys: a side given as None means "no change";
    the side that is shown must exist (have been given a value at some point)"""
    rng.extra = False
    g = lambda: gen_view(rng, rng.randint(0, max(depth - 1, 0)), False, False, True)
    path = []
    for _ in range(rng.choice([0, 0, 1, 1, 2])):
        r = rng.random()
        if r < 0.5:
            others = [g() for _ in range(rng.choice([1, 2]))]
            path.append(("tuple", (rng.randint(0, len(others)), others)))
        elif r < 0.85:
            a = gen_attrs(rng)
            a[3] = 0
            path.append(("el", (rng.randint(0, 2), a)))
        else:
            path.append(("tuple1", None))
    shown = rng.randint(0, 1)
    cur = [None, None]
    cur[shown] = g()
    if rng.random() < 0.6:
        cur[1 - shown] = g()
    vals = []

    def emit(given):
        vals.append(eka_wrap(path, [18, shown, [given[0]] if given[0] is not None else [], [given[1]] if given[1] is not None else [],
                                    [cur[0]] if cur[0] is not None else [], [cur[1]] if cur[1] is not None else []], None))
    emit(list(cur))
    for _ in range(rng.choice([1, 2, 3, 4, 5])):
        new_shown = shown if rng.random() < 0.5 else 1 - shown
        given = [None, None]
        for x in (0, 1):
            if cur[x] is None:
                if new_shown == x or rng.random() < 0.3:
                    given[x] = g()                       # first build of this side
            elif (x == shown or EKA_HIDDEN_REBUILD) and rng.random() < 0.6:
                given[x] = mutate(rng, cur[x], depth, False, False, True) if rng.random() < 0.8 else g()
        for x in (0, 1):
            if given[x] is not None:
                cur[x] = given[x]
        shown = new_shown
        emit(given)
    npre, npost = rng.choice([(0, 0), (1, 1), (0, 1), (1, 0), (2, 2), (0, 2)])
    return dict(case=C.norm([npre, npost, vals[0], vals[1:]]), kind="EitherKeepAlive (oracle only)", compare=False)


def eka_chains_ok(vals):
    """EitherKeepAlive only at stable positions, and every run of EitherKeepAlive values obeys the rules of gen_eka_case"""
    if not any(has(v, 18) for v in vals):
        return True
    t = vals[0][0]
    if all(v[0] == t for v in vals):
        if t == 3 and len({len(v[1]) for v in vals}) == 1:
            return all(eka_chains_ok([v[1][i] for v in vals]) for i in range(len(vals[0][1])))
        if t == 2 and len({v[1] for v in vals}) == 1:
            return eka_chains_ok([v[3] for v in vals])
        if t == 15:
            return eka_chains_ok([v[1] for v in vals])
    built, cur, shown, prev_was = set(), [None, None], None, False
    for v in vals:
        if v[0] != 18:
            if has(v, 18):
                return False
            prev_was = False
            continue
        if any(has(x, 18) for x in children_of(v)):
            return False
        if not prev_was:
            built, cur, shown = set(), [None, None], None
        for x in (0, 1):
            given = v[2 + x]
            if given:
                if x in built and x != shown and not EKA_HIDDEN_REBUILD:
                    return False            # a hidden state is not rebuilt
                built.add(x)
                cur[x] = given[0]
            if (v[4 + x][0] if v[4 + x] else None) != cur[x]:
                return False                # the recorded "value held" must be the last value given
        if v[1] not in built:
            return False
        shown, prev_was = v[1], True
    return True


def generate(rng, tier):
    n = 20000 if tier == "quick" else 200000
    depth = 4 if tier == "quick" else 5
    for i in range(n):
        if i % 25 == 7:
            yield gen_eka_case(rng, rng.randint(1, 3))
            continue
        if i % 8 == 3:
            yield gen_typed_case(rng)
            continue
        r = rng.random()
        keyed = r < 0.12
        static = r < 0.30
        d = rng.randint(1, depth)
        rng.extra = rng.random() < 0.15
        v0 = gen_view(rng, d, keyed, static)
        vs = []
        cur = v0
        for _ in range(rng.choice([1, 1, 2, 3, 4])):
            cur = mutate(rng, cur, d, keyed, static)
            vs.append(cur)
        npre, npost = rng.choice([(0, 0), (1, 1), (0, 1), (1, 0), (2, 2), (0, 2)])
        uses_keyed = any(has(v, 8) for v in [v0] + vs)
        kind = "with-keyed" if uses_keyed else ("with-staticvec" if any(nodeless(v) for v in [v0] + vs) else "core")
        oracle_only = any(has(v, 19) for v in [v0] + vs)
        if oracle_only:
            kind += " +InertElement (oracle only)"
        yield dict(case=C.norm([npre, npost, v0, vs]), kind=kind, compare=not oracle_only)


def valid_view(v, depth=0):
    if not isinstance(v, list) or not v or not isinstance(v[0], int) or depth > 8:
        return False
    t = v[0]
    try:
        if t == 0:
            return len(v) == 2 and isinstance(v[1], list) and all(isinstance(b, int) and 0 <= b < 256 for b in v[1]) and _utf8(v[1])
        if t == 1:
            return len(v) == 1
        if t == 9:
            return len(v) == 2 and isinstance(v[1], int) and 0 <= v[1] <= 9
        if t == 10:
            return len(v) == 2 and _bytes(v[1])
        if t == 11:
            return len(v) == 3 and v[1] in (0, 1, 2) and valid_view(v[2], depth + 1)
        if t == 12:
            return len(v) == 2 and isinstance(v[1], list) and len(v[1]) <= 3 and all(valid_view(x, depth + 1) for x in v[1])
        if t == 2:
            a = v[2]
            return (len(v) == 4 and v[1] in (0, 1, 2, 3, 4, 5, 6) and isinstance(a, list) and len(a) == 5
                    and isinstance(a[0], list) and len(a[0]) <= 1 and all(_bytes(x) for x in a[0])
                    and a[1] in (0, 1) and _bytes(a[2]) and _class_ok(a[2]) and a[3] in (0, 1) and _bytes(a[4]) and len(a[4]) > 0
                    and valid_view(v[3], depth + 1))
        if t == 3:
            return len(v) == 2 and 2 <= len(v[1]) <= 8 and all(valid_view(x, depth + 1) for x in v[1])
        if t == 13:
            return len(v) == 3 and v[1] in (0, 1, 2) and _bytes(v[2])
        if t == 14:
            return (len(v) == 4 and isinstance(v[1], int) and 0 <= v[1] < N_PRIM and isinstance(v[2], int) and 0 <= v[2] <= 9
                    and v[3] == list(prim_text(v[1], v[2]).encode()))
        if t == 15:
            return len(v) == 2 and valid_view(v[1], depth + 1)
        if t == 16:
            return (len(v) == 4 and v[1] in (4, 5, 8, 16) and isinstance(v[2], int) and 0 <= v[2] <= (4 if v[1] == 5 else 3)
                    and valid_view(v[3], depth + 1))
        if t == 17:
            return len(v) == 2 and isinstance(v[1], list) and len(v[1]) <= 1 and all(valid_view(x, depth + 1) for x in v[1])
        if t == 18:
            return (len(v) == 6 and v[1] in (0, 1) and all(isinstance(x, list) and len(x) <= 1 for x in v[2:])
                    and all(valid_view(x, depth + 1) and plain_view(x) for x in v[2] + v[3] + v[4] + v[5]))
        if t == 19:
            return len(v) == 2 and isinstance(v[1], int) and 0 <= v[1] < N_INERT
        if t == 30:
            return (depth == 0 and len(v) == 4 and v[1] in TEMPLATES and v[2] in (0, 1) and isinstance(v[3], list)
                    and len(v[3]) <= 6 and all(isinstance(x, int) and 0 <= x <= 11 for x in v[3]))
        if t == 4:
            return len(v) == 3 and v[1] in (0, 1) and valid_view(v[2], depth + 1)
        if t == 5:
            return len(v) == 2 and len(v[1]) <= 1 and all(valid_view(x, depth + 1) for x in v[1])
        if t in (6, 7):
            return len(v) == 2 and isinstance(v[1], list) and all(valid_view(x, depth + 1) for x in v[1])
        if t == 8:
            keys = [x[0] for x in v[1]]
            return (len(v) == 2 and all(isinstance(x, list) and len(x) == 2 and isinstance(x[0], int) and x[0] >= 0 for x in v[1])
                    and len(set(keys)) == len(keys) and all(valid_view(x[1], depth + 1) for x in v[1]))
    except Exception:
        return False
    return False


def plain_view(v):
    """no class:on toggle that is on, no node-less view, no nested EitherKeepAlive"""
    if nodeless(v) or has(v, 18):
        return False

    def on(v):
        if v[0] == 2:
            return v[2][3] == 1 or on(v[3])
        if v[0] in (3, 6, 7, 12):
            return any(on(x) for x in v[1])
        if v[0] in (4, 11):
            return on(v[2])
        if v[0] == 5:
            return any(on(x) for x in v[1])
        if v[0] == 8:
            return any(on(x[1]) for x in v[1])
        return any(on(x) for x in children_of(v))
    return not on(v)


def _bytes(b):
    return isinstance(b, list) and all(isinstance(x, int) and 0 <= x < 256 for x in b) and _utf8(b)


def _utf8(b):
    try:
        bytes(b).decode("utf-8")
        return True
    except Exception:
        return False


def _class_ok(b):
    s = bytes(b).decode("utf-8")
    return s == " ".join(s.split()) and all(c.isalnum() or c == " " for c in s)


def valid_case(item):
    c = item["case"]
    if not (isinstance(c, list) and len(c) == 4 and isinstance(c[0], int) and isinstance(c[1], int)):
        return False
    if not (0 <= c[0] <= 3 and 0 <= c[1] <= 3 and isinstance(c[3], list) and c[3]):
        return False
    if not valid_view(c[2]) or not all(valid_view(v) for v in c[3]):
        return False
    if not eka_chains_ok([c[2]] + c[3]) or not typed_ok([c[2]] + c[3]):
        return False
    if item.get("compare", True) and any(has(v, 18) or has(v, 19) or has(v, 30) for v in [c[2]] + c[3]):
        return False
    return True


# ---------------------------------------------------------------------------------------------- oracle
def strip(nodes):
    """forget node identity and comment nodes (markers/placeholders are not rendered content)"""
    out = []
    for n in nodes:
        if n[0] == 0:
            out.append((0, tuple(n[1])))
        elif n[0] == 2:
            a = n[2]
            cls = None if not a[2] else tuple(sorted(bytes(a[2][0]).decode("utf-8", "replace").split()))
            out.append((2, n[1], (tuple(map(tuple, a[0])), a[1], cls, tuple(map(tuple, a[3]))), tuple(strip(n[3]))))
        elif n[0] == 3:
            # typed templates: all attributes; the class attribute as a set of tokens
            # (a class attribute without tokens is the same set of classes as no class attribute: classList.remove of
            # the last token leaves class=""; a DOM property set to `undefined` reads like one that was never set)
            attrs = []
            for k, val in n[2]:
                k, val = bytes(k).decode("utf-8", "replace"), bytes(val).decode("utf-8", "replace")
                if k == "class":
                    if val.split():
                        attrs.append((k, tuple(sorted(val.split()))))
                else:
                    attrs.append((k, val))
            pair = lambda l: tuple((bytes(k), bytes(x)) for k, x in l)
            props = tuple(kv for kv in pair(n[4]) if kv[1] != b"undefined")
            out.append((3, bytes(n[1]), tuple(attrs), pair(n[3]), props, tuple(strip(n[5]))))
        elif n[0] == 9:
            out.append((9,))
    return out


def sib_ok(nodes, npre, npost):
    vis = [n for n in nodes if n[0] != 1]
    pre = vis[:npre]
    post = vis[len(vis) - npost:] if npost else []
    if len(vis) < npre + npost:
        return False
    for i, n in enumerate(pre):
        if n[0] != 0 or bytes(n[1]) != b"PRE%d" % i or n[2] != 1:
            return False
    for j, n in enumerate(post):
        if n[0] != 0 or bytes(n[1]) != b"POST%d" % j or n[2] != 1:
            return False
    return True


def first_failure(item, impl):
    """(step index, message) of the first step that violates the property, or None"""
    npre, npost, v0, vs = item["case"]
    if isinstance(impl, str):
        return (-1, "panic / harness error: " + impl)
    if impl == [-9]:
        return (-1, "tachys panicked during a rebuild")
    if len(impl) != len(vs) + 2:
        return (-1, "harness returned %d entries for %d updates" % (len(impl), len(vs)))
    for i, step in enumerate(impl[1:-1]):
        after, fresh = step
        if strip(after) != strip(fresh):
            return (i, "after update %d the parent's children differ from a fresh render of the same value" % (i + 1))
        if not sib_ok(after, npre, npost):
            return (i, "update %d disturbed a sibling" % (i + 1))
    last = impl[-1]
    vis = [n for n in last if n[0] != 1]
    if len(vis) != npre + npost or not sib_ok(last, npre, npost):
        return (len(vs), "unmount left %d non-comment children, expected the %d siblings" % (len(vis), npre + npost))
    if any(n[0] == 1 for n in last):
        return (len(vs), "unmount left a marker/placeholder node behind")
    return None


def oracle(item, impl):
    f = first_failure(item, impl)
    return None if f is None else f[1]


# ------------------------------------------------------------------------------- known classes (syntactic)
def class_edit(a, b):
    """F-C03-c (= not compat in Dom/ViewProofs.v): an element rebuilt in place whose class:on toggle was on: the class
    attribute is written again from the class string, and the toggle only reacts to a change of its flag; wrong
    exactly when, afterwards, `on` is wanted but not in the string (toggle unchanged) or in the string but removed
    (toggle switched off)"""
    if a[0] != b[0]:
        return False
    t = a[0]
    if t == 2:
        if a[1] != b[1]:
            return False
        if a[2][3] == 1 and (b[2][3] == 1) != (b"on" in bytes(b[2][2]).split()):
            return True
        return class_edit(a[3], b[3])
    if t in (3, 12):
        return len(a[1]) == len(b[1]) and any(class_edit(x, y) for x, y in zip(a[1], b[1]))
    if t in (4, 11):
        return a[1] == b[1] and class_edit(a[2], b[2])
    if t == 5:
        return bool(a[1]) and bool(b[1]) and class_edit(a[1][0], b[1][0])
    if t == 6:
        return any(class_edit(x, y) for x, y in zip(a[1], b[1]))
    if t == 8:
        d = dict((k, x) for k, x in a[1])
        return any(k in d and class_edit(d[k], x) for k, x in b[1])
    if t == 15:
        return class_edit(a[1], b[1])
    if t == 16:
        return a[1] == b[1] and a[2] == b[2] and class_edit(a[3], b[3])
    if t == 17:
        return bool(a[1]) and bool(b[1]) and class_edit(a[1][0], b[1][0])
    return False


def classify(item, impl, model):
    """a failing case belongs to a known finding only if the faithful model predicts exactly the observed
    behaviour (impl == model) and the case lies in the finding's syntactic class"""
    npre, npost, v0, vs = item["case"]
    if isinstance(impl, str):
        return None
    if impl == [-9] and v0[0] == 30:
        return "F-C03-e" if v0[1] == 280 else None
    if impl == [-9]:
        # the panics that follow from F-C03-a (a view that was never mounted is rebuilt later):
        # predicted by the model, and only in cases with a StaticVec
        # (cases with a keyed list are not modelled: there the StaticVec alone decides)
        predicted = model == [-9] or not item.get("compare", True)
        return "F-C03-ab" if predicted and any(nodeless(v) for v in [v0] + vs) else None
    if isinstance(model, str):
        return None
    if item.get("compare", True) and impl != model:
        return None
    npre, npost, v0, vs = item["case"]
    f = first_failure(item, impl)
    if f is None or f[0] < 0:
        return None
    seq = [v0] + vs
    step = min(f[0], len(vs) - 1)
    upto = seq[:step + 2]
    if v0[0] == 30:
        if v0[1] in CLASS_TOGGLE_TEMPLATES and any(typed_class_edit(v0[1], v0[2], a[3] + [0] * 6, b[3] + [0] * 6)
                                                  for a, b in zip(upto, upto[1:])):
            return "F-C03-c"
        if v0[1] in NAME_CHANGE_TEMPLATES and name_change_known(v0[1], [(v[3] + [0] * 6) for v in upto]):
            return "F-C03-f"
        if v0[1] == 25 and npost > 0:
            return "F-C03-ab"           # StaticVec::rebuild re-mounts after the following siblings (F-C03-b)
        return None
    if any(class_edit(a, b) for a, b in zip(upto, upto[1:])):
        return "F-C03-c"
    if any(nodeless(v) for v in upto):
        return "F-C03-ab"
    return None


def nontrivial(item, model):
    npre, npost, v0, vs = item["case"]
    seq = [v0] + vs
    return any(a != b for a, b in zip(seq, seq[1:]))


def show(v):
    t = v[0]
    if t == 0:
        return repr(C.show_bytes(v[1]))
    if t == 1:
        return "()"
    if t == 9:
        return "%di32" % v[1]
    if t == 10:
        return "&" + repr(C.show_bytes(v[1]))
    if t == 13:
        return ["Arc<str>", "Cow::Borrowed", "Cow::Owned"][v[1]] + "(" + repr(C.show_bytes(v[2])) + ")"
    if t == 14:
        return "prim#%d(%s)" % (v[1], C.show_bytes(v[3]))
    if t == 15:
        return "(" + show(v[1]) + ",)"
    if t == 16:
        return "EitherOf%d::#%d(%s)" % (v[1], v[2], show(v[3]))
    if t == 17:
        return "Ok(" + show(v[1][0]) + ")" if v[1] else "Err"
    if t == 18:
        side = lambda x: "Some(" + show(x[0]) + ")" if x else "None"
        return "EitherKeepAlive{a: %s, b: %s, show_b: %s}" % (side(v[2]), side(v[3]), bool(v[1]))
    if t == 19:
        return "InertElement#%d" % v[1]
    if t == 30:
        return "template %d%s [%s] %r" % (v[1], " erased with into_any()" if v[2] else " (statically typed)", TEMPLATES.get(v[1]), v[3])
    if t == 11:
        return "EitherOf3::" + "ABC"[v[1]] + "(" + show(v[2]) + ")"
    if t == 12:
        return "[" + ", ".join(show(x) for x in v[1]) + "; %d]" % len(v[1])
    if t == 2:
        a = v[2]
        attrs = ""
        if a[0]:
            attrs += " id=%s" % C.show_bytes(a[0][0])
        if a[1]:
            attrs += " hidden"
        attrs += " class=%r%s" % (C.show_bytes(a[2]), " class:on" if a[3] else "")
        attrs += " style:color=%s" % C.show_bytes(a[4])
        return "<%s%s>%s</>" % (TAGS[v[1]], attrs, show(v[3]))
    if t == 3:
        return "(" + ", ".join(show(x) for x in v[1]) + ")"
    if t == 4:
        return ("Left(" if v[1] == 0 else "Right(") + show(v[2]) + ")"
    if t == 5:
        return "Some(" + show(v[1][0]) + ")" if v[1] else "None"
    if t == 6:
        return "vec![" + ", ".join(show(x) for x in v[1]) + "]"
    if t == 7:
        return "StaticVec[" + ", ".join(show(x) for x in v[1]) + "]"
    return "keyed[" + ", ".join("%d: %s" % (k, show(x)) for k, x in v[1]) + "]"


def describe(item):
    npre, npost, v0, vs = item["case"]
    return "%d leading / %d following siblings; build %s; then rebuild with %s; unmount" % (
        npre, npost, show(v0), " ; ".join(show(v) for v in vs))


def coverage_extra(results):
    shapes = {}
    names = ["text", "unit", "element", "tuple", "either", "option", "vec", "staticvec", "keyed", "i32", "static-str",
             "eitherof3", "array", "arc/cow-str", "primitive", "1-tuple", "eitherofN", "result", "either-keep-alive",
             "inert-element"]
    for r in results:
        npre, npost, v0, vs = r["item"]["case"]
        for v in [v0] + vs:
            for code in range(20):
                if has(v, code):
                    shapes[names[code]] = shapes.get(names[code], 0) + 1
            if has_raw(v):
                shapes["raw-text element"] = shapes.get("raw-text element", 0) + 1
    return {"values_containing": shapes}
