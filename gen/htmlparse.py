"""A from-the-specification HTML parser for the oracles of the SSR properties.

Implements the parts of the WHATWG HTML parsing algorithm (section 13.2) that server-rendered
leptos pages exercise, and the parts hostile data would exercise if escaping failed:

  * input stream preprocessing (newline normalisation);
  * the tokenizer: data, RCDATA, RAWTEXT, script data (all escaped / double-escaped states),
    tags, attributes (double-quoted, single-quoted, unquoted, duplicate dropping), comments
    (all comment states), bogus comments, DOCTYPE (name only), character references (the full
    named table from Python's html.entities.html5, numeric references with the replacement
    table, the attribute-value legacy rule);
  * tree construction: the insertion modes initial / before html / before head / in head /
    after head / in body / text / after body / after after body, with the "in body" rules for
    ordinary, void, RCDATA and raw-text elements, p-closing block elements, headings, li/dd/dt,
    pre/listing/textarea newline skipping, button, implied end tags, scopes, the generic end-tag
    rule, and NUL handling. Formatting elements (a, b, i, ...) are treated as ordinary elements
    and tables, select and template are not implemented: a document that needs those rules is
    parsed approximately and `Parser.notes` says so;
  * foreign content (13.2.6.5): `<svg>` / `<math>` start a foreign subtree in which every element
    (also `style`, `script`, `title`, `textarea`, `xmp` ...) is an ordinary element in the data
    state, NUL becomes U+FFFD, `<![CDATA[ ... ]]>` is a CDATA section, self-closing start tags are
    honoured, the break-out start tags (`b`, `div`, `p`, `span`, `img`, ...) close the foreign
    subtree, and HTML rules apply again inside the HTML integration points (svg `foreignObject`,
    `desc`, `title`; MathML `annotation-xml` with an HTML encoding) and, for text and most start
    tags, inside the MathML text integration points (`mi`, `mo`, `mn`, `ms`, `mtext`). Element and
    attribute names keep the tokenizer's lower case (the case fix-ups of svg names are not applied).

Tree: ("doc", [children]) with children ("doctype", name) | ("comment", text) | ("text", text) |
("el", name, [(attr, value), ...], [children]).

`parse_document(html)`, `parse_fragment(html)` (context element: body), `serialize(tree)`.
"""
from html.entities import html5 as _NAMED

WS = "\t\n\f\r "
VOID = {"area", "base", "br", "col", "embed", "hr", "img", "input", "link", "meta", "source", "track", "wbr"}
RCDATA_ELEMENTS = {"title", "textarea"}
RAWTEXT_ELEMENTS = {"style", "xmp", "iframe", "noembed", "noframes", "noscript"}   # scripting enabled
P_CLOSERS = {"address", "article", "aside", "blockquote", "center", "details", "dialog", "dir", "div", "dl",
             "fieldset", "figcaption", "figure", "footer", "header", "hgroup", "main", "menu", "nav", "ol", "p",
             "search", "section", "summary", "ul"}
HEADINGS = {"h1", "h2", "h3", "h4", "h5", "h6"}
IMPLIED_END = {"dd", "dt", "li", "optgroup", "option", "p", "rb", "rp", "rt", "rtc"}
SPECIAL = {"address", "applet", "area", "article", "aside", "base", "basefont", "bgsound", "blockquote", "body",
           "br", "button", "caption", "center", "col", "colgroup", "dd", "details", "dir", "div", "dl", "dt",
           "embed", "fieldset", "figcaption", "figure", "footer", "form", "frame", "frameset", "h1", "h2", "h3",
           "h4", "h5", "h6", "head", "header", "hgroup", "hr", "html", "iframe", "img", "input", "keygen", "li",
           "link", "listing", "main", "marquee", "menu", "meta", "nav", "noembed", "noframes", "noscript",
           "object", "ol", "p", "param", "plaintext", "pre", "script", "search", "section", "select", "source",
           "style", "summary", "table", "tbody", "td", "template", "textarea", "tfoot", "th", "thead", "title",
           "tr", "track", "ul", "wbr", "xmp"}
SCOPE_BASE = {"applet", "caption", "html", "table", "td", "th", "marquee", "object", "template"}
FORMATTING = {"a", "b", "big", "code", "em", "font", "i", "nobr", "s", "small", "strike", "strong", "tt", "u"}
UNIMPLEMENTED = {"table", "caption", "colgroup", "col", "tbody", "tfoot", "thead", "tr", "td", "th", "select",
                 "option", "optgroup", "template", "frameset", "frame", "plaintext", "form",
                 "applet", "marquee", "object"}
C1_REPLACEMENTS = {
    0x80: 0x20AC, 0x82: 0x201A, 0x83: 0x0192, 0x84: 0x201E, 0x85: 0x2026, 0x86: 0x2020, 0x87: 0x2021,
    0x88: 0x02C6, 0x89: 0x2030, 0x8A: 0x0160, 0x8B: 0x2039, 0x8C: 0x0152, 0x8E: 0x017D, 0x91: 0x2018,
    0x92: 0x2019, 0x93: 0x201C, 0x94: 0x201D, 0x95: 0x2022, 0x96: 0x2013, 0x97: 0x2014, 0x98: 0x02DC,
    0x99: 0x2122, 0x9A: 0x0161, 0x9B: 0x203A, 0x9C: 0x0153, 0x9E: 0x017E, 0x9F: 0x0178}
_MAX_NAME = max(len(k) for k in _NAMED)
# 13.2.6.5: start tags that end a foreign subtree
FOREIGN_BREAKOUT = {"b", "big", "blockquote", "body", "br", "center", "code", "dd", "div", "dl", "dt", "em", "embed",
                    "h1", "h2", "h3", "h4", "h5", "h6", "head", "hr", "i", "img", "li", "listing", "menu", "meta",
                    "nobr", "ol", "p", "pre", "ruby", "s", "small", "span", "strong", "strike", "sub", "sup", "table",
                    "tt", "u", "ul", "var"}
SVG_HTML_INTEGRATION = {"foreignobject", "desc", "title"}
MATHML_TEXT_INTEGRATION = {"mi", "mo", "mn", "ms", "mtext"}


def preprocess(text):
    return text.replace("\r\n", "\n").replace("\r", "\n")


def is_alpha(c):
    return c is not None and ("a" <= c <= "z" or "A" <= c <= "Z")


def is_alnum(c):
    return c is not None and (is_alpha(c) or "0" <= c <= "9")


def lower(c):
    return chr(ord(c) + 32) if "A" <= c <= "Z" else c


# ----------------------------------------------------------------------------- tokenizer
class Tokenizer:
    """yields ("chars", str) | ("start", name, attrs, self_closing) | ("end", name) |
    ("comment", str) | ("doctype", name) | ("eof",). The tree builder sets `.state` to
    "rcdata" / "rawtext" / "script" and `.last_start` as the algorithm requires."""

    def __init__(self, text):
        self.s = preprocess(text)
        self.i = 0
        self.state = "data"
        self.last_start = None
        self.errors = []
        self.cdata_allowed = lambda: False      # set by the tree builder: adjusted current node is foreign

    def peek(self, k=0):
        j = self.i + k
        return self.s[j] if j < len(self.s) else None

    # -- character references (13.2.5.72 ff.); returns the decoded text, consumes input after '&'
    def char_ref(self, in_attr):
        c = self.peek()
        if is_alnum(c):
            # named: longest prefix of the input that is an entity name
            best = None
            for n in range(min(_MAX_NAME, len(self.s) - self.i), 0, -1):
                cand = self.s[self.i:self.i + n]
                if cand in _NAMED:
                    best = cand
                    break
            if best is not None:
                nxt = self.s[self.i + len(best)] if self.i + len(best) < len(self.s) else None
                if in_attr and not best.endswith(";") and (nxt == "=" or is_alnum(nxt)):
                    return "&"      # legacy: left as text, nothing consumed
                self.i += len(best)
                return _NAMED[best]
            return "&"              # ambiguous ampersand: the alnums follow as ordinary text
        if c == "#":
            j = self.i + 1
            hexa = j < len(self.s) and self.s[j] in "xX"
            if hexa:
                j += 1
            k = j
            digits = "0123456789abcdefABCDEF" if hexa else "0123456789"
            while k < len(self.s) and self.s[k] in digits:
                k += 1
            if k == j:
                return "&"          # no digits: "&#" / "&#x" stay as text
            v = int(self.s[j:k], 16 if hexa else 10)
            if k < len(self.s) and self.s[k] == ";":
                k += 1
            self.i = k
            if v == 0 or v > 0x10FFFF or 0xD800 <= v <= 0xDFFF:
                return "\ufffd"
            return chr(C1_REPLACEMENTS.get(v, v))
        return "&"

    def tokens(self):
        while True:
            t = self.next_token()
            yield t
            if t[0] == "eof":
                return

    def next_token(self):
        st = self.state
        if st == "data":
            return self.data()
        if st == "rcdata":
            return self.text_until_end_tag(decode=True)
        if st == "rawtext":
            return self.text_until_end_tag(decode=False)
        if st == "script":
            return self.script_data()
        raise AssertionError(st)

    def data(self):
        out = []
        while True:
            c = self.peek()
            if c is None:
                if out:
                    return ("chars", "".join(out))
                return ("eof",)
            if c == "&":
                self.i += 1
                out.append(self.char_ref(False))
                continue
            if c == "<":
                n = self.peek(1)
                if is_alpha(n) or n in ("/", "!", "?"):
                    if n == "/" and not is_alpha(self.peek(2)):
                        if self.peek(2) == ">":      # "</>": dropped
                            if out:
                                return ("chars", "".join(out))
                            self.i += 3
                            continue
                        if self.peek(2) is None:     # "</" EOF: text
                            out.append("</")
                            self.i += 2
                            continue
                    if out:
                        return ("chars", "".join(out))
                    return self.markup()
                out.append("<")
                self.i += 1
                continue
            out.append(c)       # NUL is emitted as is; the tree builder decides
            self.i += 1

    def text_until_end_tag(self, decode):
        """RCDATA / RAWTEXT states: text up to the appropriate end tag"""
        out = []
        while True:
            c = self.peek()
            if c is None:
                self.state = "data"
                if out:
                    return ("chars", "".join(out))
                return ("eof",)
            if c == "<" and self.peek(1) == "/":
                name, j = self.scan_name(self.i + 2)
                nxt = self.s[j] if j < len(self.s) else None
                if name and name == self.last_start and nxt is not None and nxt in WS + "/>":
                    if out:
                        return ("chars", "".join(out))
                    self.state = "data"
                    return self.markup()
                out.append("<")
                self.i += 1
                continue
            if c == "&" and decode:
                self.i += 1
                out.append(self.char_ref(False))
                continue
            out.append("\ufffd" if c == "\0" else c)
            self.i += 1

    def script_data(self):
        from . import jsliteral
        rest = self.s[self.i:]
        text, end, _flags = jsliteral.script_content(rest, self.last_start or "script")
        if end is None:
            self.i = len(self.s)
            self.state = "data"
            return ("chars", text) if text else ("eof",)
        if text:
            self.i += end
            # stay in script state: the next call finds the end tag at once
            return ("chars", text)
        self.i += end
        self.state = "data"
        return self.markup()

    def scan_name(self, j):
        k = j
        while k < len(self.s) and is_alpha(self.s[k]):
            k += 1
        return self.s[j:k].lower(), k

    # -- everything that starts with '<' followed by alpha, '/', '!' or '?'
    def markup(self):
        n = self.peek(1)
        if n == "!":
            return self.markup_declaration()
        if n == "?":
            self.i += 1
            return self.bogus_comment()
        end = n == "/"
        self.i += 2 if end else 1
        if end and not is_alpha(self.peek()):
            return self.bogus_comment()
        # tag name state
        name = []
        while True:
            c = self.peek()
            if c is None:
                return ("eof",)
            if c in WS or c in "/>":
                break
            name.append("\ufffd" if c == "\0" else lower(c))
            self.i += 1
        name = "".join(name)
        attrs = []
        self_closing = False
        while True:
            # before attribute name
            while self.peek() is not None and self.peek() in WS:
                self.i += 1
            c = self.peek()
            if c is None:
                return ("eof",)
            if c == ">":
                self.i += 1
                break
            if c == "/":
                self.i += 1
                if self.peek() == ">":
                    self.i += 1
                    self_closing = True
                    break
                continue
            # attribute name state ('=' as first character is part of the name)
            an = []
            first = True
            while True:
                c = self.peek()
                if c is None or c in WS or c in "/>" or (c == "=" and not first):
                    break
                an.append("\ufffd" if c == "\0" else lower(c))
                self.i += 1
                first = False
            an = "".join(an)
            # after attribute name
            while self.peek() is not None and self.peek() in WS:
                self.i += 1
            av = ""
            if self.peek() == "=":
                self.i += 1
                while self.peek() is not None and self.peek() in WS:
                    self.i += 1
                q = self.peek()
                if q in ('"', "'"):
                    self.i += 1
                    v = []
                    while True:
                        c = self.peek()
                        if c is None:
                            return ("eof",)
                        if c == q:
                            self.i += 1
                            break
                        if c == "&":
                            self.i += 1
                            v.append(self.char_ref(True))
                            continue
                        v.append("\ufffd" if c == "\0" else c)
                        self.i += 1
                    av = "".join(v)
                elif q == ">":
                    pass    # missing value
                else:
                    v = []
                    while True:
                        c = self.peek()
                        if c is None:
                            return ("eof",)
                        if c in WS or c == ">":
                            break
                        if c == "&":
                            self.i += 1
                            v.append(self.char_ref(True))
                            continue
                        v.append("\ufffd" if c == "\0" else c)
                        self.i += 1
                    av = "".join(v)
            if an not in [a for a, _ in attrs]:
                attrs.append((an, av))
            else:
                self.errors.append("duplicate attribute " + an)
        if end:
            return ("end", name)
        self.last_start = name
        return ("start", name, attrs, self_closing)

    def bogus_comment(self):
        j = self.s.find(">", self.i)
        if j < 0:
            text = self.s[self.i:]
            self.i = len(self.s)
        else:
            text = self.s[self.i:j]
            self.i = j + 1
        return ("comment", text.replace("\0", "\ufffd"))

    def markup_declaration(self):
        s = self.s
        if s.startswith("<!--", self.i):
            self.i += 4
            return self.comment()
        if s[self.i + 2:self.i + 9].lower() == "doctype":
            j = s.find(">", self.i)
            body = s[self.i + 9:j if j >= 0 else len(s)]
            self.i = j + 1 if j >= 0 else len(s)
            name = body.strip(WS).split(" ")[0].lower() if body.strip(WS) else ""
            return ("doctype", name)
        if s.startswith("<![CDATA[", self.i) and self.cdata_allowed():
            # CDATA section state: text up to "]]>" (or the end of input)
            j = s.find("]]>", self.i + 9)
            text = s[self.i + 9:j if j >= 0 else len(s)]
            self.i = j + 3 if j >= 0 else len(s)
            return ("chars", text)
        # <![CDATA[ in HTML content, and everything else: bogus comment
        self.i += 2
        return self.bogus_comment()

    def comment(self):
        """comment start state onwards (13.2.5.43-52)"""
        s = self.s
        n = len(s)
        i = self.i
        # comment start: "<!-->" and "<!--->" are empty comments
        if s.startswith(">", i):
            self.i = i + 1
            return ("comment", "")
        if s.startswith("->", i):
            self.i = i + 2
            return ("comment", "")
        out = []
        while True:
            if i >= n:
                self.i = n
                return ("comment", "".join(out))
            if s.startswith("-->", i):
                self.i = i + 3
                return ("comment", "".join(out))
            if s.startswith("--!>", i):
                self.i = i + 4
                return ("comment", "".join(out))
            out.append("\ufffd" if s[i] == "\0" else s[i])
            i += 1


# ----------------------------------------------------------------------------- tree construction
class Parser:
    def __init__(self, text, fragment=False):
        self.tok = Tokenizer(text)
        self.doc = ("doc", [])
        self.stack = []
        self.notes = []
        self.skip_lf = False
        self.head = None
        self.foreign = {}       # id(element) -> "svg" | "math" for elements in a foreign namespace
        self.tok.cdata_allowed = lambda: bool(self.stack) and id(self.cur()) in self.foreign
        if fragment:
            html = ("el", "html", [], [])
            body = ("el", "body", [], [])
            self.doc[1].append(html)
            html[3].append(body)
            self.stack = [html, body]
            self.mode = "in body"
        else:
            self.mode = "initial"

    # -- helpers
    def cur(self):
        return self.stack[-1]

    def children(self, node):
        return node[1] if node[0] == "doc" else node[3]

    def insert_text(self, text, parent=None):
        if not text:
            return
        kids = self.children(parent or self.cur())
        if kids and kids[-1][0] == "text":
            kids[-1] = ("text", kids[-1][1] + text)
        else:
            kids.append(("text", text))

    def insert_el(self, name, attrs, push=True):
        el = ("el", name, list(attrs), [])
        self.children(self.cur() if self.stack else self.doc).append(el)
        if push:
            self.stack.append(el)
        return el

    def in_scope(self, name, extra=()):
        for el in reversed(self.stack):
            if el[1] == name:
                return True
            if el[1] in SCOPE_BASE or el[1] in extra:
                return False
        return False

    def implied_end(self, except_name=None):
        while self.stack and self.cur()[1] in IMPLIED_END and self.cur()[1] != except_name:
            self.stack.pop()

    def pop_until(self, names):
        while self.stack:
            el = self.stack.pop()
            if el[1] in names:
                return

    def close_p(self):
        self.implied_end("p")
        self.pop_until({"p"})

    # -- driver
    def run(self):
        for t in self.tok.tokens():
            self.dispatch(t)
        return self.doc

    def dispatch(self, t):
        if self.stack and t[0] != "eof" and self.mode != "text":
            cur = self.cur()
            ns = self.foreign.get(id(cur))
            if ns is not None:
                html_rules = False
                if t[0] in ("start", "chars"):
                    if self.is_html_integration(cur):
                        html_rules = True
                    elif ns == "math" and cur[1] in MATHML_TEXT_INTEGRATION and (
                            t[0] == "chars" or t[1] not in ("mglyph", "malignmark")):
                        html_rules = True
                    elif ns == "math" and cur[1] == "annotation-xml" and t[0] == "start" and t[1] == "svg":
                        html_rules = True
                if not html_rules:
                    return self.foreign_content(t)
        getattr(self, "mode_" + self.mode.replace(" ", "_").replace("(", "").replace(")", ""))(t)

    # -- foreign content (13.2.6.5)
    def is_html_integration(self, el):
        ns = self.foreign.get(id(el))
        if ns == "svg":
            return el[1] in SVG_HTML_INTEGRATION
        if ns == "math" and el[1] == "annotation-xml":
            enc = dict(el[2]).get("encoding", "").lower()
            return enc in ("text/html", "application/xhtml+xml")
        return False

    def insert_foreign(self, t, ns):
        el = self.insert_el(t[1], t[2])
        self.foreign[id(el)] = ns
        self._keep = getattr(self, "_keep", [])
        self._keep.append(el)           # ids stay unique while the parser lives
        if len(t) > 3 and t[3]:
            self.stack.pop()            # self-closing flag acknowledged
        return el

    def foreign_content(self, t):
        kind = t[0]
        if kind == "chars":
            self.insert_text(t[1].replace("\0", "\ufffd"))
            return
        if kind == "comment":
            self.children(self.cur()).append(t)
            return
        if kind == "doctype":
            return
        if kind == "start" or (kind == "end" and t[1] in ("br", "p")):
            name = t[1]
            if kind == "end" or name in FOREIGN_BREAKOUT or (
                    name == "font" and any(a in ("color", "face", "size") for a, _ in t[2])):
                while (self.stack and id(self.cur()) in self.foreign and not self.is_html_integration(self.cur())
                       and not (self.foreign[id(self.cur())] == "math" and self.cur()[1] in MATHML_TEXT_INTEGRATION)):
                    self.stack.pop()
                return getattr(self, "mode_" + self.mode.replace(" ", "_").replace("(", "").replace(")", ""))(t)
            self.insert_foreign(t, self.foreign[id(self.cur())])
            return
        # end tag: the nearest element of that name closes, up to the first HTML element, where the
        # HTML rules of the insertion mode take over
        name = t[1]
        for idx in range(len(self.stack) - 1, -1, -1):
            el = self.stack[idx]
            if idx < len(self.stack) - 1 and id(el) not in self.foreign:
                return getattr(self, "mode_" + self.mode.replace(" ", "_").replace("(", "").replace(")", ""))(t)
            if el[1] == name:
                del self.stack[idx:]
                return

    def redo(self, t):
        """reprocess the token in the (new) current insertion mode"""
        self.dispatch(t)

    def mode_initial(self, t):
        if t[0] == "chars":
            rest = t[1].lstrip(WS)
            if not rest:
                return
            t = ("chars", rest)
        if t[0] == "comment":
            self.doc[1].append(t)
            return
        if t[0] == "doctype":
            self.doc[1].append(t)
            self.mode = "before html"
            return
        self.mode = "before html"
        return self.redo(t)

    def mode_before_html(self, t):
        if t[0] == "doctype":
            return
        if t[0] == "comment":
            self.doc[1].append(t)
            return
        if t[0] == "chars":
            rest = t[1].lstrip(WS)
            if not rest:
                return
            t = ("chars", rest)
        if t[0] == "start" and t[1] == "html":
            self.insert_el("html", t[2])
            self.mode = "before head"
            return
        if t[0] == "end" and t[1] not in ("head", "body", "html", "br"):
            return
        self.insert_el("html", [])
        self.mode = "before head"
        return self.redo(t)

    def mode_before_head(self, t):
        if t[0] == "chars":
            rest = t[1].lstrip(WS)
            if not rest:
                return
            t = ("chars", rest)
        if t[0] == "comment":
            self.children(self.cur()).append(t)
            return
        if t[0] == "doctype":
            return
        if t[0] == "start" and t[1] == "html":
            return self.merge_html_attrs(t)
        if t[0] == "start" and t[1] == "head":
            self.head = self.insert_el("head", t[2])
            self.mode = "in head"
            return
        if t[0] == "end" and t[1] not in ("head", "body", "html", "br"):
            return
        self.head = self.insert_el("head", [])
        self.mode = "in head"
        return self.redo(t)

    def merge_html_attrs(self, t):
        html = self.stack[0]
        have = [a for a, _ in html[2]]
        for a, v in t[2]:
            if a not in have:
                html[2].append((a, v))

    def start_text_element(self, t):
        name = t[1]
        self.insert_el(name, t[2])
        if name in RCDATA_ELEMENTS:
            self.tok.state = "rcdata"
        elif name == "script":
            self.tok.state = "script"
        else:
            self.tok.state = "rawtext"
        self.tok.last_start = name
        self.orig_mode = self.mode
        self.mode = "text"
        if name == "textarea":
            self.skip_lf = True

    def mode_in_head(self, t):
        if t[0] == "chars":
            lead = t[1][:len(t[1]) - len(t[1].lstrip(WS))]
            self.insert_text(lead)
            rest = t[1][len(lead):]
            if not rest:
                return
            t = ("chars", rest)
        if t[0] == "comment":
            self.children(self.cur()).append(t)
            return
        if t[0] == "doctype":
            return
        if t[0] == "start":
            name = t[1]
            if name == "html":
                return self.merge_html_attrs(t)
            if name in ("base", "basefont", "bgsound", "link", "meta"):
                self.insert_el(name, t[2], push=False)
                return
            if name == "title" or name in ("noscript", "noframes", "style", "script"):
                return self.start_text_element(t)
            if name == "template":
                self.notes.append("template is not implemented")
                self.insert_el(name, t[2])
                return
            if name == "head":
                return
        if t[0] == "end":
            if t[1] == "head":
                self.stack.pop()
                self.mode = "after head"
                return
            if t[1] not in ("body", "html", "br"):
                return
        self.stack.pop()            # head
        self.mode = "after head"
        return self.redo(t)

    def mode_after_head(self, t):
        if t[0] == "chars":
            lead = t[1][:len(t[1]) - len(t[1].lstrip(WS))]
            self.insert_text(lead)
            rest = t[1][len(lead):]
            if not rest:
                return
            t = ("chars", rest)
        if t[0] == "comment":
            self.children(self.cur()).append(t)
            return
        if t[0] == "doctype":
            return
        if t[0] == "start":
            name = t[1]
            if name == "html":
                return self.merge_html_attrs(t)
            if name == "body":
                self.insert_el("body", t[2])
                self.mode = "in body"
                return
            if name in ("base", "basefont", "bgsound", "link", "meta", "noframes", "script", "style", "template", "title"):
                # processed "in head" with the head element pushed back onto the stack
                self.stack.append(self.head)
                self.mode = "in head"
                self.mode_in_head(t)
                if self.mode == "text":
                    self.orig_mode = "after head (restore head)"
                else:
                    if self.head in self.stack:
                        self.stack.remove(self.head)
                    self.mode = "after head"
                return
            if name == "head":
                return
        if t[0] == "end" and t[1] not in ("body", "html", "br"):
            return
        self.insert_el("body", [])
        self.mode = "in body"
        return self.redo(t)

    def mode_text(self, t):
        if t[0] == "chars":
            text = t[1]
            if self.skip_lf:
                self.skip_lf = False
                if text.startswith("\n"):
                    text = text[1:]
            self.insert_text(text)
            return
        self.skip_lf = False
        if t[0] == "eof":
            self.stack.pop()
            self.mode = self.restore_mode()
            return self.redo(t)
        if t[0] == "end":
            self.stack.pop()
            self.mode = self.restore_mode()
            return
        raise AssertionError("unexpected token in text mode: %r" % (t,))

    def restore_mode(self):
        if self.orig_mode == "after head (restore head)":
            if self.head in self.stack:
                self.stack.remove(self.head)
            return "after head"
        return self.orig_mode

    def mode_in_body(self, t):
        kind = t[0]
        if kind == "chars":
            text = t[1].replace("\0", "")
            if self.skip_lf:
                self.skip_lf = False
                if text.startswith("\n"):
                    text = text[1:]
            self.insert_text(text)
            return
        self.skip_lf = False
        if kind == "comment":
            self.children(self.cur()).append(t)
            return
        if kind == "doctype":
            return
        if kind == "eof":
            return
        if kind == "start":
            name, attrs = t[1], t[2]
            if name == "html":
                return self.merge_html_attrs(t)
            if name in ("base", "basefont", "bgsound", "link", "meta"):
                self.insert_el(name, attrs, push=False)
                return
            if name in ("title", "noframes", "style", "script", "textarea", "xmp", "iframe", "noembed", "noscript"):
                if name == "xmp" and self.in_scope("p", {"button"}):
                    self.close_p()
                return self.start_text_element(t)
            if name == "body":
                if len(self.stack) > 1 and self.stack[1][1] == "body":
                    body = self.stack[1]
                    have = [a for a, _ in body[2]]
                    for a, v in attrs:
                        if a not in have:
                            body[2].append((a, v))
                return
            if name == "head":
                return
            if name in P_CLOSERS:
                if self.in_scope("p", {"button"}):
                    self.close_p()
                self.insert_el(name, attrs)
                return
            if name in HEADINGS:
                if self.in_scope("p", {"button"}):
                    self.close_p()
                if self.cur()[1] in HEADINGS:
                    self.stack.pop()
                self.insert_el(name, attrs)
                return
            if name in ("pre", "listing"):
                if self.in_scope("p", {"button"}):
                    self.close_p()
                self.insert_el(name, attrs)
                self.skip_lf = True
                return
            if name in ("li", "dd", "dt"):
                group = {"li"} if name == "li" else {"dd", "dt"}
                for el in reversed(self.stack):
                    if el[1] in group:
                        self.implied_end(el[1])
                        self.pop_until({el[1]})
                        break
                    if el[1] in SPECIAL and el[1] not in ("address", "div", "p"):
                        break
                if self.in_scope("p", {"button"}):
                    self.close_p()
                self.insert_el(name, attrs)
                return
            if name == "button":
                if self.in_scope("button"):
                    self.implied_end()
                    self.pop_until({"button"})
                self.insert_el(name, attrs)
                return
            if name in VOID or name in ("keygen", "param"):
                if name == "hr" and self.in_scope("p", {"button"}):
                    self.close_p()
                self.insert_el(name, attrs, push=False)
                return
            if name == "image":
                self.insert_el("img", attrs, push=False)
                return
            if name in ("svg", "math"):
                self.insert_foreign(t, name)
                return
            if name in UNIMPLEMENTED:
                self.notes.append("<%s> needs rules that are not implemented; treated as an ordinary element" % name)
            if name in FORMATTING and any(el[1] == name for el in self.stack) and name in ("a", "nobr"):
                self.notes.append("nested <%s>: adoption agency not implemented" % name)
            self.insert_el(name, attrs)
            return
        # end tags
        name = t[1]
        if name == "body":
            if self.in_scope("body"):
                self.mode = "after body"
            return
        if name == "html":
            if self.in_scope("body"):
                self.mode = "after body"
                return self.redo(t)
            return
        if name == "p":
            if not self.in_scope("p", {"button"}):
                self.insert_el("p", [])
            self.close_p()
            return
        if name == "br":
            self.insert_el("br", [], push=False)
            return
        if name in ("li",):
            if self.in_scope("li", {"ol", "ul"}):
                self.implied_end("li")
                self.pop_until({"li"})
            return
        if name in ("dd", "dt"):
            if self.in_scope(name):
                self.implied_end(name)
                self.pop_until({name})
            return
        if name in HEADINGS:
            if any(self.in_scope(h) for h in HEADINGS):
                self.implied_end()
                self.pop_until(HEADINGS)
            return
        if name in P_CLOSERS or name in ("button", "listing", "pre"):
            if self.in_scope(name):
                self.implied_end()
                self.pop_until({name})
            return
        # any other end tag
        for idx in range(len(self.stack) - 1, -1, -1):
            el = self.stack[idx]
            if el[1] == name:
                self.implied_end(name)
                if self.cur() is not el and name in FORMATTING:
                    self.notes.append("misnested </%s>: adoption agency not implemented" % name)
                del self.stack[idx:]
                return
            if el[1] in SPECIAL:
                return

    def mode_after_body(self, t):
        if t[0] == "chars" and not t[1].strip(WS):
            self.mode_in_body(t)
            return
        if t[0] == "comment":
            self.stack[0][3].append(t)
            return
        if t[0] == "doctype":
            return
        if t[0] == "start" and t[1] == "html":
            return self.merge_html_attrs(t)
        if t[0] == "end" and t[1] == "html":
            self.mode = "after after body"
            return
        if t[0] == "eof":
            return
        self.mode = "in body"
        return self.redo(t)

    def mode_after_after_body(self, t):
        if t[0] == "comment":
            self.doc[1].append(t)
            return
        if t[0] == "doctype" or t[0] == "eof":
            return
        if t[0] == "chars" and not t[1].strip(WS):
            self.mode_in_body(t)
            return
        if t[0] == "start" and t[1] == "html":
            return self.merge_html_attrs(t)
        self.mode = "in body"
        return self.redo(t)


def parse_document(html):
    p = Parser(html)
    p.run()
    return p.doc, p.notes


def parse_fragment(html):
    """children of a <body> context element"""
    p = Parser(html, fragment=True)
    p.run()
    body = p.doc[1][0][3][0]
    return body[3], p.notes


def serialize(node, depth=0):
    """indented text rendering, for messages"""
    pad = "  " * depth
    if isinstance(node, list):
        return "".join(serialize(n, depth) for n in node)
    if node[0] == "doc":
        return "".join(serialize(n, depth) for n in node[1])
    if node[0] == "text":
        return "%s#text %r\n" % (pad, node[1])
    if node[0] == "comment":
        return "%s#comment %r\n" % (pad, node[1])
    if node[0] == "doctype":
        return "%s#doctype %s\n" % (pad, node[1])
    return "%s<%s%s>\n%s" % (pad, node[1], "".join(" %s=%r" % (a, v) for a, v in node[2]),
                             "".join(serialize(n, depth + 1) for n in node[3]))


# ----------------------------------------------------------------------------- leptos out-of-order streaming
def apply_leptos_ooo(nodes):
    """`nodes`: the parsed children of <body> of an out-of-order stream. Emulates, in document
    order, the replacement scripts that tachys' OooChunk::push_end_with_nonce emits (their text is
    matched exactly against gen/htmlparse_stream.py's transcription of the JavaScript): the
    comments `s-<id>o` / `s-<id>c` delimit a range that is replaced by the content of
    <template id="<id>f">. Returns (nodes without the delivery templates and scripts, problems)."""
    from .htmlparse_stream import SCRIPT_RE, REPLACE_TAIL, KEEP_TAIL
    problems = []
    root = ("el", "body", [], list(nodes))

    def walk_comments(node, out):
        for idx, ch in enumerate(node[3]):
            if ch[0] == "comment":
                out.append((node, idx, ch))
            elif ch[0] == "el" and ch[1] != "template":
                walk_comments(ch, out)

    def find_id(node, want):
        for ch in node[3]:
            if ch[0] == "el":
                if dict(ch[2]).get("id") == want:
                    return ch
                r = find_id(ch, want)
                if r is not None:
                    return r
        return None

    def clone(n):
        if n[0] == "el":
            return ("el", n[1], list(n[2]), [clone(c) for c in n[3]])
        return n

    delivery = []
    for ch in list(root[3]):
        if not (ch[0] == "el" and ch[1] == "script"):
            continue
        src = "".join(t[1] for t in ch[3] if t[0] == "text")
        m = SCRIPT_RE.match(src)
        if not m or m.group(2) not in (REPLACE_TAIL, KEEP_TAIL):
            continue
        sid, replace = m.group(1), m.group(2) == REPLACE_TAIL
        delivery.append(ch)
        comments = []
        walk_comments(root, comments)
        opens = [c for c in comments if c[2][1] == "s-%so" % sid]
        closes = [c for c in comments if c[2][1] == "s-%sc" % sid]
        if not opens or not closes:
            problems.append("replacement script %s finds no marker comments" % sid)
            continue
        (po, io, _), (pc, ic, _) = opens[-1], closes[-1]
        if po is not pc or io > ic:
            problems.append("markers of chunk %s are not siblings in order" % sid)
            continue
        if replace:
            tpl = find_id(root, sid + "f")
            if tpl is None:
                problems.append("replacement script %s finds no template" % sid)
                continue
            delivery.append(tpl)
            po[3][io:ic + 1] = [clone(c) for c in tpl[3]]
        else:
            del po[3][ic]
            del po[3][io]
        # adjacent text nodes that the DOM range operations leave stay separate nodes
    out = [c for c in root[3] if not any(c is d for d in delivery)]
    return out, problems
